"""Expression evaluation (symbolic) for pyvc."""
from __future__ import annotations

import ast

import z3

from . import src as S
from .core import *  # noqa: F401,F403
from .vals import *  # noqa: F401,F403
from .vals import SEQ, ROWS, INTARR, StrSeqP, IntRowsP, MapSeqP, SetP, VMapSlot, VGapTuple
from .schema import SCHEMA, CLASS_MODULE

MAXCP = 0x10FFFF
BUILTINS = {"len", "ord", "chr", "int", "str", "bool", "isinstance", "range", "enumerate", "min", "max", "list",
            "dict", "tuple", "type", "getattr", "iter", "repr", "abs", "set", "sorted", "reversed"}


class ExprMixin:
    # ------------------------------------------------------------------ heap access
    def sym_for_type(self, ty: str, name: str):
        """fresh/deterministic symbolic value of a schema type, named after its heap path"""
        if ty == "int":
            return VInt(z3.Int(name))
        if ty == "bool":
            return VBool(z3.Bool(name))
        if ty == "str":
            s = VStr.var(name)
            self.assume_axiom(s.b >= 0)
            return s
        if ty == "char":
            c = z3.Int(name)
            self.assume_axiom(z3.And(c >= 0, c <= MAXCP))
            return VStr.chr(c)
        if ty == "atom":
            return VAtom(z3.Int(name))
        if ty == "optint":
            return VOpt(z3.Bool(name + "?none"), VInt(z3.Int(name)))
        if ty == "optchar":
            c = z3.Int(name)
            self.assume_axiom(z3.And(c >= 0, c <= MAXCP))
            return VOpt(z3.Bool(name + "?none"), VStr.chr(c))
        if ty == "optatom":
            return VOpt(z3.Bool(name + "?none"), VAtom(z3.Int(name)))
        if ty in ("intlist", "atomlist"):
            ref = name
            if ref not in self.payload0:
                ln = z3.Int(f"len({name})")
                self.payload0[ref] = IntListP(z3.Array(name, z3.IntSort(), z3.IntSort()), ln, "int" if ty == "intlist" else "atom")
                self.assume_axiom(ln >= 0)
            return VList(ref)
        if ty.startswith("obj:"):
            return VObj(name, ty[4:])
        if ty.startswith("reclist:"):
            cls = ty[8:]
            ref = name
            if ref not in self.payload0:
                ln = z3.Int(f"len({name})")
                fields = {}
                for f, fty in SCHEMA[cls].items():
                    sort = z3.BoolSort() if fty == "bool" else z3.IntSort()
                    fields[f] = z3.Array(f"{name}.{f}", z3.IntSort(), sort)
                self.payload0[ref] = RecListP(ln, cls, fields)
                self.assume_axiom(ln >= 0)
            return VList(ref)
        if ty == "strseq":
            ref = name
            if ref not in self.payload0:
                self.payload0[ref] = self.fresh_strseq(name)
            return VList(ref)
        if ty == "tokseq":
            ref = name
            if ref not in self.payload0:
                ln = z3.Int(f"len({name})")
                self.payload0[ref] = GhostSeqP(ln)
                self.assume_axiom(ln >= 0)
            return VList(ref)
        if ty == "intmap":
            ref = name
            if ref not in self.payload0:
                self.payload0[ref] = IntMapP(z3.Array(name + "?in", z3.IntSort(), z3.BoolSort()), z3.Array(name, z3.IntSort(), z3.IntSort()))
            return VDict(ref)
        if ty.startswith("introws:"):
            ref = name
            if ref not in self.payload0:
                self.payload0[ref] = IntRowsP(z3.Array(name + "?in", z3.IntSort(), z3.BoolSort()), z3.Const(name + "!rows", ROWS), int(ty.split(":")[1]))
            return VDict(ref)
        if ty == "cache":
            ref = name
            if ref not in self.payload0:
                self.payload0[ref] = MapSeqP(z3.Array(name + "?in", z3.IntSort(), z3.BoolSort()), z3.Array(name, z3.IntSort(), SEQ))
            return VOpt(z3.Bool(f"isnone({name})"), VDict(ref))
        if ty in ("opaque", "map", "optlist"):
            return VObj(name, "<" + ty + ">")
        if ty == "none":
            return NONE
        if ty == "optopaque":
            return VOpt(z3.Bool(name + "?none"), VObj(name, "<opaque>"))
        raise Unsupported(f"type {ty}")

    def fresh_strseq(self, name, min_len=0):
        ln = z3.Int(f"len({name})")
        lens = z3.Const(f"{name}!lens", INTARR)
        p = StrSeqP(ln, z3.Const(f"{name}!chars", ROWS), lens, name)
        self.assume_axiom(ln >= min_len)
        k = fresh("k")
        self.assume_axiom(z3.ForAll([k], z3.Select(lens, k) >= 0))
        return p

    def assume_axiom(self, c):
        """a fact about freshly introduced symbols (lengths are non-negative, the defining property of an opaque result):
        unconditional, so it survives the push/pop of guarded evaluation and the reset at a modular loop head"""
        if z3.is_true(c):
            return
        self.def_axioms.append(c)
        self.assume(c)

    def get_field(self, obj: VObj, name: str, old=False):
        key = (obj.ref, name)
        h = self.old_state[0] if old else self.heap
        if key in h:
            return h[key]
        if key not in self.heap0:
            sch = SCHEMA.get(obj.cls)
            if sch is not None and name not in sch:
                self.adopt_field(obj.cls, name)
            if sch is None or name not in sch:
                raise Unsupported(f"field {obj.cls}.{name} not in the heap model")
            self.heap0[key] = self.sym_for_type(sch[name], f"{obj.ref}.{name}")
        return self.heap0[key]

    def adopt_field(self, cls, name):
        from .schema import infer_field_type

        ty = infer_field_type(cls, name)
        if ty:
            SCHEMA[cls][name] = ty
            self.assumption_log.add(f"field {cls}.{name} is not in the heap model; adopted as `{ty}` from its literal initialiser in __init__, unconstrained at entry")

    def set_field(self, obj: VObj, name: str, val):
        if isinstance(obj, VObj) and obj.cls in SCHEMA and name not in SCHEMA[obj.cls]:
            self.adopt_field(obj.cls, name)
        if isinstance(obj, VObj) and obj.cls in SCHEMA and name not in SCHEMA[obj.cls]:
            raise Unsupported(f"store to unknown field {obj.cls}.{name}")
        self.heap[(obj.ref, name)] = val
        self.on_store(obj, name, val)

    def on_store(self, obj, name, val):
        pass

    def get_payload(self, ref: str, old=False):
        h = self.old_state[1] if old else self.payload
        if ref in h:
            return h[ref]
        if ref in self.payload0:
            return self.payload0[ref]
        if old and ref in self.payload:
            # a list created after entry (a local) mentioned inside old(...): it has no entry value, the clause means
            # its current value (only entry-state objects are looked up in the snapshot)
            return self.payload[ref]
        raise Unsupported(f"no payload for {ref}")

    def mut_payload(self, ref: str):
        if ref not in self.payload:
            self.payload[ref] = self.payload0[ref].copy()
        return self.payload[ref]

    def new_list(self, payload, hint="list") -> VList:
        ref = self.new_ref(hint)
        self.payload[ref] = payload
        return VList(ref)

    # ------------------------------------------------------------------ conversions
    def truth(self, v):
        if isinstance(v, VBool):
            return v.t
        if isinstance(v, BoolishV):
            return v.t
        if isinstance(v, VInt):
            return v.t != 0
        if isinstance(v, VNone):
            return z3.BoolVal(False)
        if isinstance(v, VAtom):
            return v.t != 0
        if isinstance(v, VStr):
            return v.length() > 0
        if isinstance(v, VOpt):
            return z3.And(z3.Not(v.isnone), self.truth(v.some))
        if isinstance(v, VObj) and v.cls in ("<match>", "<charclass>"):
            return z3.BoolVal(True)  # re.Match and re.Pattern objects are always truthy
        if isinstance(v, VList):
            p = self.get_payload(v.ref, self.use_old)
            if isinstance(p, PyListP):
                return z3.BoolVal(len(p.items) > 0)
            return self.list_len(p) > 0
        if isinstance(v, VTuple):
            return z3.BoolVal(len(v.items) > 0)
        if isinstance(v, VDict) and isinstance(self.get_payload(v.ref, self.use_old), (IntMapP, MapSeqP, SetP, IntRowsP)):
            raise Unsupported("truthiness of a symbolic map/set")
        if isinstance(v, VDict):
            return z3.BoolVal(len(self.get_payload(v.ref).items) > 0)
        if isinstance(v, (VObj, VFunc, VElem)):
            if isinstance(v, VObj) and v.cls.startswith("<"):
                # an opaque value (regex, match object, env entry ...): unknown but fixed truthiness
                return z3.Bool(f"truth({v.ref})")
            return z3.BoolVal(True)
        if isinstance(v, VSeqZ):
            return z3.Length(v.t) > 0
        raise Unsupported(f"truth of {v!r}")

    def list_len(self, p):
        if isinstance(p, PyListP):
            return z3.IntVal(len(p.items))
        if isinstance(p, GhostSeqP):
            return p.total()
        return p.len

    def as_int(self, v, what="int"):
        if isinstance(v, VInt):
            return v.t
        if isinstance(v, VBool):
            return z3.If(v.t, 1, 0)
        raise Unsupported(f"{what}: expected int, got {v!r}")

    @property
    def use_old(self):
        return getattr(self, "_use_old", False)

    # ------------------------------------------------------------------ eval
    def eval(self, node: ast.expr, fr) -> V:
        m = getattr(self, "e_" + type(node).__name__, None)
        if m is None:
            raise Unsupported(f"expression {type(node).__name__} at line {getattr(node, 'lineno', '?')}")
        return m(node, fr)

    def e_Constant(self, node, fr):
        v = node.value
        if isinstance(v, bool):
            return VBool(v)
        if isinstance(v, int):
            return VInt(v)
        if isinstance(v, str):
            return VStr.lit(v)
        if v is None:
            return NONE
        raise Unsupported(f"constant {v!r}")

    def e_Name(self, node, fr):
        name = node.id
        if self.spec_mode and name in self.spec_bind:
            return self.spec_bind[name]
        loc = fr.entry if (self.use_old and name in fr.entry) else fr.locals
        if name in loc:
            v = loc[name]
            if v is UNBOUND:
                self.implicit_raise("UnboundLocalError", node, fr, False, f"{name} may be unbound")
            return v
        if name in fr.assigned_names and not self.spec_mode:
            # a local that is assigned somewhere in the function but not on this path
            self.implicit_raise("UnboundLocalError", node, fr, False, f"{name} unbound on this path")
        if name in ("True", "False"):
            return VBool(name == "True")
        tgt = S.resolve_name(fr.mi, name)
        if tgt is not None:
            return self.value_of_global(tgt, fr)
        if name in BUILTINS:
            return VFunc("builtin", name)
        if name in EXC_PARENTS or name in ("Exception", "LookupError"):
            return VFunc("exc", name)
        if self.spec_mode and name in self.specfuns:
            return VFunc("spec", name)
        raise (ContractError if self.spec_mode else Unsupported)(f"unknown name {name} in {fr.qualname}")

    def value_of_global(self, dotted: str, fr):
        # module?
        try:
            S.module_path(dotted)
            return VModule(dotted)
        except S.SourceError:
            pass
        if not dotted.startswith("markdown_it"):
            return VFunc("ext", dotted)
        mod, rest = S.split_qualname(dotted)
        mi = S.load_module(mod)
        head = rest.split(".")[0]
        if rest in mi.functions:
            return VFunc("pkg", dotted)
        if rest in mi.classes:
            return VFunc("class", dotted)
        if head in mi.imports and rest == head:
            return self.value_of_global(mi.imports[head], fr)
        if rest in mi.globals:
            node = mi.globals[rest]
            try:
                lit = ast.literal_eval(node)
            except Exception:
                return VObj("global:" + dotted, "<opaque>")
            return self.lift_literal(lit)
        raise Unsupported(f"global {dotted}")

    def lift_literal(self, lit):
        if isinstance(lit, bool):
            return VBool(lit)
        if isinstance(lit, int):
            return VInt(lit)
        if isinstance(lit, str):
            return VStr.lit(lit)
        if lit is None:
            return NONE
        if isinstance(lit, (tuple, list)):
            items = [self.lift_literal(x) for x in lit]
            if isinstance(lit, tuple):
                return VTuple(items)
            return self.new_list(PyListP(items))
        if isinstance(lit, (set, frozenset)):
            return VTuple([self.lift_literal(x) for x in sorted(lit, key=repr)])
        raise Unsupported(f"literal {lit!r}")

    def e_NamedExpr(self, node, fr):
        v = self.eval(node.value, fr)
        fr.locals[node.target.id] = v
        return v

    def e_Tuple(self, node, fr):
        return VTuple([self.eval(e, fr) for e in node.elts])

    def e_List(self, node, fr):
        items = [self.eval(e, fr) for e in node.elts]
        if self.spec_mode and all(isinstance(x, VAtom) for x in items):
            t = z3.Empty(SEQ)
            for x in items:
                t = z3.Concat(t, z3.Unit(x.t)) if not z3.is_true(z3.simplify(z3.Length(t) == 0)) or True else z3.Unit(x.t)
            return VSeqZ(z3.simplify(t)) if items else VSeqZ(z3.Empty(SEQ))
        return self.new_list(PyListP(items))

    def e_Set(self, node, fr):
        items = [self.eval(e, fr) for e in node.elts]
        mem = z3.K(z3.IntSort(), z3.BoolVal(False))
        for it in items:
            t = it.t if isinstance(it, VAtom) else (z3.IntVal(intern_atom(it.a)) if isinstance(it, VStr) and it.kind == "lit" else None)
            if t is None:
                raise Unsupported("set literal of non-atoms")
            mem = z3.Store(mem, t, z3.BoolVal(True))
        ref = self.new_ref("set")
        self.payload[ref] = SetP(mem)
        return VDict(ref)

    def e_Dict(self, node, fr):
        items = {}
        for k, v in zip(node.keys, node.values):
            if not (isinstance(k, ast.Constant) and isinstance(k.value, str)):
                raise Unsupported("dict literal with non-constant key")
            items[k.value] = self.eval(v, fr)
        ref = self.new_ref("dict")
        self.payload[ref] = PyDictP(items)
        return VDict(ref)

    def e_Yield(self, node, fr):
        """`yield` of a @contextmanager generator: the with-body (user code) runs here. Two continuations:
        resume normally, or the body's exception is thrown at the yield (DESIGN.md 2.4)."""
        spec = (fr.contract.ghost or {}).get("yield") or {}
        for path in spec.get("havoc", []):
            self.havoc_heap_path(path, fr, {})
        for label, expr in spec.get("assume", []):
            self.assume(self.spec_bool(expr, fr, label))
        which = self.dec.choose(2)
        self.covered_sites.add("yield-resume" if which == 0 else "yield-throw")
        if which == 1:
            raise RaiseSig("UserError", "yield", False)
        return NONE

    def e_JoinedStr(self, node, fr):
        # f-strings occur only in exception messages / __repr__: opaque string
        s = VStr.var(self.new_ref("fstr"))
        self.assume_axiom(s.b >= 0)
        return s

    def e_IfExp(self, node, fr):
        c = self.truth(self.eval(node.test, fr))
        c = z3.simplify(c)
        if z3.is_true(c):
            return self.eval(node.body, fr)
        if z3.is_false(c):
            return self.eval(node.orelse, fr)
        if self.spec_mode or self.nofork:
            a = self.eval_under(node.body, fr, c)
            b = self.eval_under(node.orelse, fr, z3.Not(c))
            return self.ite(c, a, b)
        # try the pure merge first
        try:
            self.nofork += 1
            try:
                a = self.eval_under(node.body, fr, c)
                b = self.eval_under(node.orelse, fr, z3.Not(c))
                return self.ite(c, a, b)
            finally:
                self.nofork -= 1
        except (NeedFork, Unmergeable):
            pass
        if self.branch(c):
            return self.eval(node.body, fr)
        return self.eval(node.orelse, fr)

    def eval_under(self, node, fr, cond):
        """evaluate node with cond temporarily assumed (for safety obligations inside)"""
        self.solver.push()
        n = len(self.pc)
        nd = len(self.def_axioms)
        try:
            self.assume(cond)
            return self.eval(node, fr)
        finally:
            del self.pc[n:]
            self.solver.pop()
            for ax in self.def_axioms[nd:]:  # definitional axioms are unconditional: keep them
                self.assume(ax)

    def ite(self, c, a, b):
        if isinstance(a, VInt) and isinstance(b, VInt):
            return VInt(z3.If(c, a.t, b.t))
        if isinstance(a, VBool) and isinstance(b, VBool):
            return VBool(z3.If(c, a.t, b.t))
        if isinstance(a, VAtom) and isinstance(b, VAtom):
            return VAtom(z3.If(c, a.t, b.t))
        if isinstance(a, VInt) and isinstance(b, VBool) or isinstance(a, VBool) and isinstance(b, VInt):
            return VInt(z3.If(c, self.as_int(a), self.as_int(b)))
        if isinstance(a, VStr) and isinstance(b, VStr):
            if a.kind == "lit" and len(a.a) == 1 and b.kind == "chr":
                a = VStr.chr(z3.IntVal(ord(a.a)))
            if b.kind == "lit" and len(b.a) == 1 and a.kind == "chr":
                b = VStr.chr(z3.IntVal(ord(b.a)))
            if a.kind == "chr" and b.kind == "chr":
                return VStr.chr(z3.If(c, a.a, b.a))
            if a.kind == "lit" and b.kind == "lit" and len(a.a) == len(b.a) == 1:
                return VStr.chr(z3.If(c, ord(a.a), ord(b.a)))
            if a.kind == "lit" and b.kind == "lit" and a.a == b.a:
                return a
        if isinstance(a, VSeqZ) and isinstance(b, VSeqZ):
            return VSeqZ(z3.If(c, a.t, b.t))
        if isinstance(a, VNone) and isinstance(b, VNone):
            return NONE
        if isinstance(a, VNone) and isinstance(b, (VInt, VStr, VAtom)):
            return VOpt(c, b)
        if isinstance(b, VNone) and isinstance(a, (VInt, VStr, VAtom)):
            return VOpt(z3.Not(c), a)
        if a is b:
            return a
        raise Unmergeable(f"cannot merge {a!r} / {b!r}")

    def e_BoolOp(self, node, fr):
        is_and = isinstance(node.op, ast.And)
        vals = node.values
        cur = self.eval(vals[0], fr)
        for nxt in vals[1:]:
            ct = z3.simplify(self.truth(cur))
            # decided?
            if z3.is_true(ct):
                if is_and:
                    cur = self.eval(nxt, fr)
                    continue
                return cur
            if z3.is_false(ct):
                if is_and:
                    return cur
                cur = self.eval(nxt, fr)
                continue
            guard = ct if is_and else z3.Not(ct)
            merged = None
            if True:
                try:
                    self.nofork += 1
                    try:
                        rhs = self.eval_under(nxt, fr, guard)
                    finally:
                        self.nofork -= 1
                    rt = self.truth(rhs)
                    # value semantics: `a and b` returns an operand; we only support use as a condition or
                    # when both are bool-like
                    if isinstance(cur, (VBool, BoolishV)) and isinstance(rhs, (VBool, BoolishV)):
                        merged = VBool(z3.And(ct, rt) if is_and else z3.Or(ct, rt))
                    elif self.spec_mode or self.nofork:
                        merged = BoolishV(z3.And(ct, rt) if is_and else z3.Or(ct, rt), cur, rhs, ct, is_and)
                    else:
                        merged = None
                except (NeedFork, Unmergeable):
                    if self.spec_mode or self.nofork:
                        raise
                    merged = None
            if merged is not None:
                cur = merged
                continue
            # fork
            if self.branch(ct):
                if is_and:
                    cur = self.eval(nxt, fr)
                else:
                    return cur
            else:
                if is_and:
                    return cur
                cur = self.eval(nxt, fr)
        return cur

    def e_UnaryOp(self, node, fr):
        v = self.eval(node.operand, fr)
        if isinstance(node.op, ast.Not):
            return VBool(z3.Not(self.truth(v)))
        if isinstance(node.op, ast.USub):
            return VInt(-self.as_int(v))
        if isinstance(node.op, ast.UAdd):
            return VInt(self.as_int(v))
        raise Unsupported("unary op")

    def e_BinOp(self, node, fr):
        a = self.eval(node.left, fr)
        b = self.eval(node.right, fr)
        return self.binop(node.op, a, b, node, fr)

    def binop(self, op, a, b, node, fr):
        if isinstance(a, BoolishV):
            a = a.as_value()
        if isinstance(b, BoolishV):
            b = b.as_value()
        if isinstance(a, (VInt, VBool)) and isinstance(b, (VInt, VBool)):
            x, y = self.as_int(a), self.as_int(b)
            if isinstance(op, ast.Add):
                return VInt(x + y)
            if isinstance(op, ast.Sub):
                return VInt(x - y)
            if isinstance(op, ast.Mult):
                return VInt(x * y)
            if isinstance(op, (ast.Mod, ast.FloorDiv)):
                self.safe_or_raise(y != 0, "ZeroDivisionError", node, fr)
                # Python floor semantics: for positive divisor z3's mod/div coincide (euclidean);
                # for a negative divisor they differ -> require y > 0 (holds everywhere in the package)
                if not self.spec_mode:
                    self.safe_or_raise(y > 0, "Unsupported-negative-divisor", node, fr)
                return VInt(x % y) if isinstance(op, ast.Mod) else VInt(x / y)
            if isinstance(op, ast.BitAnd) and z3.is_int_value(z3.simplify(y)):
                m = z3.simplify(y).as_long()
                if m & (m + 1) == 0:  # mask 2^k - 1
                    return VInt(x % (m + 1)) if not z3.is_int_value(z3.simplify(x)) else VInt(z3.simplify(x).as_long() & m)
            if isinstance(op, ast.BitOr) and z3.is_int_value(z3.simplify(y)):
                m = z3.simplify(y).as_long()
                if m > 0 and m & (m - 1) == 0:  # a single bit 2^k: set it unless it is set already
                    return VInt(z3.If((x / m) % 2 == 0, x + m, x))
            raise Unsupported(f"int op {type(op).__name__}")
        if isinstance(op, ast.Add) and isinstance(a, VStr) and a.kind == "lit" and isinstance(b, VAtom):
            a = VAtom(a.a)
        if isinstance(op, ast.Add) and isinstance(b, VStr) and b.kind == "lit" and isinstance(a, VAtom):
            b = VAtom(b.a)
        if isinstance(a, VAtom) and isinstance(b, VAtom) and isinstance(op, ast.Add):
            return VAtom(CAT_ATOM(a.t, b.t))  # concatenation of opaque strings: uninterpreted
        if isinstance(a, VSeqZ) and isinstance(b, VSeqZ) and isinstance(op, ast.Add):
            return VSeqZ(z3.Concat(a.t, b.t))
        if isinstance(a, VStr) and isinstance(b, VStr) and isinstance(op, ast.Add):
            return str_concat(a, b)
        if isinstance(op, ast.Mult) and isinstance(a, VStr) and isinstance(b, (VInt, VBool)):
            return VStr("rep", a, self.as_int(b))
        if isinstance(op, ast.Mult) and isinstance(b, VStr) and isinstance(a, (VInt, VBool)):
            return VStr("rep", b, self.as_int(a))
        if isinstance(op, ast.Mult) and isinstance(a, VList) and isinstance(b, VInt):
            p = self.get_payload(a.ref)
            if isinstance(p, PyListP) and len(p.items) == 1 and isinstance(p.items[0], VStr):
                # [""] * n : list of n strings (getLines' queue) -> opaque string list of symbolic length
                return self.new_list(StrListP(b.t, p.items[0]), "strlist")
            raise Unsupported("list * int")
        if isinstance(op, ast.Add) and isinstance(a, VList) and isinstance(b, VList):
            pa, pb = self.get_payload(a.ref), self.get_payload(b.ref)
            if isinstance(pa, PyListP) and isinstance(pb, PyListP):
                return self.new_list(PyListP(pa.items + pb.items))
        raise Unsupported(f"binop {type(op).__name__} on {a!r},{b!r}")

    # ------------------------------------------------------------------ exceptions from operations
    def handler_in_scope(self, exc: str) -> bool:
        for names in reversed(self.try_stack):
            if exc_matches(exc, names):
                return True
        return exc in self.contract.raises and len(self.frames) >= 1 and exc in self.propagating

    @property
    def propagating(self):
        return self.contract.raises.keys()

    def safe_or_raise(self, ok, exc: str, node, fr, what=None):
        """`ok` must hold for the operation at node not to raise `exc`."""
        if self.spec_mode:
            return
        ok = z3.simplify(ok)
        if z3.is_true(ok):
            return
        site = fr.ords.of(node, what or "op")
        if fr is not self.frames[0]:
            site = f"{fr.qualname.split('.')[-1]}:{site}"
        if self.handler_in_scope(exc):
            if self.branch(ok):
                return
            raise RaiseSig(exc, site, True)
        self.oblige("SAFE", f"{site}/{exc}", ok, node, exc)
        self.assume(ok)
        if not self.feasible():
            raise PathEnd()

    def spec_undefined(self, what):
        """inside a contract clause an undefined term must not silently end the path (the obligations of the path would
        vanish): the clause is ill-formed on this path - guard it with implies(), whose consequent is only evaluated when
        the antecedent is feasible"""
        if self.spec_mode:
            raise ContractError(f"clause undefined on a feasible path: {what}")

    def implicit_raise(self, exc, node, fr, ok, info=""):
        self.safe_or_raise(z3.BoolVal(bool(ok)), exc, node, fr)
        raise PathEnd()

    # ------------------------------------------------------------------ attribute / subscript
    def e_Attribute(self, node, fr):
        base = self.eval(node.value, fr)
        return self.getattr_value(base, node.attr, node, fr)

    def getattr_value(self, base, attr, node, fr):
        if isinstance(base, VObj):
            if base.cls in SCHEMA and attr in SCHEMA[base.cls]:
                return self.get_field(base, attr, self.use_old)
            if base.cls.startswith("<"):
                return VFunc("method", attr, base)
            if base.cls in CLASS_MODULE and base.cls in SCHEMA and not self.method_qualname(base.cls, attr):
                self.adopt_field(base.cls, attr)
                if attr in SCHEMA[base.cls]:
                    return self.get_field(base, attr, self.use_old)
            if base.cls in CLASS_MODULE:
                return VFunc("method", attr, base)
            raise Unsupported(f"attribute {attr} of {base!r}")
        if isinstance(base, VElem):
            p = self.get_payload(base.lst, self.use_old)
            if attr in p.fields:
                t = z3.Select(p.fields[attr], base.idx)
                fty = SCHEMA[p.cls][attr]
                return VBool(t) if fty == "bool" else (VInt(t) if fty == "int" else VAtom(t))
            raise Unsupported(f"attribute {attr} of record")
        if isinstance(base, VModule):
            return self.value_of_global(base.name + "." + attr, fr)
        if isinstance(base, (VStr, VList, VDict, VTuple, VAtom, VSeqZ, VOpt, VMapSlot)):
            return VFunc("method", attr, base)
        if isinstance(base, VFunc) and base.kind in ("global", "ext"):
            return VFunc(base.kind, base.name + "." + attr)
        raise Unsupported(f"attribute {attr} of {base!r}")

    def norm_index(self, idx, n):
        return z3.If(idx < 0, idx + n, idx)

    def e_Subscript(self, node, fr):
        base = self.eval(node.value, fr)
        if isinstance(node.slice, ast.Slice):
            return self.do_slice(base, node.slice, node, fr)
        if isinstance(base, VFunc) and base.kind == "class":
            return base  # generic alias Rule[RuleFuncTv]
        idx = self.eval(node.slice, fr)
        return self.index(base, idx, node, fr)

    def index(self, base, idx, node, fr):
        if isinstance(base, VStr):
            i = self.as_int(idx, "str index")
            n = base.length()
            self.safe_or_raise(z3.And(i >= -n, i < n), "IndexError", node, fr, "subscript")
            j = z3.simplify(self.norm_index(i, n)) if not self.spec_mode else i
            c = base.char(j)
            if base.kind in ("var", "sub") and not self.spec_mode:
                self.assume_axiom(z3.And(c >= 0, c <= MAXCP))
            return VStr.chr(c)
        if isinstance(base, VList):
            p = self.get_payload(base.ref, self.use_old)
            if isinstance(p, PyListP):
                i = z3.simplify(self.as_int(idx))
                if z3.is_int_value(i):
                    k = i.as_long()
                    if -len(p.items) <= k < len(p.items):
                        return p.items[k]
                    self.spec_undefined("index out of range of a literal list")
                    self.safe_or_raise(z3.BoolVal(False), "IndexError", node, fr, "subscript")
                    raise PathEnd()
                n = len(p.items)
                self.safe_or_raise(z3.And(i >= -n, i < n), "IndexError", node, fr, "subscript")
                if n == 0:
                    if self.spec_mode:
                        return VAtom(fresh("nothing"))
                    raise PathEnd()
                if n == 1:
                    return p.items[0]
                j = z3.simplify(self.norm_index(i, z3.IntVal(n)))
                res = p.items[-1]
                try:
                    for kk in range(n - 2, -1, -1):
                        res = self.ite(j == kk, p.items[kk], res)
                except Unmergeable:
                    raise Unsupported("symbolic index into a heterogeneous literal list")
                return res
            i = self.as_int(idx, "list index")
            n = self.list_len(p)
            if (not self.spec_mode and fr is self.frames[0] and (self.contract.ghost or {}).get("nowrap")
                    and not z3.is_int_value(z3.simplify(i))):
                # contracts that opt in: a computed index must not wrap around (negative indices are legal Python
                # but never intended in this code base)
                self.oblige("GUARD", f"{fr.ords.of(node, 'subscript')}/index-nonneg", i >= 0, node)
            self.safe_or_raise(z3.And(i >= -n, i < n), "IndexError", node, fr, "subscript")
            j = z3.simplify(self.norm_index(i, n)) if not self.spec_mode else i
            if isinstance(p, IntListP):
                t = z3.Select(p.arr, j)
                return VInt(t) if p.elem == "int" else VAtom(t)
            if isinstance(p, RecListP):
                return VElem(base.ref, j, p.cls)
            if isinstance(p, StrSeqP):
                return p.elem(j)
            if isinstance(p, GhostSeqP):
                jj = z3.simplify(j - p.base_len)
                if z3.is_int_value(jj) and 0 <= jj.as_long() < len(p.items):
                    return p.items[jj.as_long()]
                raise Unsupported("index into pre-existing tokens")
            raise Unsupported(f"index into {type(p).__name__}")
        if isinstance(base, VGapTuple):
            i = z3.simplify(self.as_int(idx))
            if z3.is_int_value(i):
                k = i.as_long()
                if 0 <= k < len(base.head):
                    return base.head[k]
                if k < 0 and -k <= len(base.tail):
                    return base.tail[k]
            raise ContractError("index into the unknown middle of the appended tokens")
        if isinstance(base, VTuple):
            i = z3.simplify(self.as_int(idx))
            if z3.is_int_value(i):
                k = i.as_long()
                if -len(base.items) <= k < len(base.items):
                    return base.items[k]
                self.spec_undefined("index out of range of a tuple (e.g. T[-1] where no token was appended)")
                self.safe_or_raise(z3.BoolVal(False), "IndexError", node, fr, "subscript")
                raise PathEnd()
            raise Unsupported("symbolic index into tuple")
        if isinstance(base, VDict) and isinstance(self.get_payload(base.ref, self.use_old), MapSeqP):
            p = self.get_payload(base.ref, self.use_old)
            k = self.atom_term(idx)
            self.safe_or_raise(z3.Select(p.keys, k), "KeyError", node, fr, "subscript")
            return VMapSlot(base.ref, k) if not self.spec_mode else VSeqZ(z3.Select(p.vals, k))
        if isinstance(base, VDict) and isinstance(self.get_payload(base.ref, self.use_old), IntMapP):
            p = self.get_payload(base.ref, self.use_old)
            k = self.as_int(idx)
            self.safe_or_raise(z3.Select(p.keys, k), "KeyError", node, fr, "subscript")
            return VInt(z3.Select(p.vals, k))
        if isinstance(base, VDict) and isinstance(self.get_payload(base.ref, self.use_old), IntRowsP):
            p = self.get_payload(base.ref, self.use_old)
            k = self.as_int(idx)
            self.safe_or_raise(z3.Select(p.keys, k), "KeyError", node, fr, "subscript")
            return VMapSlot(base.ref, k)
        if isinstance(base, VMapSlot) and isinstance(self.get_payload(base.ref, self.use_old), IntRowsP):
            p = self.get_payload(base.ref, self.use_old)
            i = self.as_int(idx)
            self.safe_or_raise(z3.And(i >= -p.rowlen, i < p.rowlen), "IndexError", node, fr, "subscript")
            j = z3.simplify(self.norm_index(i, z3.IntVal(p.rowlen))) if not self.spec_mode else i
            return VInt(z3.Select(z3.Select(p.vals, base.key), j))
        if isinstance(base, VDict):
            p = self.get_payload(base.ref)
            if isinstance(idx, VStr) and idx.kind == "lit":
                if idx.a in p.items:
                    return p.items[idx.a]
                self.spec_undefined("missing key of a literal dict")
                self.safe_or_raise(z3.BoolVal(False), "KeyError", node, fr, "subscript")
                raise PathEnd()
            raise Unsupported("dict key")
        if isinstance(base, VSeqZ):
            i = self.as_int(idx)
            n = z3.Length(base.t)
            self.safe_or_raise(z3.And(i >= -n, i < n), "IndexError", node, fr, "subscript")
            return VAtom(base.t[self.norm_index(i, n)])
        return self.index_special(base, idx, node, fr)

    def index_special(self, base, idx, node, fr):
        if isinstance(base, VFunc) and base.kind == "class":
            return base
        if isinstance(base, VObj) and base.cls in CLASS_MODULE and base.cls != "OptionsDict":
            q = self.method_qualname(base.cls, "__getitem__")
            if q:
                return self.call_pkg(q, [base, idx], {}, node, fr)
        if isinstance(base, VObj) and base.cls == "OptionsDict" and isinstance(idx, VStr) and idx.kind == "lit" and idx.a in SCHEMA["OptionsDict"]:
            self.assumption_log.add("OptionsDict[k] == OptionsDict.<k> for the documented option keys")
            return self.get_field(base, idx.a, self.use_old)
        if isinstance(base, VOpt):
            self.safe_or_raise(z3.Not(base.isnone), "TypeError", node, fr, "subscript")
            return self.index(base.some, idx, node, fr)
        if isinstance(base, VObj) and base.cls == "<opaque>":
            it = z3.simplify(self.as_int(idx)) if isinstance(idx, (VInt, VBool)) else None
            tag = str(it) if it is not None else (repr(idx.a) if isinstance(idx, VStr) and idx.kind == "lit" else None)
            if tag is None and base.ref.startswith("global:") and isinstance(idx, VStr):
                # module-level mapping indexed by a computed string: KeyError unless the key is present
                self.safe_or_raise(self.opaque_has_key(base, idx), "KeyError", node, fr, "subscript")
                val = VStr.var(self.new_ref(base.ref.split(".")[-1] + "_value"))
                self.assume_axiom(val.b >= 0)
                return val
            if tag is None:
                raise Unsupported("opaque subscript with symbolic key")
            self.assumption_log.add(f"subscript of opaque value {base.ref.split('#')[0]} assumed not to raise")
            return VObj(f"{base.ref}[{tag}]", "<opaque>")
        raise Unsupported(f"subscript of {base!r}")

    def do_slice(self, base, sl: ast.Slice, node, fr):
        if sl.step is not None:
            st = self.eval(sl.step, fr)
            if isinstance(base, VRange) and isinstance(st, VInt) and z3.is_int_value(st.t) and st.t.as_long() == -1 \
                    and sl.lower is None and sl.upper is None:
                return VRange(base.lo, base.hi, not base.rev)
            raise Unsupported("slice step")
        lo = self.as_int(self.eval(sl.lower, fr)) if sl.lower is not None else None
        hi = self.as_int(self.eval(sl.upper, fr)) if sl.upper is not None else None
        if isinstance(base, VStr):
            return str_slice(base, lo, hi)
        if isinstance(base, VList):
            p = self.get_payload(base.ref, self.use_old)
            if isinstance(p, PyListP) and (lo is None or z3.is_int_value(z3.simplify(lo))) and (hi is None or z3.is_int_value(z3.simplify(hi))):
                l = None if lo is None else z3.simplify(lo).as_long()
                h = None if hi is None else z3.simplify(hi).as_long()
                return self.new_list(PyListP(p.items[l:h]))
            if isinstance(p, RecListP) and lo is None and hi is None:
                # a shallow copy of a list of objects: the elements are the same objects; iteration over the copy
                # writes through to them (the list structure itself is not modified by the loops that use this idiom)
                return base
            if isinstance(p, IntListP) and lo is None and hi is None:
                return self.new_list(p.copy())
        raise Unsupported(f"slice of {base!r}")

    # ------------------------------------------------------------------ comparisons
    def e_Compare(self, node, fr):
        left = self.eval(node.left, fr)
        res = None
        for op, rn in zip(node.ops, node.comparators):
            right = self.eval(rn, fr)
            c = self.compare(op, left, right, node, fr)
            res = c if res is None else z3.And(res, c)
            left = right
        return VBool(res)

    def eq(self, a, b):
        """exact z3 Bool for Python a == b (for the value kinds the package compares)"""
        if isinstance(a, BoolishV):
            a = a.as_value()
        if isinstance(b, BoolishV):
            b = b.as_value()
        if isinstance(a, VOpt) or isinstance(b, VOpt):
            if isinstance(a, VOpt) and isinstance(b, VOpt):
                return z3.Or(z3.And(a.isnone, b.isnone), z3.And(z3.Not(a.isnone), z3.Not(b.isnone), self.eq(a.some, b.some)))
            o, x = (a, b) if isinstance(a, VOpt) else (b, a)
            if isinstance(x, VNone):
                return o.isnone
            return z3.And(z3.Not(o.isnone), self.eq(o.some, x))
        if isinstance(a, VNone) or isinstance(b, VNone):
            return z3.BoolVal(isinstance(a, VNone) and isinstance(b, VNone))
        if isinstance(a, (VInt, VBool)) and isinstance(b, (VInt, VBool)):
            if isinstance(a, VBool) and isinstance(b, VBool):
                return a.t == b.t
            return self.as_int(a) == self.as_int(b)
        if isinstance(a, VStr) and isinstance(b, VStr):
            return str_eq(a, b)
        if isinstance(a, VAtom) and isinstance(b, VAtom):
            return a.t == b.t
        if isinstance(a, VAtom) and isinstance(b, VStr) and b.kind == "lit":
            return a.t == intern_atom(b.a)
        if isinstance(b, VAtom) and isinstance(a, VStr) and a.kind == "lit":
            return b.t == intern_atom(a.a)
        if isinstance(a, VObj) and isinstance(b, VObj):
            return z3.BoolVal(a.ref == b.ref)
        if isinstance(a, VElem) and isinstance(b, VElem) and a.lst == b.lst:
            return a.idx == b.idx
        if isinstance(a, VTuple) and isinstance(b, VTuple):
            if len(a.items) != len(b.items):
                return z3.BoolVal(False)
            return z3.And([self.eq(x, y) for x, y in zip(a.items, b.items)]) if a.items else z3.BoolVal(True)
        if isinstance(a, VList) and isinstance(b, VList):
            pa, pb = self.get_payload(a.ref, self.use_old), self.get_payload(b.ref, self.use_old)
            if isinstance(pa, PyListP) and isinstance(pb, PyListP):
                if len(pa.items) != len(pb.items):
                    return z3.BoolVal(False)
                return z3.And([self.eq(x, y) for x, y in zip(pa.items, pb.items)]) if pa.items else z3.BoolVal(True)
            if isinstance(pa, IntListP) and isinstance(pb, IntListP):
                k = fresh("k")
                return z3.And(pa.len == pb.len, z3.ForAll([k], z3.Implies(z3.And(0 <= k, k < pa.len), pa.arr[k] == pb.arr[k])))
        if isinstance(a, VSeqZ) and isinstance(b, VSeqZ):
            return a.t == b.t
        if isinstance(a, VSeqZ) and isinstance(b, VList) or isinstance(b, VSeqZ) and isinstance(a, VList):
            sq, ls = (a, b) if isinstance(a, VSeqZ) else (b, a)
            p = self.get_payload(ls.ref, self.use_old)
            if isinstance(p, PyListP) and all(isinstance(x, VAtom) for x in p.items):
                t = z3.Empty(SEQ)
                for x in p.items:
                    t = z3.Concat(t, z3.Unit(x.t))
                return sq.t == (z3.simplify(t) if p.items else z3.Empty(SEQ))
        if isinstance(a, VDict) and isinstance(b, VDict):
            return z3.BoolVal(a.ref == b.ref)
        if isinstance(a, (VInt, VBool)) and isinstance(b, (VStr, VAtom)) or isinstance(b, (VInt, VBool)) and isinstance(a, (VStr, VAtom)):
            return z3.BoolVal(False)
        raise Unsupported(f"== on {a!r} and {b!r}")

    def compare(self, op, a, b, node, fr):
        if isinstance(op, ast.Eq):
            return self.eq(a, b)
        if isinstance(op, ast.NotEq):
            return z3.Not(self.eq(a, b))
        if isinstance(op, (ast.Is, ast.IsNot)):
            if isinstance(b, VNone) or isinstance(a, VNone):
                x = a if isinstance(b, VNone) else b
                if isinstance(x, VOpt):
                    r = x.isnone
                elif isinstance(x, VNone):
                    r = z3.BoolVal(True)
                elif isinstance(x, VObj) and x.cls == "<cache>":
                    r = self.cache_is_none(x)
                elif isinstance(x, VDict):
                    r = z3.BoolVal(False)
                elif isinstance(x, VObj) and x.cls in ("<opaque>", "<optlist>", "<map>"):
                    # an opaque value (the result of re.search / dict.get / an env entry) may be None: unknown, but if it is
                    # None it is falsy
                    r = z3.Bool(f"isnone({x.ref})")
                    self.assume_axiom(z3.Implies(r, z3.Not(z3.Bool(f"truth({x.ref})"))))
                else:
                    r = z3.BoolVal(False)
            elif isinstance(a, VObj) and isinstance(b, VObj):
                r = z3.BoolVal(a.ref == b.ref)
            elif isinstance(a, VBool) and isinstance(b, VBool):
                r = a.t == b.t
            else:
                raise Unsupported("is")
            return r if isinstance(op, ast.Is) else z3.Not(r)
        if isinstance(op, (ast.Lt, ast.LtE, ast.Gt, ast.GtE)):
            if isinstance(a, VStr) and isinstance(b, VStr) and a.kind in ("chr",) and b.kind == "lit" and len(b.a) == 1:
                x, y = a.a, z3.IntVal(ord(b.a))
            elif isinstance(b, VStr) and isinstance(a, VStr) and b.kind in ("chr",) and a.kind == "lit" and len(a.a) == 1:
                x, y = z3.IntVal(ord(a.a)), b.a
            elif isinstance(a, VStr) and isinstance(b, VStr) and a.kind == "chr" and b.kind == "chr":
                x, y = a.a, b.a
            elif isinstance(a, VOpt) or isinstance(b, VOpt):
                # None < int raises TypeError in Python
                for o in (a, b):
                    if isinstance(o, VOpt):
                        self.safe_or_raise(z3.Not(o.isnone), "TypeError", node, fr)
                x = self.as_int(a.some if isinstance(a, VOpt) else a)
                y = self.as_int(b.some if isinstance(b, VOpt) else b)
            else:
                x, y = self.as_int(a, "compare"), self.as_int(b, "compare")
            return {ast.Lt: x < y, ast.LtE: x <= y, ast.Gt: x > y, ast.GtE: x >= y}[type(op)]
        if isinstance(op, (ast.In, ast.NotIn)):
            r = self.contains(b, a, node, fr)
            return r if isinstance(op, ast.In) else z3.Not(r)
        raise Unsupported(f"compare {type(op).__name__}")

    def contains(self, container, x, node, fr):
        if isinstance(container, VTuple):
            return z3.Or([self.eq(x, it) for it in container.items]) if container.items else z3.BoolVal(False)
        if isinstance(container, VList):
            p = self.get_payload(container.ref, self.use_old)
            if isinstance(p, PyListP):
                return z3.Or([self.eq(x, it) for it in p.items]) if p.items else z3.BoolVal(False)
            if isinstance(p, IntListP):
                k = fresh("k")
                xv = x.t if isinstance(x, (VInt, VAtom)) else None
                if xv is None and isinstance(x, VStr) and x.kind == "lit":
                    xv = z3.IntVal(intern_atom(x.a))
                if xv is None:
                    raise Unsupported("in list")
                return z3.Exists([k], z3.And(0 <= k, k < p.len, p.arr[k] == xv))
        if isinstance(container, VStr):
            if isinstance(x, VStr) and x.kind in ("chr",) or (isinstance(x, VStr) and x.kind == "lit" and len(x.a) == 1):
                code = x.a if x.kind == "chr" else z3.IntVal(ord(x.a))
                if container.kind == "lit":
                    return z3.Or([code == ord(ch) for ch in container.a]) if container.a else z3.BoolVal(False)
                k = fresh("k")
                return z3.Exists([k], z3.And(0 <= k, k < container.length(), container.char(k) == code))
            if isinstance(x, VOpt) and container.kind == "lit":
                # `None in "abc"` raises TypeError; (None in tuple) is fine. Only tuples are used with optionals.
                raise Unsupported("optional in str")
        return self.contains_special(container, x, node, fr)

    def atom_term(self, x):
        if isinstance(x, VAtom):
            return x.t
        if isinstance(x, VStr) and x.kind == "lit":
            return z3.IntVal(intern_atom(x.a))
        raise Unsupported(f"not an atom: {x!r}")

    def contains_special(self, container, x, node, fr):
        if isinstance(container, VDict) and isinstance(self.get_payload(container.ref, self.use_old), SetP):
            return z3.Select(self.get_payload(container.ref, self.use_old).mem, self.atom_term(x))
        if isinstance(container, VDict) and isinstance(self.get_payload(container.ref, self.use_old), MapSeqP):
            return z3.Select(self.get_payload(container.ref, self.use_old).keys, self.atom_term(x))
        if isinstance(container, VDict) and isinstance(self.get_payload(container.ref, self.use_old), (IntMapP, IntRowsP)):
            return z3.Select(self.get_payload(container.ref, self.use_old).keys, self.as_int(x))
        if isinstance(container, VAtom):
            # membership in an opaque immutable list value (Rule.alt): uninterpreted predicate
            xv = x.t if isinstance(x, VAtom) else (z3.IntVal(intern_atom(x.a)) if isinstance(x, VStr) and x.kind == "lit" else None)
            if xv is None:
                raise Unsupported("in on atom list")
            return MEM(container.t, xv)
        if isinstance(container, VObj) and container.cls == "<opaque>":
            # membership in an opaque mapping (env, env["references"]): value unknown, the test itself is pure
            self.assumption_log.add("`in` on an opaque mapping: pure, outcome unconstrained")
            if container.ref.startswith("global:") and isinstance(x, VStr):
                # a module-level mapping (read-only after import, C12 FRAME): the outcome is a function of the key
                return self.opaque_has_key(container, x)
            if isinstance(x, VStr) and x.kind == "lit":
                # the same literal key in the same mapping, with no call and no store into an opaque mapping in between:
                # the same outcome (env is only written by such stores / by callees)
                k = ("haskey", container.ref, x.a, self.opaque_epoch)
                if k not in self.ghost:
                    self.ghost[k] = fresh("in_opaque", "bool")
                return self.ghost[k]
            return fresh("in_opaque", "bool")
        raise Unsupported(f"in on {container!r}")

    def opaque_has_key(self, container, key):
        k = ("haskey", container.ref, repr(key))
        if k not in self.ghost:
            self.ghost[k] = fresh("has_key", "bool")
        return self.ghost[k]

    def cache_is_none(self, x):
        return z3.Bool(f"isnone({x.ref})")


CAT_ATOM = z3.Function("CatAtom", z3.IntSort(), z3.IntSort(), z3.IntSort())
MEM = z3.Function("Mem", z3.IntSort(), z3.IntSort(), z3.BoolSort())


class Unmergeable(Exception):
    pass


class _Unbound:
    def __repr__(self):
        return "UNBOUND"


UNBOUND = _Unbound()


class BoolishV(V):
    """Result of `a and b` / `a or b` over non-bool operands used as a condition."""

    def __init__(self, t, left, right, lt, is_and):
        self.t, self.left, self.right, self.lt, self.is_and = t, left, right, lt, is_and

    def as_value(self):
        raise Unsupported("value of and/or over non-bool operands")


class StrListP:
    """list of `len` strings, contents abstracted (getLines' queue)"""

    def __init__(self, ln, init):
        self.len, self.init = ln, init
        self.writes = []

    def copy(self):
        c = StrListP(self.len, self.init)
        c.writes = list(self.writes)
        return c
