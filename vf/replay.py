"""Lifting of solver models to concrete arguments and replay on the real code (DESIGN.md 2.7)."""
from __future__ import annotations

import importlib
import json

from .monitor import Monitor


def _chr(code):
    try:
        if isinstance(code, int) and 0 <= code <= 0x10FFFF and not (0xD800 <= code <= 0xDFFF) and code != 0:
            return chr(code)
    except ValueError:
        pass
    return "a"


def _arr(model, name, n):
    a = model["arrays"].get(name, {})
    return [int(a.get(str(i), a.get(i, 0)) or 0) if not isinstance(a.get(str(i), a.get(i, 0)), bool) else a.get(str(i), a.get(i)) for i in range(n)]


def _const(model, name, default=0):
    v = model["consts"].get(name, default)
    return v


def lift_stateblock(model, prefix="state"):
    from markdown_it import MarkdownIt
    from markdown_it.rules_block.state_block import StateBlock

    n = int(_const(model, f"len_{prefix}.src", 0))
    if n > 40:
        return None
    f = model["funcs"].get(f"chr_{prefix}.src", {})
    src = "".join(_chr(f.get(str(i), f.get(i, 97))) for i in range(n))
    nl1 = int(_const(model, f"len({prefix}.bMarks)", 1))
    if nl1 > 40:
        return None
    md = MarkdownIt("commonmark")
    md.options["html"] = bool(_const(model, f"{prefix}.md.options.html", True))
    md.options["maxNesting"] = int(_const(model, f"{prefix}.md.options.maxNesting", 20))
    sb = StateBlock.__new__(StateBlock)
    sb.src = src
    sb.md = md
    sb.env = {}
    sb.tokens = []
    for t in ("bMarks", "eMarks", "tShift", "sCount", "bsCount"):
        setattr(sb, t, _arr(model, f"{prefix}.{t}", nl1))
    sb.blkIndent = int(_const(model, f"{prefix}.blkIndent", 0))
    sb.line = int(_const(model, f"{prefix}.line", 0))
    sb.lineMax = int(_const(model, f"{prefix}.lineMax", max(0, nl1 - 1)))
    sb.tight = False
    sb.ddIndent = -1
    sb.listIndent = -1
    sb.parentType = "root"
    sb.level = int(_const(model, f"{prefix}.level", 0))
    sb.result = ""
    sb._code_enabled = bool(_const(model, f"{prefix}._code_enabled", True))
    return sb


def describe_state(sb):
    return {"src": sb.src, "bMarks": sb.bMarks, "eMarks": sb.eMarks, "tShift": sb.tShift, "sCount": sb.sCount, "bsCount": sb.bsCount,
            "blkIndent": sb.blkIndent, "line": sb.line, "lineMax": sb.lineMax, "level": sb.level, "_code_enabled": sb._code_enabled,
            "options.html": sb.md.options["html"]}


def lift_ruler(model, prefix="self"):
    from markdown_it.ruler import Rule, Ruler

    n = int(_const(model, f"len({prefix}.__rules__)", 0))
    if n > 30:
        return None
    names = _arr(model, f"{prefix}.__rules__.name", n)
    alts = _arr(model, f"{prefix}.__rules__.alt", n)
    mem = model["funcs"].get("Mem", {})
    en = model["arrays"].get(f"{prefix}.__rules__.enabled", {})
    r = Ruler()
    for i in range(n):
        e = en.get(str(i), en.get(i, True))
        members = mem.get(str(alts[i]), mem.get(alts[i], []))
        alt = [("" if c == 0 else f"n{c}") for c in members]
        r.__rules__.append(Rule(f"n{names[i]}", bool(e), (lambda *a, _i=i: _i), alt))
    isnone = _const(model, f"isnone({prefix}.__cache__)", True)
    if not isnone:
        r.getRules("")  # a valid compiled cache (RI holds on entry)
    return r


def _name(v):
    return f"n{v}"


def _model_str(model, name, cap=40):
    n = int(_const(model, f"len_{name}", 0))
    if n > cap or n < 0:
        return None
    f = model["funcs"].get(f"chr_{name}", {})
    return "".join(_chr(f.get(str(i), f.get(i, 97))) for i in range(n))


def lift_stateinline(model, prefix="state"):
    from markdown_it import MarkdownIt
    from markdown_it.rules_inline.state_inline import StateInline

    src = _model_str(model, f"{prefix}.src")
    if src is None:
        return None
    md = MarkdownIt("commonmark").enable("strikethrough")
    st = StateInline(src, md, {}, [])
    st.pos = int(_const(model, f"{prefix}.pos", 0))
    st.posMax = int(_const(model, f"{prefix}.posMax", len(src)))
    st.level = int(_const(model, f"{prefix}.level", 0))
    st.pendingLevel = st.level
    st.pending = _model_str(model, f"{prefix}.pending") or ""
    st.backticksScanned = bool(_const(model, f"{prefix}.backticksScanned", False))
    keys = model["arrays"].get(f"{prefix}.backticks?in", {})
    vals = model["arrays"].get(f"{prefix}.backticks", {})
    st.backticks = {int(k): int(vals.get(k, 0)) for k, v in keys.items() if v is True and int(k) >= 1}
    return st


def lift_tokens(model, prefix="state.tokens"):
    """a record list of TokenA -> real Token objects (pairwise distinct); atoms decoded through the model's atom table"""
    from markdown_it.token import Token

    n = int(_const(model, f"len({prefix})", 0))
    if n > 40:
        return None
    atoms = model.get("atoms", {})

    def atom(v):
        return atoms.get(str(v), f"k{v}")

    ty = _arr(model, f"{prefix}.type", n)
    ne = _arr(model, f"{prefix}.nesting", n)
    lv = _arr(model, f"{prefix}.level", n)
    co = _arr(model, f"{prefix}.content", n)
    tg = _arr(model, f"{prefix}.tag", n)
    mk = _arr(model, f"{prefix}.markup", n)
    out = []
    for i in range(n):
        t = Token(atom(ty[i]) or "k0", "", max(-1, min(1, ne[i])) if False else ne[i])
        t.level = lv[i]
        t.content = atom(co[i])
        t.tag = atom(tg[i])
        t.markup = atom(mk[i])
        out.append(t)
    return out


def replay_obligation(ob, contracts_mod: str):
    """Try to reproduce a failed pyvc obligation natively. Returns dict(lifted, observed, replayed)."""
    info = {"lifted": None, "observed": None, "replayed": False}
    if not ob.model:
        return info
    try:
        model = json.loads(ob.model)
    except Exception:  # noqa: BLE001
        return info
    mod = importlib.import_module(contracts_mod)
    q = ob.func
    c = mod.REGISTRY.get(q)
    if c is None:
        return info
    parts = q.split(".")
    try:
        if ".rules_block." in q and parts[-2] != "StateBlock":
            sb = lift_stateblock(model)
            if sb is None:
                return info
            args = {"state": sb, "startLine": int(_const(model, "startLine", 0)), "endLine": int(_const(model, "endLine", 1)), "silent": bool(_const(model, "silent", False))}
            fn = getattr(importlib.import_module(".".join(parts[:-1])), parts[-1])
            info["lifted"] = {"constructor": "StateBlock.__new__ + fields from the model", "arguments": {**describe_state(sb), **{k: v for k, v in args.items() if k != "state"}}}
        elif parts[-2] == "StateBlock":
            sb = lift_stateblock(model, "self")
            if sb is None:
                return info
            from markdown_it.rules_block.state_block import StateBlock

            meth = getattr(StateBlock, parts[-1])
            import inspect

            pnames = [p for p in inspect.signature(meth).parameters if p != "self"]
            args = {"self": sb}
            for p in pnames:
                v = _const(model, p, 0)
                args[p] = _chr(v) if c.params.get(p) == "char" else v
            fn = lambda **kw: meth(**kw)  # noqa: E731
            info["lifted"] = {"constructor": "StateBlock.__new__ + fields from the model", "arguments": {**describe_state(sb), **{k: v for k, v in args.items() if k != "self"}}}
        elif parts[-2] == "Ruler":
            from markdown_it.ruler import Ruler

            r = lift_ruler(model)
            if r is None:
                return info
            meth = getattr(Ruler, parts[-1])
            import inspect

            args = {"self": r}
            for p in inspect.signature(meth).parameters:
                if p == "self":
                    continue
                ty = c.params.get(p, "")
                if p == "names":
                    if "names" in model["consts"]:
                        args[p] = _name(model["consts"]["names"])
                    else:
                        ln = int(_const(model, "len(names)", 1))
                        args[p] = [_name(x) for x in _arr(model, "names", min(ln, 20))]
                elif p == "ignoreInvalid":
                    args[p] = bool(_const(model, p, False))
                elif p == "fn":
                    args[p] = lambda *a: "new"
                elif p == "options":
                    args[p] = None
                elif "atom" in ty:
                    v = _const(model, p, 0)
                    args[p] = "" if (p == "chainName" and v == 0) else _name(v)
                else:
                    args[p] = _const(model, p, 0)
            fn = lambda **kw: meth(**kw)  # noqa: E731
            info["lifted"] = {"constructor": "Ruler() + Rule records from the model", "arguments": {"rules": [(x.name, x.enabled, list(x.alt)) for x in r.__rules__], "cache_is_none": r.__cache__ is None,
                                                                                                   **{k: (v if not callable(v) else "<fn>") for k, v in args.items() if k != "self"}}}
        elif c.params.get("state") == "obj:StateInline" and list(c.params) == ["state", "silent"]:
            st = lift_stateinline(model)
            if st is None:
                return info
            args = {"state": st, "silent": bool(_const(model, "silent", False))}
            fn = getattr(importlib.import_module(".".join(parts[:-1])), parts[-1])
            info["lifted"] = {"constructor": "StateInline(src, md, {}, []) + fields from the model",
                              "arguments": {"src": st.src, "pos": st.pos, "posMax": st.posMax, "pending": st.pending, "level": st.level,
                                            "backticksScanned": st.backticksScanned, "backticks": st.backticks, "silent": args["silent"]}}
        elif c.params.get("delimiters") == "reclist:Delimiter":
            from types import SimpleNamespace

            from markdown_it.rules_inline.state_inline import Delimiter

            n = int(_const(model, "len(delimiters)", 0))
            if n > 40:
                return info
            cols = {f: _arr(model, f"delimiters.{f}", n) for f in ("marker", "length", "token", "end")}
            flags = {f: model["arrays"].get(f"delimiters.{f}", {}) for f in ("open", "close")}
            delims = [Delimiter(marker=cols["marker"][i], length=cols["length"][i], token=cols["token"][i], end=cols["end"][i],
                                open=bool(flags["open"].get(str(i), flags["open"].get(i, False))), close=bool(flags["close"].get(str(i), flags["close"].get(i, False))))
                      for i in range(n)]
            toks = lift_tokens(model) or []
            st = SimpleNamespace(tokens=toks, delimiters=delims, tokens_meta=[None] * len(toks))
            args = {"state": st, "delimiters": delims}
            fn = getattr(importlib.import_module(".".join(parts[:-1])), parts[-1])
            info["lifted"] = {"constructor": "Delimiter records and Token(type, nesting, level, content, tag, markup) objects from the model",
                              "arguments": {"delimiters": [(d.marker, d.length, d.token, d.end, d.open, d.close) for d in delims],
                                            "tokens": [(t.type, t.nesting, t.level, t.content) for t in toks]}}
        elif q.endswith("fragments_join.fragments_join"):
            from types import SimpleNamespace

            toks = lift_tokens(model)
            if toks is None:
                return info
            st = SimpleNamespace(tokens=toks, delimiters=[], tokens_meta=[None] * len(toks))
            args = {"state": st}
            fn = getattr(importlib.import_module(".".join(parts[:-1])), parts[-1])
            info["lifted"] = {"constructor": "namespace with a tokens list of Token(type, nesting, level, content) from the model",
                              "arguments": {"tokens": [(t.type, t.nesting, t.level, t.content) for t in toks]}}
        else:
            return info
        mon = Monitor(c, mod.SPECFUNS)
        outcome, val, failed, pre_ok = mon.call(fn, args)
        info["observed"] = {"outcome": outcome, "value": repr(val)[:200], "failed_clauses": [f"{k}/{l}" for k, l in failed], "precondition_held": pre_ok}
        info["replayed"] = bool(failed) and pre_ok
    except Exception as e:  # noqa: BLE001
        info["observed"] = {"outcome": "replay-error", "value": f"{type(e).__name__}: {e}"}
    return info


def api_witness(prop: str, func: str):
    """Search the bounded universe for a document that makes the function's contract fire through the public API."""
    from . import bounded

    if ".rules_block." in func or "StateBlock" in func:
        for check, opts in (("vf.checks:no_exception", {"exception_is_failure": True, "timeout_is_failure": True}), ("vf.checks:container_contracts", {})):
            b = bounded.run(check, "lines", 2, ["commonmark", "js-default", "cm-heading", "cm-code"], func, "api witness search", "", wrapped=True, **opts)
            short = func.split(".")[-1]
            for f in b.failures:
                if short in f.get("what", "") or short in f.get("key", "") or check.endswith("no_exception"):
                    return {"config": f.get("config"), "src": f.get("input"), "what": f.get("what")}
    if ".rules_inline." in func or ".helpers." in func or "StateInline" in func or "parser_inline" in func:
        # inline side: the run-time contract monitor of the delimiter pipeline first (its failures name the function), then
        # the token-stream oracle, over the inline fragment and delimiter universes
        short = func.split(".")[-1]
        runs = [("vf.checks:delim_contracts", "inline", dict(k=3)), ("vf.checks:delim_contracts", "gen", dict(k=0, gen="vf.universe:gen_emph", gen_args=("quick",))),
                ("vf.checks:inline_contracts", "inline", dict(k=3)), ("vf.oracles:c02_stream", "gen", dict(k=0, gen="vf.universe:gen_emph", gen_args=("quick",))),
                ("vf.oracles:c02_stream", "inline", dict(k=3))]
        for check, kind, kw in runs:
            k = kw.pop("k")
            b = bounded.run(check, kind, k, ["commonmark", "cm+table+strike"], func, "api witness search", "", **kw)
            named = [f for f in b.failures if func in f.get("key", "") or short in f.get("what", "")]
            pick = named or (b.failures if check.startswith("vf.oracles") else [])
            if pick:
                f = pick[0]
                return {"config": f.get("config"), "src": f.get("input"), "what": f.get("what")}
    return None


def rerun(payload: dict) -> int:
    """./check <id> --replay <file>: re-run the stored witness on the current tree."""
    from . import universe as U

    w = payload.get("api_witness") or {}
    fl = payload.get("failure") or {}
    src = w.get("src") if w else fl.get("input")
    cfg = (w.get("config") if w else fl.get("config")) or "commonmark"
    if isinstance(src, str) and cfg in U.CONFIGS:
        md = U.make_md(cfg)
        try:
            out = md.render(src)
            print(f"replayed render({src!r}) under {cfg}: returned {out[:200]!r}")
        except Exception as e:  # noqa: BLE001
            print(f"replayed render({src!r}) under {cfg}: raised {type(e).__name__}: {e}")
            return 1
    lifted = payload.get("lifted")
    if lifted:
        print("lifted function-level arguments:", json.dumps(lifted, default=str)[:1500])
    print("obligation:", payload.get("obligation") or payload.get("bounded_contract"))
    print("observed at check time:", json.dumps(payload.get("observed") or payload.get("failure"), default=str)[:800])
    return 0
