"""READS and ORDER obligations (DESIGN.md 2.2): who reads which option; facts about registry literals and call sites
read from the real source."""
from __future__ import annotations

import ast

from . import src as S
from .report import Ob

RENDER_ONLY = {
    # renderToken spells the void tags; render / renderInline / image call it directly
    "xhtmlOut": {"markdown_it.renderer.RendererHTML.renderToken", "markdown_it.renderer.RendererHTML.hardbreak", "markdown_it.renderer.RendererHTML.softbreak",
                 "markdown_it.renderer.RendererHTML.render", "markdown_it.renderer.RendererHTML.renderInline", "markdown_it.renderer.RendererHTML.image"},
    "breaks": {"markdown_it.renderer.RendererHTML.softbreak"},
    "langPrefix": {"markdown_it.renderer.RendererHTML.fence"},
    "highlight": {"markdown_it.renderer.RendererHTML.fence"},
}
PARSE_ONLY_OPTIONS = {"inline_definitions": {"markdown_it.rules_block.reference.reference"}, "store_labels": {"markdown_it.rules_inline.link.link", "markdown_it.rules_inline.image.image"}}
SKIP = ("markdown_it.cli", "markdown_it.presets", "markdown_it.port")


def option_reads():
    """{function: {option names}} - direct reads via attribute, subscript or .get on something named/ending in `options`"""
    out: dict[str, set] = {}
    calls: dict[str, set] = {}
    for modname in S.all_package_modules():
        if modname.startswith(SKIP):
            continue
        mi = S.load_module(modname)
        for qn, fn in mi.functions.items():
            qual = f"{modname}.{qn}"
            reads = set()
            callees = set()
            for n in ast.walk(fn):
                base = None
                name = None
                if isinstance(n, ast.Attribute) and isinstance(n.ctx, ast.Load):
                    base, name = n.value, n.attr
                elif isinstance(n, ast.Subscript) and isinstance(n.ctx, ast.Load) and isinstance(n.slice, ast.Constant) and isinstance(n.slice.value, str):
                    base, name = n.value, n.slice.value
                elif isinstance(n, ast.Call) and isinstance(n.func, ast.Attribute) and n.func.attr == "get" and n.args and isinstance(n.args[0], ast.Constant) and isinstance(n.args[0].value, str):
                    base, name = n.func.value, n.args[0].value
                if base is not None:
                    is_opt = (isinstance(base, ast.Name) and base.id == "options") or (isinstance(base, ast.Attribute) and base.attr == "options")
                    if is_opt:
                        reads.add(name)
                if isinstance(n, ast.Call) and isinstance(n.func, ast.Attribute) and isinstance(n.func.value, ast.Name) and n.func.value.id == "self":
                    cls = ".".join(qn.split(".")[:-1])
                    if cls:
                        callees.add(f"{modname}.{cls}.{n.func.attr}")
                if isinstance(n, ast.Call) and isinstance(n.func, ast.Name):
                    tgt = S.resolve_name(mi, n.func.id)
                    if tgt and tgt.startswith("markdown_it"):
                        try:
                            callees.add(S.resolve_function(tgt)[2])
                        except S.SourceError:
                            pass
            out[qual] = reads
            calls[qual] = callees
    # transitive closure through direct (self.x / module function) calls
    changed = True
    trans = {k: set(v) for k, v in out.items()}
    while changed:
        changed = False
        for f, cs in calls.items():
            for c in cs:
                if c in trans and not trans[c] <= trans[f]:
                    trans[f] |= trans[c]
                    changed = True
    return out, trans


def add_obligations(rep, prop):
    direct, trans = option_reads()
    all_opts = set()
    for opt, allowed in {**RENDER_ONLY, **PARSE_ONLY_OPTIONS}.items():
        readers = {f for f, rs in trans.items() if opt in rs}
        # callers that merely dispatch (render / renderInline reach every rule through self.rules[...]) are not direct readers
        extra = {f for f in readers if f not in allowed}
        verdict = "discharged" if not extra else "failed"
        rep.obs.append(Ob(oid=f"{prop}/READS/option:{opt}", kind="READS", func="*", backend="reads", verdict=verdict, solver="syntactic read set + call closure",
                          info=f"option {opt} is read (directly or through direct calls) only by {sorted(allowed)}" if not extra else f"option {opt} is also read by {sorted(extra)}"))
    # the parse side reads no renderer-only option
    for modname in S.all_package_modules():
        if not modname.startswith(("markdown_it.rules_", "markdown_it.parser_", "markdown_it.helpers", "markdown_it.common")):
            continue
        bad = {(f, o) for f, rs in direct.items() if f.startswith(modname + ".") for o in rs if o in RENDER_ONLY}
        rep.obs.append(Ob(oid=f"{prop}/READS/parse-side:{modname}", kind="READS", func=modname, backend="reads", verdict="discharged" if not bad else "failed",
                          solver="syntactic read set", info="reads no renderer-only option" if not bad else f"reads renderer-only options: {sorted(bad)}"))
    add_inline_call_obligation(rep, prop)
    rep.functions = sorted(set(rep.functions) | set(direct))


OPTION_NAMES = {"maxNesting", "html", "linkify", "typographer", "quotes", "xhtmlOut", "breaks", "langPrefix", "highlight", "inline_definitions", "store_labels"}


def add_config_time_obligations(rep, prop):
    """C10 (routes): an option set by the constructor, by item assignment or by attribute assignment must be
    indistinguishable. The three routes write the same backing key (ROUTE obligations); this holds for the parser only if
    every option is read when it is *used* - a configuration-time function that looks at an option value (and, say, flips
    rules accordingly) freezes it for one route and not for the others. Obligation: no function of markdown_it.main reads an
    option value."""
    direct, _ = option_reads()
    for f, rs in sorted(direct.items()):
        if not f.startswith("markdown_it.main."):
            continue
        bad = sorted(rs & OPTION_NAMES)
        rep.obs.append(Ob(oid=f"{prop}/{f}/READS/no-option-read-at-configuration-time", kind="READS", func=f, backend="reads", verdict="discharged" if not bad else "failed",
                          solver="syntactic read set", info="reads no option value (options take effect where they are used)" if not bad else f"reads option(s) {bad} at configuration time"))
        if bad:
            w = None
            try:
                from markdown_it import MarkdownIt

                for preset in ("default", "commonmark", "zero"):
                    for opt, val, doc in (("html", True, "<div>\nx\n</div>\n\na <b>c</b>\n"), ("html", False, "<div>\nx\n</div>\n\na <b>c</b>\n"), ("typographer", True, "(c) \"q\" ..."), ("linkify", False, "a"), ("breaks", True, "a\nb")):
                        try:
                            a = MarkdownIt(preset, {opt: val})
                            b = MarkdownIt(preset)
                            b.options[opt] = val
                            if a.render(doc) != b.render(doc):
                                w = {"preset": preset, "option": opt, "value": val, "doc": doc, "constructor_route": a.render(doc), "item_assignment_route": b.render(doc)}
                                break
                        except Exception:  # noqa: BLE001
                            continue
                    if w:
                        break
            except Exception:  # noqa: BLE001
                pass
            rep.replays[f"{prop}/{f}/READS/no-option-read-at-configuration-time"] = {"lifted": {"arguments": w} if w else {}, "observed": {"outcome": "the two routes render differently" if w else "no distinguishing document among the candidates"}, "replayed": bool(w)}


def add_inline_call_obligation(rep, prop):
    """ORDER/inline-call-args: the core `inline` rule hands exactly (content, md, env, children) to ParserInline.parse, in
    both modes - so inline parsing is a function of the content, the configuration and env only (C18)."""
    try:
        mi = S.load_module("markdown_it.rules_core.inline")
        fn = mi.functions["inline"]
        calls = [n for n in ast.walk(fn) if isinstance(n, ast.Call) and isinstance(n.func, ast.Attribute) and n.func.attr == "parse"]
        ok = len(calls) == 1 and not calls[0].keywords and [ast.unparse(a) for a in calls[0].args] == ["token.content", "state.md", "state.env", "token.children"]
        info = "inline.parse(token.content, state.md, state.env, token.children)" if ok else f"unexpected call(s): {[ast.unparse(c) for c in calls]}"
        verdict = "discharged" if ok else "failed"
        # and ParserInline.parse builds its state from exactly these four
        pm = S.load_module("markdown_it.parser_inline")
        pf = pm.functions["ParserInline.parse"]
        params = [a.arg for a in pf.args.args]
        if params != ["self", "src", "md", "env", "tokens"]:
            verdict, info = "failed", f"ParserInline.parse takes {params}"
        sm = S.load_module("markdown_it.rules_inline.state_inline")
        init = sm.functions["StateInline.__init__"]
        lvl = [n for n in ast.walk(init) if isinstance(n, ast.Assign) and any(isinstance(t, ast.Attribute) and t.attr == "level" for t in n.targets)]
        if not (len(lvl) == 1 and isinstance(lvl[0].value, ast.Constant) and lvl[0].value.value == 0):
            verdict, info = "failed", "StateInline.level is not initialised to the constant 0"
    except (S.SourceError, KeyError) as e:
        verdict, info = "undecided", str(e)
    rep.obs.append(Ob(oid=f"{prop}/ORDER/inline-call-args", kind="ORDER", func="markdown_it.rules_core.inline.inline", backend="reads", verdict=verdict, solver="call-site literal", info=info))


def core_registry():
    mi = S.load_module("markdown_it.parser_core")
    node = mi.globals["_rules"]
    names = []
    for elt in node.elts:
        names.append((elt.elts[0].value, ast.unparse(elt.elts[1])))
    return names


def add_order_obligations(rep, prop):
    """ORDER obligations on the core registry literal: normalize first; text_join after replacements and smartquotes
    (so escapes/entities are still text_special when typography runs)."""
    try:
        names = [n for n, _ in core_registry()]
        checks = {
            "normalize-first": names and names[0] == "normalize",
            "text_join-after-typography": "text_join" in names and all(names.index("text_join") > names.index(x) for x in ("replacements", "smartquotes") if x in names),
            "inline-before-typography": all(names.index("inline") < names.index(x) for x in ("replacements", "smartquotes", "linkify") if x in names),
            "block-before-inline": names.index("block") < names.index("inline"),
        }
        for k, ok in checks.items():
            rep.obs.append(Ob(oid=f"{prop}/ORDER/core:{k}", kind="ORDER", func="markdown_it.parser_core._rules", backend="reads", verdict="discharged" if ok else "failed",
                              solver="registry literal", info=f"core registry order {names}"))
    except Exception as e:  # noqa: BLE001
        rep.obs.append(Ob(oid=f"{prop}/ORDER/core", kind="ORDER", func="markdown_it.parser_core._rules", backend="reads", verdict="undecided", solver="registry literal", info=str(e)))
