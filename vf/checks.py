"""Check functions for the bounded driver: check(state: dict, cfg: str, doc: str) -> {"sig":..., "fail":[...]} | None"""
from __future__ import annotations

import importlib

from . import universe as U
from .monitor import Monitor


def _md(state, cfg):
    key = ("md", cfg)
    if key not in state:
        state[key] = U.make_md(cfg)
    return state[key]


def tok_sig(tokens):
    return tuple((t.type, t.level, tuple(t.map) if t.map else None) for t in tokens)


# ---------------------------------------------------------------------------- C01: no exception
def no_exception(state, cfg, doc):
    md = _md(state, cfg)
    toks = md.parse(doc)
    md.render(doc)
    if "\n" not in doc.strip("\n"):
        md.renderInline(doc)
        md.parseInline(doc)
    return {"sig": tuple(t.type for t in toks)}


# ---------------------------------------------------------------------------- block-rule contracts at run time
BLOCK_RULE_FUNCS = {
    "hr": "markdown_it.rules_block.hr.hr", "heading": "markdown_it.rules_block.heading.heading",
    "lheading": "markdown_it.rules_block.lheading.lheading", "fence": "markdown_it.rules_block.fence.fence",
    "code": "markdown_it.rules_block.code.code", "html_block": "markdown_it.rules_block.html_block.html_block",
    "paragraph": "markdown_it.rules_block.paragraph.paragraph",
}


CONTAINER_RULE_FUNCS = {"blockquote": ("markdown_it.rules_block.blockquote.blockquote", "contracts.cons"), "list": ("markdown_it.rules_block.list.list_block", "contracts.listc"),
                        "reference": ("markdown_it.rules_block.reference.reference", "contracts.refdef"),
                        "table": ("markdown_it.rules_block.table.table", "contracts.tablec")}


def _monitored_md(state, cfg, containers=False):
    key = ("mmd", cfg, containers)
    if key in state:
        return state[key]
    md = U.make_md(cfg)
    B = importlib.import_module("contracts.block")
    log = []
    for rule in md.block.ruler.__rules__:
        q = BLOCK_RULE_FUNCS.get(rule.name)
        R = B
        if containers and rule.name in CONTAINER_RULE_FUNCS:
            q, modname = CONTAINER_RULE_FUNCS[rule.name]
            R = importlib.import_module(modname)
        if not q or q not in R.REGISTRY:
            continue
        mon = Monitor(R.REGISTRY[q], R.SPECFUNS)
        real = rule.fn

        pnames = list(R.REGISTRY[q].params)[:4]

        def wrapper(st, startLine, endLine, silent, _mon=mon, _real=real, _q=q, _pn=pnames):
            outcome, val, failed, pre_ok = _mon.call(_real, dict(zip(_pn, (st, startLine, endLine, silent))))
            for kind, label in failed:
                log.append((_q, kind, label, startLine, endLine, silent))
            if outcome == "precondition-false":
                return _real(st, startLine, endLine, silent)
            if outcome == "raised":
                raise val
            return val

        rule.fn = wrapper
    md.block.ruler.__cache__ = None
    state[key] = (md, log)
    return state[key]


def container_contracts(state, cfg, doc):
    """as block_contracts, with blockquote and list_block monitored too (their contracts evaluated natively at every call)"""
    return block_contracts(state, cfg, doc, containers=True)


def block_contracts(state, cfg, doc, containers=False):
    md, log = _monitored_md(state, cfg, containers)
    del log[:]
    toks = md.parse(doc)
    fails = []
    for q, kind, label, sl, el, silent in log:
        fails.append({"what": f"{q} {kind} {label} (startLine={sl}, endLine={el}, silent={silent})", "key": f"{q}/{kind}/{label}"})
    return {"sig": tok_sig(toks), "fail": fails}


# ---------------------------------------------------------------------------- inline post-processing contracts at run time
INLINE2_RULE_FUNCS = {"fragments_join": ("markdown_it.rules_inline.fragments_join.fragments_join", "contracts.fragjoin")}


def _monitored_inline_md(state, cfg):
    key = ("mimd", cfg)
    if key in state:
        return state[key]
    md = U.make_md(cfg)
    log = []
    for rule in md.inline.ruler2.__rules__:
        ent = INLINE2_RULE_FUNCS.get(rule.name)
        if not ent:
            continue
        q, modname = ent
        M = importlib.import_module(modname)
        mon = Monitor(M.REGISTRY[q], M.SPECFUNS)
        real = rule.fn

        def wrapper(st, _mon=mon, _real=real, _q=q):
            outcome, val, failed, pre_ok = _mon.call(_real, {"state": st})
            for kind, label in failed:
                log.append((_q, kind, label))
            if outcome == "raised":
                raise val
            return val

        rule.fn = wrapper
    md.inline.ruler2.__cache__ = None
    state[key] = (md, log)
    return state[key]


def inline_contracts(state, cfg, doc):
    """requires/ensures of the inline post-processing contracts evaluated natively on every call made while parsing doc
    (a failing `requires` means the contract assumes more than the callers establish)"""
    md, log = _monitored_inline_md(state, cfg)
    del log[:]
    toks = md.parse(doc)
    fails = [{"what": f"{q} {kind} {label}", "key": f"{q}/{kind}/{label}"} for q, kind, label in log]
    return {"sig": tuple((t.type, tuple((c.type, c.level) for c in (t.children or []))) for t in toks), "fail": fails}


# ---------------------------------------------------------------------------- delimiter pipeline contracts at run time
DELIM_FUNCS = [("markdown_it.rules_inline.balance_pairs", "processDelimiters", "contracts.delims"),
               ("markdown_it.rules_inline.emphasis", "_postProcess", "contracts.emph"),
               ("markdown_it.rules_inline.strikethrough", "_postProcess", "contracts.emph")]
INLINE_RULE_FUNCS = [("markdown_it.rules_inline.emphasis", "tokenize", "emphasis", "contracts.inline2"),
                     ("markdown_it.rules_inline.strikethrough", "tokenize", "strikethrough", "contracts.inline2"),
                     ("markdown_it.rules_inline.newline", "newline", "newline", "contracts.inline2"),
                     ("markdown_it.rules_inline.text", "text", "text", "contracts.inline2"),
                     ("markdown_it.rules_inline.backticks", "backtick", "backticks", "contracts.inline2"),
                     ("markdown_it.rules_inline.escape", "escape", "escape", "contracts.inline"),
                     ("markdown_it.rules_inline.link", "link", "link", "contracts.linkc"),
                     ("markdown_it.rules_inline.image", "image", "image", "contracts.linkc"),
                     ("markdown_it.rules_inline.autolink", "autolink", "autolink", "contracts.linkc")]


def delim_contracts(state, cfg, doc):
    """requires/ensures of processDelimiters, emphasis._postProcess, strikethrough._postProcess and of the emphasis /
    strikethrough / newline tokenizers evaluated natively on every call made while parsing doc: validates that each
    function's callers establish what its contract assumes (the inter-procedural step pyvc does not prove)"""
    md = _md(state, cfg)
    log = []
    saved = []
    try:
        for modname, fname, cmod in DELIM_FUNCS:
            m = importlib.import_module(modname)
            C = importlib.import_module(cmod)
            q = f"{modname}.{fname}"
            mon = Monitor(C.REGISTRY[q], C.SPECFUNS)
            real = getattr(m, fname)

            def wrapper(st, delimiters, _mon=mon, _real=real, _q=q):
                outcome, val, failed, pre_ok = _mon.call(_real, {"state": st, "delimiters": delimiters})
                for kind, label in failed:
                    log.append((_q, kind, label))
                if outcome == "precondition-false":
                    return _real(st, delimiters)
                if outcome == "raised":
                    raise val
                return val

            saved.append((m, fname, real))
            setattr(m, fname, wrapper)
        rules = {r.name: r for r in md.inline.ruler.__rules__}
        saved_rules = []
        for modname, fname, rname, cmod in INLINE_RULE_FUNCS:
            r = rules.get(rname)
            if r is None:
                continue
            C = importlib.import_module(cmod)
            q = f"{modname}.{fname}"
            mon = Monitor(C.REGISTRY[q], C.SPECFUNS)
            real = r.fn

            def rwrapper(st, silent, _mon=mon, _real=real, _q=q):
                if not (0 <= st.pos < st.posMax):
                    return _real(st, silent)
                outcome, val, failed, pre_ok = _mon.call(_real, {"state": st, "silent": silent})
                for kind, label in failed:
                    log.append((_q, kind, label))
                if outcome == "precondition-false":
                    return _real(st, silent)
                if outcome == "raised":
                    raise val
                return val

            saved_rules.append((r, real))
            r.fn = rwrapper
        md.inline.ruler.__cache__ = None
        toks = md.parse(doc)
    finally:
        for m, fname, real in saved:
            setattr(m, fname, real)
        for r, real in saved_rules:
            r.fn = real
        md.inline.ruler.__cache__ = None
    fails = [{"what": f"{q} {kind} {label}", "key": f"{q}/{kind}/{label}"} for q, kind, label in log]
    return {"sig": tuple((t.type, tuple((c.type, c.level) for c in (t.children or []))) for t in toks), "fail": fails}


# ---------------------------------------------------------------------------- C13: nested execution at line boundaries
C13_DOCS = ["intro\n\n    indented block\n\n    # not a heading\n\noutro\n", "- a\n  - b *c*\n\n> q `d`\n", "a|b\n-|-\n1|2\n", "[r]: /u\n\n[r] ![i](/s) <http://x.y>\n",
            "plain\n", "# h\n\n```\ncode\n```\n", "*a **b** c* ~~s~~ \\* &amp; \"q\" -- (c)\n", "1. x\n2. y\n\n***\n<div>\nraw\n</div>\n"]


def gen_c13(tier):
    import itertools

    pairs = list(itertools.product(range(len(C13_DOCS)), repeat=2))
    if tier == "quick":
        pairs = [(a, b) for a, b in pairs if (a + 2 * b) % 5 == 0]
    for a, b in pairs:
        for fresh in (True, False):
            yield (a, b, fresh, tier)


def c13_preempt(state, cfg, case):
    """case = (index of A, index of B, fresh): render(A) on one instance is suspended at *every* line boundary inside the
    library (sys.settrace) and render(B) runs to completion on the same instance before A resumes - every interleaving in
    which B is atomic.  With fresh=True the instance has never parsed before (compiled rule chains not yet built, so the
    publication of Ruler.__cache__ lies inside the window).  Both results must equal the sequential ones, and the instance
    must behave like a fresh one afterwards.  Bounded stand-in for the interference-freedom argument of C13."""
    import sys

    a, b, fresh, tier = case
    A, B = C13_DOCS[a], C13_DOCS[b]
    ref = U.make_md(cfg)
    want_a, want_b = ref.render(A), ref.render(B)
    fails = []
    # number of line events of A inside the library
    def count_lines(md):
        n = [0]

        def tr(frame, event, arg):
            if "markdown_it" not in frame.f_code.co_filename:
                return None
            if event == "line":
                n[0] += 1
            return tr

        sys.settrace(tr)
        try:
            md.render(A)
        finally:
            sys.settrace(None)
        return n[0]

    total = count_lines(U.make_md(cfg))
    stride = max(1, total // (40 if tier != "thorough" else 400))
    points = 0
    for at in range(0, total, stride):
        md = U.make_md(cfg)
        if not fresh:
            md.render("warm *up*\n")
        seen = [0]
        got_b = [None]

        def tr(frame, event, arg, _md=md):
            if "markdown_it" not in frame.f_code.co_filename:
                return None
            if event == "line":
                if seen[0] == at and got_b[0] is None:
                    sys.settrace(None)
                    try:
                        got_b[0] = _md.render(B)
                    finally:
                        sys.settrace(tr)
                seen[0] += 1
            return tr

        sys.settrace(tr)
        try:
            got_a = md.render(A)
        finally:
            sys.settrace(None)
        points += 1
        if got_b[0] is not None and got_b[0] != want_b:
            fails.append({"what": f"render(B) run while render(A) was suspended at library line event #{at} returned {got_b[0][:60]!r}, sequentially {want_b[:60]!r} (A={A!r}, B={B!r}, fresh={fresh})", "key": "C13/nested-B"})
            break
        if got_a != want_a:
            fails.append({"what": f"render(A) resumed after a nested render(B) at line event #{at} returned {got_a[:60]!r}, sequentially {want_a[:60]!r} (A={A!r}, B={B!r}, fresh={fresh})", "key": "C13/resumed-A"})
            break
        if md.render(B) != want_b:
            fails.append({"what": f"instance differs from a fresh one after the nested run at line event #{at} (A={A!r}, B={B!r})", "key": "C13/after"})
            break
    return {"sig": (a, b, fresh, points), "fail": fails}


# ---------------------------------------------------------------------------- C11: Ruler histories
def _ruler_ref_filter(rules, chain):
    return [r.fn for r in rules if r.enabled and (chain == "" or chain in r.alt)]


RULER_OPS = None


def ruler_ops():
    """operation alphabet of the bounded history check"""
    global RULER_OPS
    if RULER_OPS is None:
        ops = []
        for n in ("a", "b", "zz"):
            for ign in (False, True):
                ops.append(("enable", n, ign))
                ops.append(("disable", n, ign))
        for names in (["a", "zz"], ["zz", "b"], ["b", "a"], []):
            for ign in (False, True):
                ops.append(("enable", tuple(names), ign))
                ops.append(("disable", tuple(names), ign))
                ops.append(("enableOnly", tuple(names), ign))
        ops += [("push", "c", ("x",)), ("push", "b", ()), ("before", "a", "d", ("y",)), ("before", "zz", "d", ()),
                ("after", "b", "e", ("x", "y")), ("after", "zz", "e", ()), ("at", "a", ("y",)), ("at", "zz", ()),
                ("getRules", ""), ("getRules", "x"), ("getRules", "nochain")]
        RULER_OPS = ops
    return RULER_OPS


def ruler_history(state, cfg, doc):
    """doc = tuple of op indices. Runs the history on a real Ruler and on a reference model; RI and the set
    semantics are checked after every step (also after raising calls)."""
    from markdown_it.ruler import Ruler

    ops = ruler_ops()
    r = Ruler()
    fns = {}

    def fn(name):
        return fns.setdefault(name, (lambda *a, _n=name: _n))

    r.push("a", fn("a0"), {"alt": ["x"]})
    r.push("b", fn("b0"), {"alt": ["x", "y"]})
    r.push("b", fn("b1"), {"alt": []})  # duplicate name
    model = [["a", True, fn("a0"), ["x"]], ["b", True, fn("b0"), ["x", "y"]], ["b", True, fn("b1"), []]]
    fails = []
    trace = []

    def find(name):
        for i, m in enumerate(model):
            if m[0] == name:
                return i
        return -1

    for step, oi in enumerate(doc):
        op = ops[oi]
        trace.append(op)
        kind = op[0]
        exp_exc = None
        try:
            if kind in ("enable", "disable", "enableOnly"):
                names, ign = op[1], op[2]
                lst = [names] if isinstance(names, str) else list(names)
                if kind == "enableOnly":
                    for m in model:
                        m[1] = False
                found = []
                for n in lst:
                    i = find(n)
                    if i < 0:
                        if ign:
                            continue
                        exp_exc = KeyError
                        break
                    model[i][1] = kind != "disable"
                    found.append(n)
                got = getattr(r, kind)(list(names) if not isinstance(names, str) else names, ign)
                if exp_exc is None and got != found:
                    fails.append({"what": f"{kind} returned {got}, expected {found}", "key": "ruler/result"})
            elif kind == "push":
                model.append([op[1], True, fn(op[1] + "p"), list(op[2])])
                r.push(op[1], fn(op[1] + "p"), {"alt": list(op[2])})
            elif kind in ("before", "after"):
                i = find(op[1])
                if i < 0:
                    exp_exc = KeyError
                else:
                    model.insert(i + (kind == "after"), [op[2], True, fn(op[2] + kind), list(op[3])])
                getattr(r, kind)(op[1], op[2], fn(op[2] + kind), {"alt": list(op[3])})
            elif kind == "at":
                i = find(op[1])
                if i < 0:
                    exp_exc = KeyError
                else:
                    model[i][2], model[i][3] = fn(op[1] + "at"), list(op[2])
                r.at(op[1], fn(op[1] + "at"), {"alt": list(op[2])})
            elif kind == "getRules":
                r.getRules(op[1])
            if exp_exc is not None:
                fails.append({"what": f"step {step} {op}: expected {exp_exc.__name__}, none raised", "key": "ruler/no-raise"})
        except KeyError:
            if exp_exc is not KeyError:
                fails.append({"what": f"step {step} {op}: unexpected KeyError", "key": "ruler/unexpected-raise"})
        # reported == model (set semantics)
        rep = [(x.name, x.enabled, x.fn, list(x.alt)) for x in r.__rules__]
        if rep != [tuple(m[:3]) + (m[3],) for m in model]:
            fails.append({"what": f"after {trace}: rules {[(a, b) for a, b, _, _ in rep]} != model {[(m[0], m[1]) for m in model]}", "key": "ruler/set-semantics"})
            break
        if r.get_active_rules() != [m[0] for m in model if m[1]] or r.get_all_rules() != [m[0] for m in model]:
            fails.append({"what": f"after {trace}: get_active_rules/get_all_rules disagree with the rule records", "key": "ruler/reported"})
        # RI: a non-None cache agrees with Filter for every chain
        cache = r.__cache__
        if cache is not None:
            for c in ("", "x", "y", "nochain"):
                if (cache.get(c, []) or []) != _ruler_ref_filter(r.__rules__, c):
                    fails.append({"what": f"after {trace}: stale cache for chain {c!r}", "key": "ruler/RI"})
                    break
        # applied == reported
        for c in ("", "x", "y", "nochain"):
            if r.getRules(c) != _ruler_ref_filter(r.__rules__, c):
                fails.append({"what": f"after {trace}: getRules({c!r}) != enabled rules filtered by chain", "key": "ruler/applied"})
                break
        if fails:
            break
    return {"sig": tuple((m[0], m[1]) for m in model) + (cache is None,), "fail": [dict(f, input=[list(map(str, t)) for t in trace]) for f in fails]}


# ---------------------------------------------------------------------------- C14: exceptions from user code
class _Boom(Exception):
    pass


PROBES = ["*a* **b** `c`\n\n- x\n- y\n\n> q\n\n1. z\n", "# h\n\n[l](/u) ![i](/s) <http://x.y>\n\n```py\ncode\n```\n", "a ~~s~~ | b\n-|-\n1|2\n\n---\n"]


def _fingerprint(md):
    return (md.get_active_rules(), dict(md.options), sorted(md.renderer.rules), [md.render(p) for p in PROBES])


def c14_crash(state, cfg, case):
    """case = (kind, where, nth, src).  User code raises at its nth invocation; afterwards the instance must be
    indistinguishable from a pristine twin."""
    kind, where, nth, src = case
    md = U.make_md(cfg)
    twin = U.make_md(cfg)
    count = [0]

    def maybe():
        count[0] += 1
        if count[0] == nth:
            raise _Boom()

    if kind == "rule":
        chain, pos = where

        def plugin_block(st, startLine, endLine, silent):
            maybe()
            return False

        def plugin_inline(st, silent):
            maybe()
            return False

        def plugin_core(st):
            maybe()

        def plugin_inline2(st):
            maybe()

        for m in (md, twin):
            if chain == "block":
                m.block.ruler.before("paragraph", "zz_plugin", plugin_block if m is md else (lambda *a: False), {"alt": ["paragraph", "reference", "blockquote", "list"]})
            elif chain == "inline":
                m.inline.ruler.before("text", "zz_plugin", plugin_inline if m is md else (lambda *a: False))
            elif chain == "inline2":
                m.inline.ruler2.push("zz_plugin", plugin_inline2 if m is md else (lambda *a: None))
            else:
                (m.core.ruler.before if pos == "first" else m.core.ruler.after)("block" if pos == "first" else "inline", "zz_plugin", plugin_core if m is md else (lambda *a: None))
    elif kind == "render_rule":
        def bad_rule(self, tokens, idx, options, env):
            maybe()
            return ""

        md.add_render_rule(where, bad_rule)
        twin.add_render_rule(where, lambda self, tokens, idx, options, env: "")
    elif kind == "highlight":
        def hl(code, lang, attrs):
            maybe()
            return ""

        md.options["highlight"] = hl
        twin.options["highlight"] = lambda code, lang, attrs: ""
    before = (md.get_active_rules(), {k: v for k, v in md.options.items() if k != "highlight"})
    raised = False
    try:
        if kind == "reset":
            depth = where
            with md.reset_rules():
                md.disable("emphasis")
                if depth >= 2:
                    try:
                        with md.reset_rules():
                            md.disable("link")
                            md.enable("emphasis")
                            if nth == 2:
                                raise _Boom()
                    except _Boom:
                        pass
                    # back in the outer block: the inner block's changes must be undone
                    if "link" not in md.get_active_rules()["inline"] or "emphasis" in md.get_active_rules()["inline"]:
                        return {"sig": case[:3], "fail": [{"what": "nested reset_rules block did not restore the rules in force on its entry", "key": "C14/reset-nested"}]}
                md.render(src)
                if nth == 1:
                    raise _Boom()
        else:
            md.render(src)
    except _Boom:
        raised = True
    fails = []
    after = (md.get_active_rules(), {k: v for k, v in md.options.items() if k != "highlight"})
    if after != before:
        fails.append({"what": f"active rules/options changed by the failed call: {kind} {where}", "key": f"C14/{kind}/state"})
    # subsequent parses: user code no longer raises (count passed nth) -> must equal the twin
    try:
        got = [md.render(p) for p in PROBES]
        exp = [twin.render(p) for p in PROBES]
        if got != exp:
            fails.append({"what": f"subsequent renders differ from a pristine twin after {kind} {where} raised at invocation {nth}", "key": f"C14/{kind}/later"})
    except _Boom:
        pass
    return {"sig": (kind, where if not isinstance(where, tuple) else where, nth, raised), "fail": fails}


def c14_cases(tier):
    srcs = PROBES + ["> - a\n>   b\n\n[r]: /u\n\n[r] *x*\n"]
    cases = []
    nmax = 6 if tier == "quick" else 25
    for src in srcs:
        for chain, pos in (("block", ""), ("inline", ""), ("inline2", ""), ("core", "first"), ("core", "last")):
            for nth in range(1, nmax):
                cases.append(("rule", (chain, pos), nth, src))
        for rr in ("text", "paragraph_open", "code_inline", "fence", "link_open", "softbreak", "em_open"):
            for nth in (1, 2, 3):
                cases.append(("render_rule", rr, nth, src))
        for nth in (1, 2):
            cases.append(("highlight", "-", nth, src))
        for depth in (1, 2):
            for nth in (1, 2, 3):
                cases.append(("reset", depth, nth, src))
    return cases


# ---------------------------------------------------------------------------- C12: no hidden shared state
def c12_history(state, cfg, case):
    """case = integer seed. A random API history on live instances, then probes against fresh instances."""
    import random

    rnd = random.Random(case)
    ref_before = [U.make_md(cfg).render(p) for p in PROBES]
    a = U.make_md(cfg)
    b = U.make_md(cfg)
    docs = list(U.random_docs(6, case, 6)) + ["[r]: /u 't'\n\n[r]\n", "- a\n\n    code\n", "    # h\n", "<b>x</b>\n"]
    fails = []
    for _ in range(rnd.randint(2, 8)):
        op = rnd.randint(0, 8)
        d = rnd.choice(docs)
        if op == 0:
            a.render(d)
        elif op == 1:
            a.render(d, {})
        elif op == 2:
            a.parse(d)
        elif op == 3:
            b.options["html"] = not b.options["html"]
            b.options["breaks"] = True
        elif op == 4:
            b.disable(rnd.choice(["emphasis", "list", "code", "heading", "link"]))
        elif op == 5:
            b.add_render_rule("text", lambda self, tokens, idx, options, env: "X")
        elif op == 6:
            b.render(d)
            b.enable(["table", "strikethrough"], True)
        elif op == 8:
            # core-chain rules too: their records must be per instance like everybody else's
            b.disable(rnd.choice(["inline", "text_join", "replacements", "smartquotes"]), True)
        else:
            a.renderInline("*x* [r]")
    # A was only used for parsing: it must behave like a fresh instance
    got = [a.render(p) for p in PROBES]
    if got != ref_before:
        fails.append({"what": "an instance that only parsed documents differs from a fresh identically configured one", "key": "C12/history"})
    if a.render("[r]\n") != U.make_md(cfg).render("[r]\n"):
        fails.append({"what": "reference definitions travelled between calls without a shared env", "key": "C12/env"})
    # mutating B must not change fresh instances / presets
    ref_after = [U.make_md(cfg).render(p) for p in PROBES]
    if ref_after != ref_before:
        fails.append({"what": "configuring one instance changed what a freshly constructed instance returns (shared preset/registry)", "key": "C12/presets"})
    # configuration applied after parsing takes effect like on a fresh instance
    x, y = U.make_md(cfg), U.make_md(cfg)
    x.render(rnd.choice(docs))
    for m in (x, y):
        m.disable("code", True)
        m.enable("table", True)
    probes2 = PROBES + ["    # h\n    > q\n", "a|b\n-|-\n"]
    if [x.render(p) for p in probes2] != [y.render(p) for p in probes2]:
        fails.append({"what": "configuration applied after a first parse behaves differently from the same configuration on a fresh instance", "key": "C12/late-config"})
    # render rules are per instance
    z1 = U.make_md(cfg)
    z1.add_render_rule("code_inline", lambda self, tokens, idx, options, env: "Z")
    z2 = U.make_md(cfg)
    if "Z" in z2.render("`c`"):
        fails.append({"what": "a render rule added to one instance shows up in another", "key": "C12/render-rules"})
    # two instances built from one caller-supplied preset mapping / options mapping share nothing writable with each other
    # or with the caller's object
    from markdown_it import MarkdownIt, presets as _presets

    pre = getattr(_presets, rnd.choice(["commonmark", "default", "zero"])).make()
    snap = repr(pre)
    p1, p2 = MarkdownIt(pre), MarkdownIt(pre)
    before = [p2.render(q) for q in PROBES]
    p1.options["breaks"] = not p1.options["breaks"]
    p1.options["html"] = not p1.options["html"]
    p1.enable(["table"], True)
    if [p2.render(q) for q in PROBES] != before or repr(pre) != snap:
        fails.append({"what": "two instances built from the same preset mapping object: configuring one changed the other / the caller's mapping", "key": "C12/shared-config-object"})
    return {"sig": (case % 997, tuple(got)[0][:20]), "fail": fails}
