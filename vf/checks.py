"""Check functions for the bounded driver: check(state: dict, cfg: str, doc: str) -> {"sig":..., "fail":[...]} | None"""
from __future__ import annotations

import importlib

from . import universe as U
from .monitor import Monitor


def _md(state, cfg):
    key = ("md", cfg)
    if key not in state:
        state[key] = U.make_md(cfg)
    return state[key]


def tok_sig(tokens):
    return tuple((t.type, t.level, tuple(t.map) if t.map else None) for t in tokens)


# ---------------------------------------------------------------------------- C01: no exception
def no_exception(state, cfg, doc):
    md = _md(state, cfg)
    toks = md.parse(doc)
    md.render(doc)
    if "\n" not in doc.strip("\n"):
        md.renderInline(doc)
        md.parseInline(doc)
    return {"sig": tuple(t.type for t in toks)}


# ---------------------------------------------------------------------------- block-rule contracts at run time
BLOCK_RULE_FUNCS = {
    "hr": "markdown_it.rules_block.hr.hr", "heading": "markdown_it.rules_block.heading.heading",
    "lheading": "markdown_it.rules_block.lheading.lheading", "fence": "markdown_it.rules_block.fence.fence",
    "code": "markdown_it.rules_block.code.code", "html_block": "markdown_it.rules_block.html_block.html_block",
    "paragraph": "markdown_it.rules_block.paragraph.paragraph",
}


def _monitored_md(state, cfg):
    key = ("mmd", cfg)
    if key in state:
        return state[key]
    md = U.make_md(cfg)
    B = importlib.import_module("contracts.block")
    log = []
    for rule in md.block.ruler.__rules__:
        q = BLOCK_RULE_FUNCS.get(rule.name)
        if not q or q not in B.REGISTRY:
            continue
        mon = Monitor(B.REGISTRY[q], B.SPECFUNS)
        real = rule.fn

        def wrapper(st, startLine, endLine, silent, _mon=mon, _real=real, _q=q):
            outcome, val, failed, pre_ok = _mon.call(_real, {"state": st, "startLine": startLine, "endLine": endLine, "silent": silent})
            for kind, label in failed:
                log.append((_q, kind, label, startLine, endLine, silent))
            if outcome == "raised":
                raise val
            return val

        rule.fn = wrapper
    md.block.ruler.__cache__ = None
    state[key] = (md, log)
    return state[key]


def block_contracts(state, cfg, doc):
    md, log = _monitored_md(state, cfg)
    del log[:]
    toks = md.parse(doc)
    fails = []
    for q, kind, label, sl, el, silent in log:
        fails.append({"what": f"{q} {kind} {label} (startLine={sl}, endLine={el}, silent={silent})", "key": f"{q}/{kind}/{label}"})
    return {"sig": tok_sig(toks), "fail": fails}
