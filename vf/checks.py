"""Check functions for the bounded driver: check(state: dict, cfg: str, doc: str) -> {"sig":..., "fail":[...]} | None"""
from __future__ import annotations

import importlib

from . import universe as U
from .monitor import Monitor


def _md(state, cfg):
    key = ("md", cfg)
    if key not in state:
        state[key] = U.make_md(cfg)
    return state[key]


def tok_sig(tokens):
    return tuple((t.type, t.level, tuple(t.map) if t.map else None) for t in tokens)


# ---------------------------------------------------------------------------- C01: no exception
def no_exception(state, cfg, doc):
    md = _md(state, cfg)
    toks = md.parse(doc)
    md.render(doc)
    if "\n" not in doc.strip("\n"):
        md.renderInline(doc)
        md.parseInline(doc)
    return {"sig": tuple(t.type for t in toks)}


# ---------------------------------------------------------------------------- block-rule contracts at run time
BLOCK_RULE_FUNCS = {
    "hr": "markdown_it.rules_block.hr.hr", "heading": "markdown_it.rules_block.heading.heading",
    "lheading": "markdown_it.rules_block.lheading.lheading", "fence": "markdown_it.rules_block.fence.fence",
    "code": "markdown_it.rules_block.code.code", "html_block": "markdown_it.rules_block.html_block.html_block",
    "paragraph": "markdown_it.rules_block.paragraph.paragraph",
}


def _monitored_md(state, cfg):
    key = ("mmd", cfg)
    if key in state:
        return state[key]
    md = U.make_md(cfg)
    B = importlib.import_module("contracts.block")
    log = []
    for rule in md.block.ruler.__rules__:
        q = BLOCK_RULE_FUNCS.get(rule.name)
        if not q or q not in B.REGISTRY:
            continue
        mon = Monitor(B.REGISTRY[q], B.SPECFUNS)
        real = rule.fn

        def wrapper(st, startLine, endLine, silent, _mon=mon, _real=real, _q=q):
            outcome, val, failed, pre_ok = _mon.call(_real, {"state": st, "startLine": startLine, "endLine": endLine, "silent": silent})
            for kind, label in failed:
                log.append((_q, kind, label, startLine, endLine, silent))
            if outcome == "raised":
                raise val
            return val

        rule.fn = wrapper
    md.block.ruler.__cache__ = None
    state[key] = (md, log)
    return state[key]


def block_contracts(state, cfg, doc):
    md, log = _monitored_md(state, cfg)
    del log[:]
    toks = md.parse(doc)
    fails = []
    for q, kind, label, sl, el, silent in log:
        fails.append({"what": f"{q} {kind} {label} (startLine={sl}, endLine={el}, silent={silent})", "key": f"{q}/{kind}/{label}"})
    return {"sig": tok_sig(toks), "fail": fails}


# ---------------------------------------------------------------------------- C11: Ruler histories
def _ruler_ref_filter(rules, chain):
    return [r.fn for r in rules if r.enabled and (chain == "" or chain in r.alt)]


RULER_OPS = None


def ruler_ops():
    """operation alphabet of the bounded history check"""
    global RULER_OPS
    if RULER_OPS is None:
        ops = []
        for n in ("a", "b", "zz"):
            for ign in (False, True):
                ops.append(("enable", n, ign))
                ops.append(("disable", n, ign))
        for names in (["a", "zz"], ["zz", "b"], ["b", "a"], []):
            for ign in (False, True):
                ops.append(("enable", tuple(names), ign))
                ops.append(("disable", tuple(names), ign))
                ops.append(("enableOnly", tuple(names), ign))
        ops += [("push", "c", ("x",)), ("push", "b", ()), ("before", "a", "d", ("y",)), ("before", "zz", "d", ()),
                ("after", "b", "e", ("x", "y")), ("after", "zz", "e", ()), ("at", "a", ("y",)), ("at", "zz", ()),
                ("getRules", ""), ("getRules", "x"), ("getRules", "nochain")]
        RULER_OPS = ops
    return RULER_OPS


def ruler_history(state, cfg, doc):
    """doc = tuple of op indices. Runs the history on a real Ruler and on a reference model; RI and the set
    semantics are checked after every step (also after raising calls)."""
    from markdown_it.ruler import Ruler

    ops = ruler_ops()
    r = Ruler()
    fns = {}

    def fn(name):
        return fns.setdefault(name, (lambda *a, _n=name: _n))

    r.push("a", fn("a0"), {"alt": ["x"]})
    r.push("b", fn("b0"), {"alt": ["x", "y"]})
    r.push("b", fn("b1"), {"alt": []})  # duplicate name
    model = [["a", True, fn("a0"), ["x"]], ["b", True, fn("b0"), ["x", "y"]], ["b", True, fn("b1"), []]]
    fails = []
    trace = []

    def find(name):
        for i, m in enumerate(model):
            if m[0] == name:
                return i
        return -1

    for step, oi in enumerate(doc):
        op = ops[oi]
        trace.append(op)
        kind = op[0]
        exp_exc = None
        try:
            if kind in ("enable", "disable", "enableOnly"):
                names, ign = op[1], op[2]
                lst = [names] if isinstance(names, str) else list(names)
                if kind == "enableOnly":
                    for m in model:
                        m[1] = False
                found = []
                for n in lst:
                    i = find(n)
                    if i < 0:
                        if ign:
                            continue
                        exp_exc = KeyError
                        break
                    model[i][1] = kind != "disable"
                    found.append(n)
                got = getattr(r, kind)(list(names) if not isinstance(names, str) else names, ign)
                if exp_exc is None and got != found:
                    fails.append({"what": f"{kind} returned {got}, expected {found}", "key": "ruler/result"})
            elif kind == "push":
                model.append([op[1], True, fn(op[1] + "p"), list(op[2])])
                r.push(op[1], fn(op[1] + "p"), {"alt": list(op[2])})
            elif kind in ("before", "after"):
                i = find(op[1])
                if i < 0:
                    exp_exc = KeyError
                else:
                    model.insert(i + (kind == "after"), [op[2], True, fn(op[2] + kind), list(op[3])])
                getattr(r, kind)(op[1], op[2], fn(op[2] + kind), {"alt": list(op[3])})
            elif kind == "at":
                i = find(op[1])
                if i < 0:
                    exp_exc = KeyError
                else:
                    model[i][2], model[i][3] = fn(op[1] + "at"), list(op[2])
                r.at(op[1], fn(op[1] + "at"), {"alt": list(op[2])})
            elif kind == "getRules":
                r.getRules(op[1])
            if exp_exc is not None:
                fails.append({"what": f"step {step} {op}: expected {exp_exc.__name__}, none raised", "key": "ruler/no-raise"})
        except KeyError:
            if exp_exc is not KeyError:
                fails.append({"what": f"step {step} {op}: unexpected KeyError", "key": "ruler/unexpected-raise"})
        # reported == model (set semantics)
        rep = [(x.name, x.enabled, x.fn, list(x.alt)) for x in r.__rules__]
        if rep != [tuple(m[:3]) + (m[3],) for m in model]:
            fails.append({"what": f"after {trace}: rules {[(a, b) for a, b, _, _ in rep]} != model {[(m[0], m[1]) for m in model]}", "key": "ruler/set-semantics"})
            break
        if r.get_active_rules() != [m[0] for m in model if m[1]] or r.get_all_rules() != [m[0] for m in model]:
            fails.append({"what": f"after {trace}: get_active_rules/get_all_rules disagree with the rule records", "key": "ruler/reported"})
        # RI: a non-None cache agrees with Filter for every chain
        cache = r.__cache__
        if cache is not None:
            for c in ("", "x", "y", "nochain"):
                if (cache.get(c, []) or []) != _ruler_ref_filter(r.__rules__, c):
                    fails.append({"what": f"after {trace}: stale cache for chain {c!r}", "key": "ruler/RI"})
                    break
        # applied == reported
        for c in ("", "x", "y", "nochain"):
            if r.getRules(c) != _ruler_ref_filter(r.__rules__, c):
                fails.append({"what": f"after {trace}: getRules({c!r}) != enabled rules filtered by chain", "key": "ruler/applied"})
                break
        if fails:
            break
    return {"sig": tuple((m[0], m[1]) for m in model) + (cache is None,), "fail": [dict(f, input=[list(map(str, t)) for t in trace]) for f in fails]}
