"""Statement execution for pyvc: assignments, control flow, loops cut at invariants, try/except, raise."""
from __future__ import annotations

import ast

import z3

from .core import *  # noqa: F401,F403
from .vals import *  # noqa: F401,F403
from .vals import SEQ, ROWS, INTARR, StrSeqP, IntRowsP, MapSeqP, SetP, VMapSlot
from .ev_expr import UNBOUND, BoolishV, StrListP
from .schema import SCHEMA

ALT_LEN = z3.Function("AltLen", z3.IntSort(), z3.IntSort())
ALT_ELEM = z3.Function("AltElem", z3.IntSort(), z3.IntSort(), z3.IntSort())
ALT_IDX = z3.Function("AltIdx", z3.IntSort(), z3.IntSort(), z3.IntSort())

MUTATORS = {"append", "extend", "insert", "pop", "clear", "update", "setdefault", "sort", "remove", "add"}


def assigned_names(nodes) -> set[str]:
    out = set()
    for n in nodes:
        for x in ast.walk(n):
            if isinstance(x, ast.Name) and isinstance(x.ctx, (ast.Store, ast.Del)):
                out.add(x.id)
    return out


def attr_path(node) -> str | None:
    """'state.line' for Attribute(Name state, line); 'state.bMarks' for Subscript(Attribute...)"""
    if isinstance(node, ast.Name):
        return node.id
    if isinstance(node, ast.Attribute):
        b = attr_path(node.value)
        return None if b is None else b + "." + node.attr
    if isinstance(node, ast.Subscript):
        return attr_path(node.value)
    return None


SPEC_NAMES = {"bound", "old", "forall", "exists", "implies", "iff", "ite", "len", "min", "max", "abs", "ord", "chr", "result", "True", "False", "None", "ntokens", "new_tokens", "strfun", "aslist",
              "cache_get", "forall_atoms", "altlen", "altelem", "ischar", "int", "str", "bool", "value", "index"}


def alias_sources(loop, root):
    """heap paths of the lists a local bound inside the loop may point into; unknown=True when some binding is neither a
    list element nor a call result (a call returns a fresh object or is covered by the callee's modifies clause)"""
    srcs, unknown = set(), False

    def from_iter(it):
        nonlocal unknown
        while isinstance(it, ast.Call) and isinstance(it.func, ast.Name) and it.func.id in ("enumerate", "reversed", "list") and it.args:
            it = it.args[0]
        if isinstance(it, ast.Call):
            return
        p = attr_path(it)
        if p:
            srcs.add(p)
        else:
            unknown = True

    for n in ast.walk(loop):
        if isinstance(n, ast.For) and root in assigned_names([n.target]):
            from_iter(n.iter)
        elif isinstance(n, (ast.Assign, ast.AnnAssign)):
            targets = n.targets if isinstance(n, ast.Assign) else [n.target]
            if any(isinstance(t, ast.Name) and t.id == root for t in targets) and n.value is not None:
                v = n.value
                if isinstance(v, ast.Subscript):
                    p = attr_path(v.value)
                    if p:
                        srcs.add(p)
                    else:
                        unknown = True
                elif isinstance(v, (ast.Call, ast.Constant)):
                    pass
                else:
                    unknown = True
    return srcs, unknown


class StmtMixin:
    def exec_block(self, stmts, fr):
        for st in stmts:
            self.exec(st, fr)

    def exec(self, st, fr):
        m = getattr(self, "s_" + type(st).__name__, None)
        if m is None:
            raise Unsupported(f"statement {type(st).__name__} at line {st.lineno}")
        self.cur_stmt = st
        return m(st, fr)

    # ------------------------------------------------------------------ simple statements
    def s_Pass(self, st, fr):
        pass

    def s_Expr(self, st, fr):
        if isinstance(st.value, ast.Constant):
            return  # docstring
        self.eval(st.value, fr)

    def s_Return(self, st, fr):
        v = self.eval(st.value, fr) if st.value is not None else NONE
        if fr is self.frames[0] and any(p == "return" for p, _, _ in (self.contract.at or [])):
            self.check_at(st, fr, "return", v)
        r = ReturnSig(v)
        r.node = st
        raise r

    def s_Break(self, st, fr):
        raise BreakSig()

    def s_Continue(self, st, fr):
        raise ContinueSig()

    def s_Assign(self, st, fr):
        lt = ((fr.contract.ghost or {}).get("local_types") or {}) if getattr(fr, "contract", None) is not None else {}
        if lt and len(st.targets) == 1 and isinstance(st.targets[0], ast.Name) and st.targets[0].id in lt and (
                (isinstance(st.value, ast.Dict) and not st.value.keys) or (isinstance(st.value, ast.List) and not st.value.elts)):
            # an empty literal bound to a local whose element type the contract declares: symbolic empty container from the start
            ty = lt[st.targets[0].id]
            n = self.new_ref(st.targets[0].id)
            if ty.startswith("introws:") and isinstance(st.value, ast.Dict):
                self.payload[n] = IntRowsP(z3.K(z3.IntSort(), z3.BoolVal(False)), z3.Const(n + "!rows", ROWS), int(ty.split(":")[1]))
                fr.locals[st.targets[0].id] = VDict(n)
                return
            if ty == "intlist" and isinstance(st.value, ast.List):
                fr.locals[st.targets[0].id] = self.new_list(IntListP(z3.Array(n, z3.IntSort(), z3.IntSort()), z3.IntVal(0), "int"), n)
                return
            raise Unsupported(f"local type {ty}")
        v = self.eval(st.value, fr)
        for t in st.targets:
            self.assign(t, v, fr, st)

    def s_AnnAssign(self, st, fr):
        if st.value is None:
            return
        ann = ast.unparse(st.annotation)
        if isinstance(st.value, ast.List) and not st.value.elts and ann == "list[str]" and ((fr.contract.ghost or {}).get("local_types") or {}).get(ast.unparse(st.target)) == "strseq":
            n = self.new_ref(ast.unparse(st.target).replace(".", "_"))
            p = self.fresh_strseq(n)
            p.len = z3.IntVal(0)
            self.payload[n] = p
            self.assign(st.target, VList(n), fr, st)
            return
        if isinstance(st.value, ast.List) and not st.value.elts and ann in ("list[int]", "list[str]"):
            # an annotated empty list of ints / names: a symbolic (array, length 0) list from the start
            n = self.new_ref(ast.unparse(st.target).replace(".", "_"))
            v = self.new_list(IntListP(z3.Array(n, z3.IntSort(), z3.IntSort()), z3.IntVal(0), "int" if ann == "list[int]" else "atom"), n)
            self.assign(st.target, v, fr, st)
            return
        if isinstance(st.value, ast.List) and not st.value.elts and ann == "list[Token]":
            # a local list that collects token records
            n = self.new_ref(ast.unparse(st.target).replace(".", "_"))
            fields = {f: z3.Array(f"{n}.{f}", z3.IntSort(), z3.BoolSort() if fty == "bool" else z3.IntSort()) for f, fty in SCHEMA["TokenA"].items()}
            self.assign(st.target, self.new_list(RecListP(z3.IntVal(0), "TokenA", fields), n), fr, st)
            return
        if isinstance(st.value, ast.Dict) and not st.value.keys and ann.startswith("dict[str, list["):
            ref = self.new_ref(ast.unparse(st.target).replace(".", "_"))
            self.payload[ref] = MapSeqP(z3.K(z3.IntSort(), z3.BoolVal(False)), z3.K(z3.IntSort(), z3.Empty(SEQ)))
            self.assign(st.target, VDict(ref), fr, st)
            return
        v = self.eval(st.value, fr)
        self.assign(st.target, v, fr, st)

    def s_AugAssign(self, st, fr):
        load = copy_load(st.target)
        cur = self.eval(load, fr)
        rhs = self.eval(st.value, fr)
        v = self.binop(st.op, cur, rhs, st, fr)
        self.assign(st.target, v, fr, st)

    def assign(self, target, v, fr, st):
        if isinstance(v, BoolishV):
            v = v.as_value()
        if isinstance(target, ast.Name):
            fr.locals[target.id] = v
            self.lemma_hook(fr, target.id)
            return
        if isinstance(target, ast.Tuple):
            if isinstance(v, VTuple) and len(v.items) == len(target.elts):
                for t, x in zip(target.elts, v.items):
                    self.assign(t, x, fr, st)
                return
            raise Unsupported("tuple unpacking")
        if isinstance(target, ast.Attribute):
            base = self.eval(target.value, fr)
            if isinstance(base, VObj):
                self.check_at(st, fr, "store:" + target.attr, v)
                self.set_field(base, target.attr, v)
                return
            if isinstance(base, VElem):
                self.check_at(st, fr, "store:" + target.attr, v)
                p = self.mut_payload(base.lst)
                if target.attr not in p.fields:
                    raise Unsupported(f"record field {target.attr}")
                v = self.coerce(p.cls, target.attr, v)
                tv = v.t if isinstance(v, (VBool, VInt, VAtom)) else None
                if tv is None:
                    raise Unsupported(f"store {v!r} into record field")
                p.fields[target.attr] = z3.Store(p.fields[target.attr], base.idx, tv)
                return
            raise Unsupported(f"attribute store on {base!r}")
        if isinstance(target, ast.Subscript):
            base = self.eval(target.value, fr)
            idx = self.eval(target.slice, fr) if not isinstance(target.slice, ast.Slice) else None
            if idx is None:
                raise Unsupported("slice store")
            if isinstance(target.value, ast.Attribute):
                self.check_at(st, fr, "store[]:" + target.value.attr, v, index=idx, node=target)
            elif isinstance(target.value, ast.Name):
                self.check_at(st, fr, "store[]:" + target.value.id, v, index=idx, node=target)
            self.store_index(base, idx, v, target, fr)
            return
        raise Unsupported(f"assignment target {type(target).__name__}")

    def store_index(self, base, idx, v, node, fr):
        if isinstance(base, VList):
            p = self.mut_payload(base.ref) if base.ref in self.payload0 or base.ref in self.payload else None
            p = self.payload.get(base.ref) or self.mut_payload(base.ref)
            if isinstance(p, PyListP):
                i = z3.simplify(self.as_int(idx))
                if z3.is_int_value(i) and -len(p.items) <= i.as_long() < len(p.items):
                    p.items[i.as_long()] = v
                    return
                raise Unsupported("symbolic store into literal list")
            i = self.as_int(idx)
            n = self.list_len(p)
            self.safe_or_raise(z3.And(i >= -n, i < n), "IndexError", node, fr, "subscript")
            j = z3.simplify(self.norm_index(i, n))
            if isinstance(p, IntListP):
                p.arr = z3.Store(p.arr, j, v.t if isinstance(v, (VInt, VAtom)) else self.as_int(v))
                return
            if isinstance(p, StrListP):
                p.writes.append((j, v))
                return
            if isinstance(p, RecListP) and (isinstance(v, VElem) or (isinstance(v, VTuple) and getattr(v, "cls", None) == p.cls)):
                self.detach_aliases(base.ref, j, p)
            if isinstance(p, RecListP) and isinstance(v, VTuple) and getattr(v, "cls", None) == p.cls:
                for fname, val in zip(list(SCHEMA[p.cls]), v.items):
                    p.fields[fname] = z3.Store(p.fields[fname], j, val.t)
                return
            if isinstance(p, RecListP) and isinstance(v, VElem) and v.cls == p.cls:
                # an element of a record list stored at another index: the fields are copied (value semantics; sound as long as
                # neither alias is written afterwards through the other - the contract states list elements are distinct on entry)
                src_p = self.get_payload(v.lst)
                vals = {f: z3.Select(src_p.fields[f], v.idx) for f in SCHEMA[p.cls]}
                for fname, t in vals.items():
                    p.fields[fname] = z3.Store(p.fields[fname], j, t)
                return
            raise Unsupported(f"store into {type(p).__name__}")
        return self.store_index_special(base, idx, v, node, fr)

    def detach_aliases(self, ref, j, p):
        """the object at position j of a record list is about to be replaced: locals that denote that object (bound by
        `x = lst[j]`) keep denoting it, so they become detached snapshots of its fields.  The index relation must be
        decidable on the path (same position / provably different); anything else is out of reach."""
        for frame in self.frames:
            for name, val in list(frame.locals.items()):
                if not (isinstance(val, VElem) and val.lst == ref):
                    continue
                same = z3.simplify(val.idx == j)
                if z3.is_false(same):
                    continue
                if not z3.is_true(same):
                    if not self.feasible(val.idx == j):
                        continue
                    if self.feasible(val.idx != j):
                        raise Unsupported(f"record store may or may not replace the object local {name} refers to")
                items = []
                for fname, fty in SCHEMA[p.cls].items():
                    t = z3.Select(p.fields[fname], val.idx)
                    items.append(VBool(t) if fty == "bool" else (VInt(t) if fty == "int" else VAtom(t)))
                snap = VTuple(items)
                snap.cls = p.cls
                frame.locals[name] = snap

    def store_index_special(self, base, idx, v, node, fr):
        if isinstance(base, VDict) and isinstance(self.get_payload(base.ref), MapSeqP):
            p = self.mut_payload(base.ref) if base.ref not in self.payload else self.payload[base.ref]
            k = self.atom_term(idx)
            if isinstance(v, VList) and isinstance(self.get_payload(v.ref), PyListP) and not self.get_payload(v.ref).items:
                sv = z3.Empty(SEQ)
            elif isinstance(v, VSeqZ):
                sv = v.t
            else:
                raise Unsupported("store of a non-empty list into a dict of lists")
            p.keys = z3.Store(p.keys, k, z3.BoolVal(True))
            p.vals = z3.Store(p.vals, k, sv)
            self.on_payload_write(base.ref, node, fr)
            return
        if isinstance(base, VDict) and isinstance(self.get_payload(base.ref), IntMapP):
            p = self.mut_payload(base.ref) if base.ref not in self.payload else self.payload[base.ref]
            k = self.as_int(idx)
            p.keys = z3.Store(p.keys, k, z3.BoolVal(True))
            p.vals = z3.Store(p.vals, k, self.as_int(v))
            return
        if isinstance(base, VDict) and isinstance(self.get_payload(base.ref), IntRowsP):
            p = self.mut_payload(base.ref) if base.ref not in self.payload else self.payload[base.ref]
            k = self.as_int(idx)
            lp = self.get_payload(v.ref) if isinstance(v, VList) else None
            if not (isinstance(lp, PyListP) and len(lp.items) == p.rowlen and all(isinstance(x, (VInt, VBool)) for x in lp.items)):
                raise Unsupported(f"row store: expected a literal list of {p.rowlen} ints")
            row = z3.Select(p.vals, k)
            for j, x in enumerate(lp.items):
                row = z3.Store(row, z3.IntVal(j), self.as_int(x))
            p.keys = z3.Store(p.keys, k, z3.BoolVal(True))
            p.vals = z3.Store(p.vals, k, row)
            return
        if isinstance(base, VMapSlot) and isinstance(self.get_payload(base.ref), IntRowsP):
            p = self.mut_payload(base.ref) if base.ref not in self.payload else self.payload[base.ref]
            i = self.as_int(idx)
            self.safe_or_raise(z3.And(i >= -p.rowlen, i < p.rowlen), "IndexError", node, fr, "subscript")
            j = z3.simplify(self.norm_index(i, z3.IntVal(p.rowlen)))
            p.vals = z3.Store(p.vals, base.key, z3.Store(z3.Select(p.vals, base.key), j, self.as_int(v)))
            return
        if isinstance(base, VObj) and base.cls in ("<opaque>", "<optlist>", "<map>"):
            # a store into an opaque mapping (env and what hangs off it): outside the modelled heap; the contract of the
            # function says nothing about it and nothing modelled can alias it
            self.opaque_epoch += 1
            self.assumption_log.add("stores into opaque mappings (env) do not alias modelled state")
            return
        raise Unsupported(f"subscript store on {base!r}")

    def s_Delete(self, st, fr):
        # del lst[a:] on a record list: the length becomes min(len, clamp(a))
        if len(st.targets) == 1 and isinstance(st.targets[0], ast.Subscript) and isinstance(st.targets[0].slice, ast.Slice):
            sl = st.targets[0].slice
            base = self.eval(st.targets[0].value, fr)
            if isinstance(base, VList) and sl.upper is None and sl.step is None and sl.lower is not None:
                p = self.payload.get(base.ref) or self.mut_payload(base.ref)
                if isinstance(p, (RecListP, IntListP)):
                    a = self.as_int(self.eval(sl.lower, fr))
                    n = self.list_len(p)
                    a = z3.If(a < 0, z3.If(a + n < 0, z3.IntVal(0), a + n), a)
                    p.len = z3.simplify(z3.If(a < n, a, n))
                    return
        raise Unsupported("del")

    def s_Assert(self, st, fr):
        c = self.truth(self.eval(st.test, fr))
        self.safe_or_raise(c, "AssertionError", st, fr, "assert")

    def s_Raise(self, st, fr):
        if st.exc is None:
            raise Unsupported("re-raise")
        exc = st.exc
        name = None
        if isinstance(exc, ast.Call) and isinstance(exc.func, ast.Name):
            name = exc.func.id
        elif isinstance(exc, ast.Name):
            name = exc.id
        if name is None:
            raise Unsupported("raise of a computed exception")
        self.covered_sites.add(fr.ords.of(st, "raise"))
        raise RaiseSig(name, fr.ords.of(st, "raise"), False)

    def s_Global(self, st, fr):
        raise Unsupported("global")

    # ------------------------------------------------------------------ if
    def s_If(self, st, fr):
        c = self.truth(self.eval(st.test, fr))
        if self.branch(c):
            self.exec_block(st.body, fr)
        else:
            self.exec_block(st.orelse, fr)

    # ------------------------------------------------------------------ try
    def s_Try(self, st, fr):
        if st.finalbody:
            return self.try_finally(st, fr)
        names_per_handler = []
        for h in st.handlers:
            if h.type is None:
                names_per_handler.append([])
            elif isinstance(h.type, ast.Name):
                names_per_handler.append([h.type.id])
            elif isinstance(h.type, ast.Tuple):
                names_per_handler.append([e.id for e in h.type.elts if isinstance(e, ast.Name)])
            else:
                raise Unsupported("except clause")
        allnames = [n for ns in names_per_handler for n in ns]
        self.try_stack.append(allnames if all(names_per_handler) else [])
        try:
            try:
                self.exec_block(st.body, fr)
            finally:
                self.try_stack.pop()
        except RaiseSig as e:
            for h, ns in zip(st.handlers, names_per_handler):
                if exc_matches(e.exc, ns):
                    if h.name:
                        fr.locals[h.name] = VObj(self.new_ref("exc"), "<opaque>")
                    self.exec_block(h.body, fr)
                    return
            raise
        self.exec_block(st.orelse, fr)

    def try_finally(self, st, fr):
        # any exception (incl. from user code) and any control transfer runs the finally block
        inner = ast.Try(body=st.body, handlers=st.handlers, orelse=st.orelse, finalbody=[])
        ast.copy_location(inner, st)
        self.try_stack.append(["BaseException"])  # finally intercepts everything
        pending = None
        try:
            try:
                if st.handlers:
                    self.s_Try(inner, fr)
                else:
                    self.exec_block(st.body, fr)
            finally:
                self.try_stack.pop()
        except (RaiseSig, ReturnSig, BreakSig, ContinueSig) as sig:
            pending = sig
        self.exec_block(st.finalbody, fr)
        if pending is not None:
            raise pending

    # ------------------------------------------------------------------ loops
    def loop_contract(self, st, fr):
        k = fr.ords.loop[id(st)]
        lc = fr.contract.loops.get(k)
        return k, lc

    def s_While(self, st, fr):
        k, lc = self.loop_contract(st, fr)
        if lc is None:
            raise Unsupported(f"loop #{k} of {fr.qualname} has no invariant")
        if st.orelse:
            raise Unsupported("while-else")
        self.run_loop(st, fr, k, lc, cond=lambda: self.truth(self.eval(st.test, fr)), pre_body=None, step=None)

    def s_For(self, st, fr):
        k, lc = self.loop_contract(st, fr)
        it = self.eval(st.iter, fr)
        items = None
        if isinstance(it, VTuple):
            items = it.items
        elif isinstance(it, VList) and isinstance(self.get_payload(it.ref), PyListP):
            items = list(self.get_payload(it.ref).items)
        if items is not None and (lc is None or lc.get("unroll")) and len(items) <= 8:
            # a loop over a literal of known length is unrolled (no invariant needed)
            broke = False
            for x in items:
                self.assign(st.target, x, fr, st)
                try:
                    self.exec_block(st.body, fr)
                except ContinueSig:
                    continue
                except BreakSig:
                    broke = True
                    break
            if st.orelse and not broke:
                self.exec_block(st.orelse, fr)
            return
        if lc is None:
            raise Unsupported(f"loop #{k} of {fr.qualname} has no invariant")
        ghost = f"_it{k}"
        mode, aux = self.iter_mode(it, fr)
        if mode == "set":
            return self.for_over_set(st, fr, k, lc, aux)
        fr.locals[ghost] = VInt(0)

        def cond():
            i = fr.locals[ghost].t
            return i < self.iter_len(mode, aux)

        def pre_body():
            i = fr.locals[ghost].t
            self.assign(st.target, self.iter_item(mode, aux, i, st, fr), fr, st)

        def step():
            fr.locals[ghost] = VInt(fr.locals[ghost].t + 1)

        broke = self.run_loop(st, fr, k, lc, cond, pre_body, step, ghost=ghost)
        if st.orelse and not broke:
            self.exec_block(st.orelse, fr)

    def alt_axioms(self):
        """Mem(l, c) <=> exists j < AltLen(l). AltElem(l, j) == c   (for every opaque list value l)"""
        if ("altaxioms",) in self.unfolded:
            return
        self.unfolded.add(("altaxioms",))
        from .ev_expr import MEM

        l, c, j = z3.Int("q_l"), z3.Int("q_c"), z3.Int("q_j")
        self.assume(z3.ForAll([l], ALT_LEN(l) >= 0, patterns=[ALT_LEN(l)]))
        self.assume(z3.ForAll([l, j], z3.Implies(z3.And(0 <= j, j < ALT_LEN(l)), MEM(l, ALT_ELEM(l, j))), patterns=[ALT_ELEM(l, j)]))
        self.assume(z3.ForAll([l, c], z3.Implies(MEM(l, c), z3.And(0 <= ALT_IDX(l, c), ALT_IDX(l, c) < ALT_LEN(l), ALT_ELEM(l, ALT_IDX(l, c)) == c)), patterns=[MEM(l, c)]))

    def for_over_set(self, st, fr, k, lc, setv):
        """`for x in <set>`: each element once, in an arbitrary order. Ghost set _done<k> = elements already visited;
        an iteration picks any x with x in S and x not in _done; the loop ends when _done == S."""
        dname = f"_done{k}"
        ref = self.new_ref(dname)
        self.payload[ref] = SetP(z3.K(z3.IntSort(), z3.BoolVal(False)))
        fr.locals[dname] = VDict(ref)
        pick = {}

        def cond():
            x = fresh(f"pick{k}")
            pick["x"] = x
            S_ = self.get_payload(setv.ref).mem
            D_ = self.get_payload(fr.locals[dname].ref).mem
            c = fresh("c")
            more = z3.Exists([c], z3.And(z3.Select(S_, c), z3.Not(z3.Select(D_, c))))
            # when there is more, x is such an element
            self.assume(z3.Implies(more, z3.And(z3.Select(S_, x), z3.Not(z3.Select(D_, x)))))
            return more

        def pre_body():
            self.assign(st.target, VAtom(pick["x"]), fr, st)

        def step():
            d = fr.locals[dname]
            p = self.payload[d.ref]
            p.mem = z3.Store(p.mem, pick["x"], z3.BoolVal(True))

        broke = self.run_loop(st, fr, k, lc, cond, pre_body, step, ghost=None, extra_havoc=[dname])
        if st.orelse and not broke:
            self.exec_block(st.orelse, fr)

    def iter_mode(self, it, fr):
        if isinstance(it, VRange):
            return "range", it
        if isinstance(it, VEnum):
            m, a = self.iter_mode(it.seq, fr)
            return "enum", (m, a)
        if isinstance(it, VStr):
            return "str", it
        if isinstance(it, VList):
            return "list", it
        if isinstance(it, VTuple):
            return "tuple", it
        if isinstance(it, VSeqZ):
            return "seqz", it
        return self.iter_mode_special(it, fr)

    def iter_mode_special(self, it, fr):
        if isinstance(it, VDict) and isinstance(self.get_payload(it.ref), SetP):
            return "set", it
        if isinstance(it, VAtom):
            # an opaque immutable list value (Rule.alt): length and elements are uninterpreted, linked to Mem by
            # Mem(l, c) <=> exists j < len(l). elem(l, j) == c
            self.alt_axioms()
            return "altlist", it
        if isinstance(it, VObj) and it.cls == "<opaque>":
            ln = z3.Int(f"len({it.ref})")
            self.assume_axiom(ln >= 0)
            return "opaque", (it, ln)
        raise Unsupported(f"iteration over {it!r}")

    def iter_len(self, mode, aux):
        if mode == "range":
            return z3.If(aux.hi > aux.lo, aux.hi - aux.lo, 0)
        if mode == "enum":
            return self.iter_len(*aux)
        if mode == "str":
            return aux.length()
        if mode == "list":
            return self.list_len(self.get_payload(aux.ref))
        if mode == "tuple":
            return z3.IntVal(len(aux.items))
        if mode == "seqz":
            return z3.Length(aux.t)
        if mode == "opaque":
            return aux[1]
        if mode == "altlist":
            return ALT_LEN(aux.t)
        raise Unsupported(mode)

    def iter_item(self, mode, aux, i, st, fr):
        if mode == "range":
            return VInt(aux.hi - 1 - i) if aux.rev else VInt(aux.lo + i)
        if mode == "enum":
            return VTuple([VInt(i), self.iter_item(aux[0], aux[1], i, st, fr)])
        if mode == "str":
            c = aux.char(i)
            self.assume_axiom(z3.And(c >= 0, c <= 0x10FFFF))
            return VStr.chr(c)
        if mode == "list":
            self.spec_mode += 1  # in-range by the loop condition: no SAFE obligation
            try:
                return self.index(aux, VInt(i), st, fr)
            finally:
                self.spec_mode -= 1
        if mode == "tuple":
            iv = z3.simplify(i)
            if z3.is_int_value(iv):
                return aux.items[iv.as_long()]
            raise Unsupported("symbolic iteration over tuple")
        if mode == "seqz":
            return VAtom(aux.t[i])
        if mode == "opaque":
            return VObj(self.new_ref(aux[0].ref + "[i]"), "<opaque>")
        if mode == "altlist":
            return VAtom(ALT_ELEM(aux.t, i))
        raise Unsupported(mode)

    def havoc_targets(self, st, fr):
        """names assigned and heap paths written (syntactically) in the loop, incl. callee modifies"""
        names = assigned_names(st.body if not isinstance(st, ast.For) else st.body + [st.target])
        if isinstance(st, ast.For):
            names |= assigned_names([st.target])
        heap_paths = set()
        for n in ast.walk(st):
            if isinstance(n, (ast.Assign, ast.AugAssign, ast.AnnAssign)):
                targets = n.targets if isinstance(n, ast.Assign) else [n.target]
                for t in targets:
                    if isinstance(t, (ast.Attribute, ast.Subscript)):
                        p = attr_path(t)
                        if p:
                            heap_paths.add(p)
            if isinstance(n, ast.Call) and isinstance(n.func, ast.Attribute):
                if n.func.attr in MUTATORS:
                    p = attr_path(n.func.value)
                    if p:
                        heap_paths.add(p)
                callee = self.static_callee(n, fr)
                if callee is not None:
                    heap_paths |= self.callee_modifies_paths(callee, n, fr)
            elif isinstance(n, ast.Call):
                callee = self.static_callee(n, fr)
                if callee is not None:
                    heap_paths |= self.callee_modifies_paths(callee, n, fr)
        # stores through a local that aliases an element of a list (`rule.enabled = ...` with `for rule in self.__rules__`,
        # `opener = delimiters[i]; opener.end = ...`): the list itself is written
        for p in sorted(heap_paths):
            root, _, rest = p.partition(".")
            if not rest:
                continue
            cur = fr.locals.get(root, UNBOUND)
            if isinstance(cur, VElem):
                heap_paths.add("@payload:" + cur.lst)
            if root in names:
                srcs, unknown = alias_sources(st, root)
                heap_paths |= srcs
                if unknown:
                    raise Unsupported(f"loop writes through local {root} whose binding inside the loop is not a list element or a call result")
        return names, heap_paths

    def havoc_value(self, v, name, types):
        ty = types.get(name.split(".")[-1]) or types.get(name)
        if ty:
            return self.sym_for_type(ty, self.new_ref(name))
        if isinstance(v, VInt):
            return VInt(fresh(name))
        if isinstance(v, VBool):
            return VBool(fresh(name, "bool"))
        if isinstance(v, VAtom):
            return VAtom(fresh(name))
        if isinstance(v, VStr) and v.kind == "chr":
            return self.sym_for_type("char", self.new_ref(name))
        if isinstance(v, VStr) and v.kind == "lit" and len(v.a) == 1:
            return self.sym_for_type("char", self.new_ref(name))
        if isinstance(v, VStr):
            return self.sym_for_type("str", self.new_ref(name))
        if isinstance(v, VOpt):
            if isinstance(v.some, VInt):
                return self.sym_for_type("optint", self.new_ref(name))
            if isinstance(v.some, VStr):
                return self.sym_for_type("optchar", self.new_ref(name))
        if isinstance(v, VList):
            self.havoc_payload(v.ref, name)
            return v
        if isinstance(v, VDict) and isinstance(self.get_payload(v.ref), (SetP, MapSeqP, IntMapP, IntRowsP)):
            self.havoc_payload(v.ref, name)
            return v
        if v is UNBOUND or v is None:
            return UNBOUND
        if isinstance(v, (VObj, VFunc, VTuple, VNone, VElem)) and name in getattr(self, "_for_targets", ()):
            return UNBOUND  # re-assigned at the start of every iteration
        if isinstance(v, (VObj, VFunc, VTuple, VNone, VElem)):
            raise ContractError(f"loop variable {name} of kind {type(v).__name__} needs a declared type in the loop contract")
        raise Unsupported(f"havoc of {v!r}")

    def havoc_payload(self, ref, name):
        p = self.get_payload(ref)
        if isinstance(p, IntListP):
            n = self.new_ref(name)
            ln = z3.Int(f"len({n})")
            self.payload[ref] = IntListP(z3.Array(n, z3.IntSort(), z3.IntSort()), ln, p.elem)
            self.assume_axiom(ln >= 0)
        elif isinstance(p, RecListP):
            n = self.new_ref(name)
            ln = z3.Int(f"len({n})")
            self.payload[ref] = RecListP(ln, p.cls, {f: z3.Array(f"{n}.{f}", z3.IntSort(), a.sort().range()) for f, a in p.fields.items()})
            self.assume_axiom(ln >= 0)
        elif isinstance(p, StrSeqP):
            self.payload[ref] = self.fresh_strseq(self.new_ref(name))
        elif isinstance(p, StrListP):
            self.payload[ref] = StrListP(p.len, p.init)
        elif isinstance(p, PyListP) and all(isinstance(x, (VAtom, VInt)) or (isinstance(x, VStr) and x.kind == "lit") for x in p.items):
            # a local list of names/ints that grows in the loop: becomes a symbolic (array, length) list
            n = self.new_ref(name)
            ln = z3.Int(f"len({n})")
            elem = "int" if p.items and all(isinstance(x, VInt) for x in p.items) else "atom"
            self.payload[ref] = IntListP(z3.Array(n, z3.IntSort(), z3.IntSort()), ln, elem)
            self.assume_axiom(ln >= 0)
        elif isinstance(p, GhostSeqP):
            # tokens appended in a loop: the ghost tail is forgotten, only "the stream grew" remains
            n = self.new_ref(name)
            ln = z3.Int(f"len({n})")
            self.assume_axiom(ln >= p.tail_len)
            self.payload[ref] = GhostSeqP(p.base_len, p.items, True, ln, [])
        elif isinstance(p, IntMapP):
            n = self.new_ref(name)
            self.payload[ref] = IntMapP(z3.Array(n + "?in", z3.IntSort(), z3.BoolSort()), z3.Array(n, z3.IntSort(), z3.IntSort()))
        elif isinstance(p, IntRowsP):
            n = self.new_ref(name)
            self.payload[ref] = IntRowsP(z3.Array(n + "?in", z3.IntSort(), z3.BoolSort()), z3.Const(n + "!rows", ROWS), p.rowlen)
        elif isinstance(p, MapSeqP):
            n = self.new_ref(name)
            self.payload[ref] = MapSeqP(z3.Array(n + "?in", z3.IntSort(), z3.BoolSort()), z3.Array(n, z3.IntSort(), SEQ))
        elif isinstance(p, SetP):
            n = self.new_ref(name)
            self.payload[ref] = SetP(z3.Array(n, z3.IntSort(), z3.BoolSort()))
        else:
            raise Unsupported(f"havoc of {type(p).__name__}")

    def havoc_heap_path(self, path: str, fr, types):
        if path.startswith("@payload:"):
            self.havoc_payload(path[len("@payload:"):], path[len("@payload:"):])
            return
        parts = path.split(".")
        root = parts[0]
        if root not in fr.locals:
            return
        v = fr.locals[root]
        if len(parts) == 1:
            if isinstance(v, VList):
                self.havoc_payload(v.ref, root)
            elif isinstance(v, VDict) and isinstance(self.get_payload(v.ref), (SetP, MapSeqP, IntMapP, IntRowsP)):
                self.havoc_payload(v.ref, root)
            elif isinstance(v, VDict):
                raise Unsupported(f"loop mutates the literal dict {root}")
            return
        for f in parts[1:-1]:
            if not isinstance(v, VObj):
                return
            v = self.get_field(v, f)
        last = parts[-1]
        if isinstance(v, VObj):
            if v.cls in SCHEMA and last in SCHEMA[v.cls]:
                cur = self.get_field(v, last)
                sty = SCHEMA[v.cls][last]
                if sty == "intmap":
                    self.havoc_payload(cur.ref, path)
                elif sty in ("int", "bool", "atom", "str", "cache", "opaque", "map", "optlist") and not types.get(last):
                    self.heap[(v.ref, last)] = self.sym_for_type(sty, self.new_ref(path))
                elif isinstance(cur, VList):
                    self.havoc_payload(cur.ref, path)
                elif isinstance(cur, VObj) and cur.cls.startswith("<"):
                    self.heap[(v.ref, last)] = VObj(self.new_ref(path), cur.cls)
                elif isinstance(cur, VObj):
                    self.havoc_object(cur, path)
                else:
                    self.heap[(v.ref, last)] = self.havoc_value(cur, path, types)
            else:
                raise Unsupported(f"havoc of {path}")

    def on_payload_write(self, ref, node, fr):
        pass

    def havoc_object(self, obj, path):
        self.havoc_special(obj, path)

    def havoc_special(self, obj, path):
        raise Unsupported(f"havoc of object {path}")

    def run_loop(self, st, fr, k, lc, cond, pre_body, step, ghost=None, extra_havoc=()) -> bool:
        """Cut the loop at its invariant. Returns True when the loop was left via break."""
        inv = self.fitting_invariants(lc.get("inv", []), fr, k)
        dec = lc.get("dec")
        types = lc.get("types", {})
        site = f"loop#{k}"
        # 1. invariant holds on entry
        for label, expr in inv:
            self.oblige("INV-init", f"{site}/{label}", self.spec_bool(expr, fr, label), st)
        # 1b. modular cut (contract option "modular"): the continuation from this loop head is explored once, from
        #     the invariant alone - the path-specific prefix is forgotten (classic Hoare-style loop rule)
        if lc.get("modular") and fr is self.frames[0]:
            bound = tuple(sorted(n for n, v in fr.locals.items() if v is not UNBOUND and not n.startswith("_it")))
            key = (k, bound)
            here = tuple(c for c, _ in self.dec.trace)
            first = self.loops_explored.get(key)
            if first is None:
                self.loops_explored[key] = here
            elif first != here:
                raise PathEnd()  # another prefix already explores the continuation from this loop head
            self.modular_reset(st, fr, lc)
        # 2. havoc
        names, heap_paths = self.havoc_targets(st, fr)
        self._for_targets = assigned_names([st.target]) if isinstance(st, ast.For) else set()
        if ghost:
            names.add(ghost)
        for x in extra_havoc:
            names.add(x)
        for n in sorted(names):
            cur = fr.locals.get(n, UNBOUND)
            if cur is UNBOUND and n in types:
                cur = None
                fr.locals[n] = self.sym_for_type(types[n], self.new_ref(n))
                continue
            if cur is UNBOUND:
                fr.locals[n] = UNBOUND
                continue
            fr.locals[n] = self.havoc_value(cur, n, types)
        for p in sorted(heap_paths):
            self.havoc_heap_path(p, fr, types)
        # 3. assume invariant
        for label, expr in inv:
            self.assume(self.spec_bool(expr, fr, label))
        if ghost:
            self.assume(fr.locals[ghost].t >= 0)
        if not self.feasible():
            self.oblige("COVER", f"{site}/invariant", False, st, "invariant unsatisfiable")
            raise PathEnd()
        for gname, gexpr in (lc.get("let") or {}).items():  # ghost snapshots taken at the loop head
            fr.locals[gname] = self.spec_eval(gexpr, fr)
        # 4. iterate once or leave
        c = cond()
        dec0 = self.spec_int(dec, fr) if dec else None
        if self.branch(c):
            self.covered_sites.add(site + "/body")
            try:
                if pre_body:
                    pre_body()
                self.exec_block(st.body, fr)
            except ContinueSig:
                pass
            except BreakSig:
                return True
            if step:
                step()
            self.cover_check(f"{site}/body-end", st)
            for label, expr in inv:
                self.oblige("INV-pres", f"{site}/{label}", self.spec_bool(expr, fr, label), st)
            if dec:
                d1 = self.spec_int(dec, fr)
                self.oblige("DEC", site, z3.And(d1 < dec0, dec0 > 0), st)
            raise PathEnd()
        return False

    def fitting_invariants(self, inv, fr, k):
        """invariant conjuncts that mention a name the function no longer has (a local removed by a change to the code) cannot
        be stated; they are dropped - what depended on them then fails on its own - instead of putting the whole function
        out of reach"""
        import ast as _ast

        known = getattr(fr, "_known_names", None)
        if known is None:
            known = {n.id for n in _ast.walk(fr.fn) if isinstance(n, _ast.Name)} | {a.arg for a in fr.fn.args.args}
            fr._known_names = known
        defs = set(((fr.contract.ghost or {}).get("defs") or {}))
        lets = set()
        for lc2 in (fr.contract.loops or {}).values():
            lets |= set((lc2.get("let") or {}))
        out = []
        for label, expr in inv:
            try:
                tree = _ast.parse(expr, mode="eval")
                names = {n.id for n in _ast.walk(tree) if isinstance(n, _ast.Name)}
                # bound variables of quantifiers are not program names
                names -= {n.args[0].id for n in _ast.walk(tree) if isinstance(n, _ast.Call) and isinstance(n.func, _ast.Name)
                          and n.func.id in ("forall", "exists", "forall_atoms") and n.args and isinstance(n.args[0], _ast.Name)}
            except SyntaxError:
                names = set()
            missing = {n for n in names if n not in known and n not in defs and n not in lets and not n.startswith(("_it", "_done")) and n not in SPEC_NAMES and n not in self.specfuns}
            if missing:
                self.assumption_log.add(f"{fr.qualname}: invariant conjunct loop#{k}/{label} dropped - it mentions {sorted(missing)}, which the code no longer has")
                continue
            out.append((label, expr))
        return out

    def modular_reset(self, st, fr, lc):
        """forget the path: pc := preconditions; every local assigned so far and every heap location written so far
        gets a fresh value (constrained only by the invariant that is assumed next)"""
        types = lc.get("types", {})
        params = {a.arg for a in fr.fn.args.args}
        self.pc = list(self.base_pc)
        self.solver = z3.Solver()
        self.solver.set("timeout", self.feas_timeout_ms)
        from .engine import has_quant

        for c in self.pc:
            if not has_quant(c):
                self.solver.add(c)
        for ax in self.def_axioms:
            self.assume(ax)
        for n in sorted(fr.locals):
            v = fr.locals[n]
            if n in params or v is UNBOUND or n.startswith("_it"):
                continue
            if isinstance(v, (VFunc, VModule)):
                continue
            fr.locals[n] = self.havoc_value(v, n, types) if not (isinstance(v, (VObj, VTuple, VNone, VElem)) and n not in types) else v
        for (ref, fld) in list(self.heap):
            cur = self.heap[(ref, fld)]
            owner = None
            for cls_, sch in SCHEMA.items():
                pass
            # find the schema type through the owner's class: the owner is reachable from the frame's parameters
            sty = self.field_type_of(ref, fld, fr)
            if sty is None:
                continue
            if isinstance(cur, VList):
                if cur.ref in self.payload:
                    self.havoc_payload(cur.ref, f"{ref}.{fld}")
            elif sty in ("int", "bool", "atom", "str"):
                self.heap[(ref, fld)] = self.sym_for_type(sty, self.new_ref(f"{ref}.{fld}"))
        for ref in list(self.payload):
            if ref in self.payload0:  # entry lists that were written: fresh contents
                self.havoc_payload(ref, ref)

    def field_type_of(self, ref, fld, fr):
        for v in fr.locals.values():
            if isinstance(v, VObj) and v.ref == ref and v.cls in SCHEMA:
                return SCHEMA[v.cls].get(fld)
        # nested objects (state.md.options ...): look the class up through known heap objects
        for (r2, f2), val in list(self.heap0.items()) + list(self.heap.items()):
            if isinstance(val, VObj) and val.ref == ref and val.cls in SCHEMA:
                return SCHEMA[val.cls].get(fld)
        return None

    def s_With(self, st, fr):
        raise Unsupported("with")


def copy_load(target):
    import copy as _c

    t = _c.deepcopy(target)
    for n in ast.walk(t):
        if hasattr(n, "ctx"):
            n.ctx = ast.Load()
    return t
