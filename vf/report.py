"""Result aggregation, evidence files, VIOLATION / KNOWN-FINDING lines, exit codes (DESIGN.md 2.7)."""
from __future__ import annotations

import json
import os
import re
import time
from dataclasses import dataclass, field

from . import VERIF, REPO

AUX_KINDS = {"INV-init", "INV-pres", "DEC", "LEMMA", "COVER", "PRE"}


@dataclass
class Ob:
    """one obligation as reported (from pyvc or from the frame / language / order back ends)"""

    oid: str
    kind: str
    func: str
    backend: str
    verdict: str  # discharged | failed | undecided
    seconds: float = 0.0
    solver: str = ""
    model: str = ""
    info: str = ""
    smt2: str = ""
    line: int = 0
    bearing: bool = True  # property-bearing for this property (False: auxiliary)


@dataclass
class Bounded:
    function: str
    contract: str
    universe: str
    bound: str
    evaluations: int = 0
    distinct_nontrivial: int = 0
    rule: str = ""
    failures: list = field(default_factory=list)  # [{"what":..., "input":..., "key":...}]
    skipped: int = 0
    samples: list = field(default_factory=list)
    exhaustive: bool = False


@dataclass
class Report:
    prop: str
    tier: str
    seed: int
    level: str
    obs: list = field(default_factory=list)
    bounded: list = field(default_factory=list)
    functions: list = field(default_factory=list)
    out_of_reach: list = field(default_factory=list)  # (func, reason)
    errors: list = field(default_factory=list)  # checker errors (exit 3)
    assumptions: list = field(default_factory=list)
    trusted_base: list = field(default_factory=list)
    explanation: str = ""
    notes: list = field(default_factory=list)
    checker_cmd: str = ""
    t0: float = field(default_factory=time.time)
    extra: dict = field(default_factory=dict)
    replays: dict = field(default_factory=dict)  # oid -> replay info dict


def load_known():
    with open(os.path.join(VERIF, "known_findings.json")) as f:
        return json.load(f)


def is_known(prop: str, key: str, known) -> dict | None:
    for k in known.get("findings", []):
        if k.get("property") == prop and (k.get("key") == key or (k.get("key_regex") and re.search(k["key_regex"], key))):
            return k
    return None


def write_replay(prop: str, name: str, payload: dict) -> str:
    d = os.path.join(os.environ.get("VERIF_OUT", VERIF), "replays", prop)
    os.makedirs(d, exist_ok=True)
    safe = re.sub(r"[^A-Za-z0-9_.\-]+", "_", name)[:150]
    path = os.path.join(d, safe + ".json")
    with open(path, "w") as f:
        json.dump(payload, f, indent=1, default=str)
    return path


def finish(rep: Report) -> int:
    """Print result lines, write evidence, return the exit code."""
    import signal

    try:
        signal.signal(signal.SIGPIPE, signal.SIG_DFL)  # `./check ... | head` must not turn into a crash
    except Exception:
        pass
    known = load_known()
    violations = []
    known_lines = []
    undecided = [o for o in rep.obs if o.verdict == "undecided"]
    for o in rep.obs:
        if o.verdict != "failed":
            continue
        if o.kind == "COVER":
            # a failed vacuity guard is a defect of the contracts/engine, never a property violation (exit 3)
            rep.errors.append(f"vacuity guard failed: {o.oid}: {o.info}")
            continue
        key = o.oid
        kf = is_known(rep.prop, key, known)
        if kf:
            known_lines.append(f"KNOWN-FINDING: property={rep.prop} {kf.get('what', key)}")
            continue
        info = rep.replays.get(o.oid, {})
        payload = {
            "property": rep.prop, "obligation": o.oid, "kind": o.kind, "function": o.func, "back_end": o.backend,
            "source_line": o.line, "info": o.info,
            "solver": {"name": o.solver, "result": "sat" if o.backend == "pyvc" else "refuted", "seconds": round(o.seconds, 3), "model": o.model},
            "lifted": info.get("lifted"), "observed": info.get("observed"), "api_witness": info.get("api_witness"),
            "replayed": bool(info.get("replayed")),
            "query_smt2": o.smt2[:20000],
        }
        path = write_replay(rep.prop, o.oid, payload)
        suffix = "" if info.get("replayed") else " no-failing-input-found"
        violations.append(f"VIOLATION property={rep.prop} replay={path} obligation={o.oid}{suffix}")
    for b in rep.bounded:
        for fl in b.failures:
            key = fl.get("key", b.contract)
            kf = is_known(rep.prop, key, known)
            if kf:
                line = f"KNOWN-FINDING: property={rep.prop} {kf.get('what', key)}"
                if line not in known_lines:
                    known_lines.append(line)
                continue
            payload = {"property": rep.prop, "bounded_contract": b.contract, "function": b.function, "universe": b.universe,
                       "failure": fl, "replayed": True}
            path = write_replay(rep.prop, "bounded_" + b.contract + "_" + str(abs(hash(json.dumps(fl, default=str, sort_keys=True))) % 10**8), payload)
            violations.append(f"VIOLATION property={rep.prop} replay={path} bounded-contract={b.contract}")
    # one line per distinct failing thing, but cap the noise
    shown = violations[:25]
    for l in known_lines:
        print(l)
    for l in shown:
        print(l)
    if len(violations) > len(shown):
        print(f"... and {len(violations) - len(shown)} more violations (see replays/{rep.prop}/)")
    for o in undecided[:20]:
        print(f"UNDECIDED obligation={o.oid} ({o.solver})")
    for f, why in rep.out_of_reach:
        print(f"OUT-OF-REACH function={f} reason={why}")
    for e in rep.errors:
        print(f"CHECKER-ERROR {e}")

    n_ob = len(rep.obs)
    n_dis = sum(1 for o in rep.obs if o.verdict == "discharged")
    by_kind: dict = {}
    by_backend: dict = {}
    for o in rep.obs:
        by_kind.setdefault(o.kind, [0, 0])
        by_kind[o.kind][0] += 1
        by_kind[o.kind][1] += o.verdict == "discharged"
        by_backend.setdefault(o.backend, [0, 0])
        by_backend[o.backend][0] += 1
        by_backend[o.backend][1] += o.verdict == "discharged"
    samples = [{"obligation": o.oid, "backend": o.backend, "verdict": o.verdict, "solver": o.solver, "seconds": round(o.seconds, 4)}
               for o in rep.obs[:: max(1, n_ob // 12)]][:14]
    cov = {
        "obligations": n_ob,
        "discharged": n_dis,
        "failed": sum(1 for o in rep.obs if o.verdict == "failed"),
        "undecided": len(undecided),
        "checker_cmd": rep.checker_cmd,
        "trusted_base": rep.trusted_base,
        "functions_under_contract": rep.functions,
        "functions_out_of_reach": [list(x) for x in rep.out_of_reach],
        "by_kind": {k: {"generated": v[0], "discharged": v[1]} for k, v in sorted(by_kind.items())},
        "by_backend": {k: {"generated": v[0], "discharged": v[1]} for k, v in sorted(by_backend.items())},
        "solver_seconds": round(sum(o.seconds for o in rep.obs), 3),
        "samples": samples,
        "explanation": rep.explanation,
        "bounded": [
            {"function": b.function, "contract": b.contract, "universe": b.universe, "bound": b.bound,
             "evaluations": b.evaluations, "distinct_nontrivial": b.distinct_nontrivial, "rule": b.rule,
             "failures": len(b.failures), "skipped": b.skipped, "exhaustive": b.exhaustive, "samples": b.samples[:5],
             "label": "bounded stand-in: never counted as proved"}
            for b in rep.bounded
        ],
        "known_findings_reported": known_lines,
        "repo_head": _repo_head(),
    }
    cov.update(rep.extra)
    if rep.bounded:
        cov["evaluations"] = sum(b.evaluations for b in rep.bounded)
        cov["distinct_nontrivial"] = sum(b.distinct_nontrivial for b in rep.bounded)
        cov["rule"] = " | ".join(sorted({b.rule for b in rep.bounded if b.rule}))[:2000]
    ev = {
        "property_id": rep.prop, "tier": rep.tier, "seed": rep.seed, "level": rep.level, "coverage": cov,
        "assumptions": rep.assumptions, "wall_s": round(time.time() - rep.t0, 2), "violations": len(violations),
    }
    evdir = os.path.join(os.environ.get("VERIF_OUT", VERIF), "evidence")
    os.makedirs(evdir, exist_ok=True)
    with open(os.path.join(evdir, rep.prop + ".json"), "w") as f:
        json.dump(ev, f, indent=1, default=str)
    print(f"{rep.prop}: {n_dis}/{n_ob} obligations discharged, {len(undecided)} undecided, "
          f"{sum(b.evaluations for b in rep.bounded)} bounded evaluations, {len(violations)} violations, "
          f"{len(known_lines)} known findings, {ev['wall_s']}s")
    if violations:
        return 1  # a violation with its replay is reported even if some other part of the check could not run
    if rep.errors:
        return 3
    if undecided or (n_ob == 0 and not rep.bounded):
        return 2 if undecided else 3
    if rep.out_of_reach:
        return 2  # a function that is under contract could not be analysed on this tree: its obligations are undecided
    total_b = sum(b.evaluations for b in rep.bounded)
    skipped = sum(b.skipped for b in rep.bounded)
    if total_b and skipped > 0.01 * total_b:
        print(f"UNDECIDED too many bounded cases could not be judged ({skipped}/{total_b})")
        return 2
    return 0


def _repo_head():
    try:
        import subprocess

        h = subprocess.run(["git", "-C", REPO, "rev-parse", "--short", "HEAD"], capture_output=True, text=True).stdout.strip()
        d = subprocess.run(["git", "-C", REPO, "status", "--porcelain"], capture_output=True, text=True).stdout.strip()
        return h + ("+dirty" if d else "")
    except Exception:
        return "unknown"
