"""Bounded universes for the stand-ins (DESIGN.md Appendix A). Deterministic; random parts use VERIF_SEED."""
from __future__ import annotations

import itertools
import random

# 72 line shapes: every block opener/closer/continuation, blank and whitespace-only lines, tab variants ...
V = [
    "a", "  a", "    c", "\ta", "# h", "#", "---", "***", "- - -", "===", "=",
    "- x", "-", "  - y", "1. z", "1.", "2) w", "+ p", "10. q", "    - n",
    "> q", ">", ">> r", "   > z", "> - x", "- > y",
    "```", "~~~", "``` py", "````",
    "<div>", "</div>", "<!-- c -->", "<?php", "<pre>", "</pre>", "<a href=\"x\">",
    "[a]: /u", "[a]: /u \"t\"", "[a]:", "[a]",
    "| a | b |", "|---|---|", "a|b", "-|-", ":-:|-:",
    "", " ", "   ", "\t", "a  ", "a\\",
    "*e* **s**", "`c`", "[l](/u)", "![i](/s)", "<http://x.y>", "&amp; &#0; &#xD800;", "&#35;",
    ">\t- x", "-\t\tx", "  \tfoo", "x\x00y", "a\rb", "é  z",
    "[", "![", "](", "[[[[", "****a", "__a__b_", "~~s~~", "1986. x", "\\# n",
    " ```", "\t2. y", "   16. b", "². x",
]
assert len(V) == len(set(V)), "duplicate line shapes"


def docs_k(k: int, vocab=None):
    vocab = V if vocab is None else vocab
    for n in range(1, k + 1):
        for lines in itertools.product(vocab, repeat=n):
            body = "\n".join(lines)
            yield body
            yield body + "\n"


def wrappers(doc: str):
    """container-wrapped variants (the crashes live at container x EOF boundaries)"""
    lines = doc.split("\n")
    yield doc
    yield "\n".join("> " + l for l in lines)
    yield "\n".join(">" + l for l in lines)
    yield "\n".join(("- " if i == 0 else "  ") + l for i, l in enumerate(lines))
    yield "\n".join(("- > " if i == 0 else "  > ") + l for i, l in enumerate(lines))
    yield "\n".join(("> - " if i == 0 else ">   ") + l for i, l in enumerate(lines))
    yield "\n".join(["> " + l for l in lines[:-1]] + [">"])
    # ... and with two containers open when the input ends on the bare marker (an item inside a quote, a quote inside an item)
    yield "\n".join([("> - " if i == 0 else ">   ") + l for i, l in enumerate(lines[:-1])] + [">"])
    yield "\n".join([("- > " if i == 0 else "  > ") + l for i, l in enumerate(lines[:-1])] + ["  >"])


def wrapped_docs(k: int, vocab=None):
    for d in docs_k(k, vocab):
        yield from wrappers(d)


INLINE_FRAGS = [
    "a", " ", "*", "**", "_", "__", "~~", "`", "``", "[", "]", "(", ")", "(/u)", "![", "<", ">", "\"", "'",
    "&amp;", "&#35;", "&nope;", "\\*", "\\\\", "\\", "<b>", "</b>", "<http://a.b>", "<x@y.z>", "\n", "  \n",
    "\\\n", "[r]", "[r]: /u\n\n", "!", "--", "...", "(c)", "+-", "http://x.y", "é", " ", ":", "|",
]


def inline_docs(k: int, frags=None):
    frags = INLINE_FRAGS if frags is None else frags
    for n in range(1, k + 1):
        for parts in itertools.product(frags, repeat=n):
            yield "".join(parts)


EMPH_ALPHABET = ["*", "**", "_", "~~", "~", "a", " ", "[", "](x)", "*a", "**a", " a", "~~a"]


def emph_docs(k: int):
    """all concatenations of <= k pieces over delimiter runs, brackets and letters (delimiter matching lives here)"""
    for n in range(1, k + 1):
        for parts in itertools.product(EMPH_ALPHABET, repeat=n):
            yield "".join(parts)


def gen_emph(tier):
    yield from emph_docs(5 if tier == "quick" else 7)


NESTED_TAG_ALPHABET = ["[", "](x)", "<ab:c>", "*", "*a", "**", "~~", "~~a", "_", " "]


def gen_emph_links(tier):
    """delimiter runs around and inside link labels that themselves hold an autolink (two tag levels: the delimiter list of
    the paragraph must come back after the outer link closes)"""
    k = 5 if tier == "quick" else 6
    for n in range(1, k + 1):
        for parts in itertools.product(NESTED_TAG_ALPHABET, repeat=n):
            d = "".join(parts)
            if "<ab:c>" in d and "[" in d:
                yield d


def random_docs(n: int, seed: int, max_lines=8, vocab=None):
    rnd = random.Random(seed)
    vocab = V if vocab is None else vocab
    for _ in range(n):
        k = rnd.randint(1, max_lines)
        lines = [rnd.choice(vocab) for _ in range(k)]
        d = "\n".join(lines) + ("\n" if rnd.random() < 0.7 else "")
        if rnd.random() < 0.4:
            d = rnd.choice(list(wrappers(d)))
        yield d


CONFIGS = {
    # name: (preset, options override, enable, disable)
    "commonmark": ("commonmark", {}, [], []),
    "js-default": ("js-default", {}, [], []),
    "zero": ("zero", {}, [], []),
    "default": ("default", {}, [], []),
    "cm+table+strike": ("commonmark", {}, ["table", "strikethrough"], []),
    "cm+typo": ("commonmark", {"typographer": True}, ["replacements", "smartquotes"], []),
    "cm-heading": ("commonmark", {}, ["table"], ["heading"]),
    "cm-code": ("commonmark", {}, [], ["code"]),
    "cm-maxnest1": ("commonmark", {"maxNesting": 1}, [], []),
    "cm-maxnest2": ("commonmark", {"maxNesting": 2}, ["table"], []),
    "cm+defs": ("commonmark", {"inline_definitions": True, "store_labels": True}, ["table"], []),
    "cm-fragjoin": ("commonmark", {}, ["strikethrough"], ["fragments_join"]),
    "js+breaks+xhtml0": ("js-default", {"breaks": True, "xhtmlOut": False, "langPrefix": "x\"y"}, [], []),
}


def make_md(cfg: str):
    from markdown_it import MarkdownIt

    preset, opts, en, dis = CONFIGS[cfg]
    md = MarkdownIt(preset, opts)
    if en:
        md.enable(en)
    if dis:
        md.disable(dis)
    return md
