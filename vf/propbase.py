"""Helpers shared by the per-property check modules."""
from __future__ import annotations

import importlib
import re

from .report import Ob, Report, AUX_KINDS
from .verify import verify

ALWAYS_C01 = {"SAFE", "DEC"}


def label_of(oid: str) -> str:
    # qualname/KIND/site...  ; for POST kinds the site is the clause label, for INV it is loop#k/label
    return oid.split("/")[-1]


def deductive(rep: Report, prop: str, funcs: list[str], contracts_mod: str, include_c01_as_aux=False, select=None):
    """Verify funcs with pyvc and add the obligations relevant for `prop` to the report."""
    mod = importlib.import_module(contracts_mod)
    results = verify(funcs, contracts_mod)
    for q in funcs:
        r = results[q]
        c = mod.REGISTRY[q]
        tags = (c.ghost or {}).get("tags", {})
        if r.status == "out_of_reach":
            rep.out_of_reach.append((q, r.detail))
            continue
        if r.status == "missing":
            rep.out_of_reach.append((q, "function no longer exists: " + r.detail))
            continue
        if r.status != "ok":
            rep.errors.append(f"{q}: {r.status}: {r.detail}")
            continue
        rep.functions.append(q)
        n_rel = 0
        for ob in r.obligations:
            lab = label_of(ob.oid)
            if ob.kind in ALWAYS_C01:
                props = {"C01"}
            elif lab in tags:
                props = set(tags[lab])
            else:
                props = set(c.props)
            aux = ob.kind in AUX_KINDS
            if aux and ob.kind != "PRE":
                relevant = prop in c.props or prop in props
            else:
                relevant = prop in props
            if select is not None:
                relevant = select(q, ob, relevant)
            if not relevant:
                continue
            n_rel += 1
            rep.obs.append(Ob(oid=f"{prop}/{ob.oid}", kind=ob.kind, func=q, backend="pyvc", verdict=ob.verdict,
                              seconds=ob.seconds, solver=ob.solver, model=ob.model, info=ob.info, smt2=ob.smt2,
                              line=ob.line, bearing=not aux))
        rep.extra.setdefault("paths", {})[q] = r.paths
        rep.extra.setdefault("source_sha", {})[q] = r.sha
    return results
