"""Helpers shared by the per-property check modules."""
from __future__ import annotations

import importlib
import re

from .report import Ob, Report, AUX_KINDS
from .verify import verify

ALWAYS_C01 = {"SAFE", "DEC"}


def label_of(oid: str) -> str:
    # qualname/KIND/site...  ; for POST kinds the site is the clause label, for INV it is loop#k/label
    return oid.split("/")[-1]


def deductive(rep: Report, prop: str, funcs: list[str], contracts_mod: str, include_c01_as_aux=False, select=None):
    """Verify funcs with pyvc and add the obligations relevant for `prop` to the report."""
    mod = importlib.import_module(contracts_mod)
    results = verify(funcs, contracts_mod)
    # assumption scan (DESIGN 2.8 #5): every assumed (trusted) contract of the registry is reported
    for q, c in mod.REGISTRY.items():
        if getattr(c, "assume_only", False):
            line = f"assumed contract: {q}" + (f" ({c.notes})" if c.notes else "")
            if line not in rep.assumptions:
                rep.assumptions.append(line)
        elif c.notes and q.endswith("getRules") and "supported configuration" in c.notes:
            line = f"assumed: {q}: {c.notes}"
            if line not in rep.assumptions:
                rep.assumptions.append(line)
    for q in funcs:
        r = results[q]
        c = mod.REGISTRY[q]
        tags = (c.ghost or {}).get("tags", {})
        if r.status == "out_of_reach":
            rep.out_of_reach.append((q, r.detail))
            continue
        if r.status == "missing":
            rep.out_of_reach.append((q, "function no longer exists: " + r.detail))
            continue
        if r.status != "ok":
            rep.errors.append(f"{q}: {r.status}: {r.detail}")
            continue
        rep.functions.append(q)
        for a in getattr(r, "assumption_log", []) or []:
            if a not in rep.assumptions:
                rep.assumptions.append(a)
        n_rel = 0
        func_props = set(c.props)
        for v in tags.values():
            func_props |= set(v)
        for ob in r.obligations:
            lab = label_of(ob.oid)
            if ob.kind in ALWAYS_C01:
                props = {"C01"}
            elif lab in tags:
                props = set(tags[lab])
            else:
                props = set(c.props)
            aux = ob.kind in AUX_KINDS
            if aux and ob.kind != "PRE":
                # auxiliary obligations (invariants, covers) carry every clause of the function: they belong to every
                # property some clause of the function serves
                relevant = prop in func_props or prop in props
            else:
                relevant = prop in props
            if select is not None:
                relevant = select(q, ob, relevant)
            if not relevant:
                continue
            n_rel += 1
            if ob.verdict == "candidate":
                from . import replay as _rp

                info = _rp.replay_obligation(ob, contracts_mod)
                if not info.get("replayed") and sum(1 for v in rep.replays.values() if v.get("api_witness_tried")) < 2 and not getattr(rep, "_cand_witness_tried", {}).get(q):
                    # the lifted function-level state did not reproduce it: look for a document on which the same contract
                    # clause fires at a real call (run-time monitor over the bounded universe)
                    rep.__dict__.setdefault("_cand_witness_tried", {})[q] = True
                    try:
                        w = _rp.api_witness(prop, q)
                    except Exception:  # noqa: BLE001
                        w = None
                    # for an auxiliary obligation (a loop invariant) any clause of the same function's contract firing at a
                    # real call confirms that the function breaks its contract; the refuted invariant is the explanation
                    if w and (lab in (w.get("what") or "") or ob.kind.startswith("INV")):
                        info["api_witness"] = w
                        info["api_witness_tried"] = True
                        info["replayed"] = True
                if info.get("replayed"):
                    ob.verdict = "failed"
                    rep.replays[f"{prop}/{ob.oid}"] = info
                else:
                    ob.verdict = "undecided"
                    ob.solver += " candidate counterexample not confirmed on the real code"
            elif ob.verdict == "failed" and ob.model and len(rep.replays) < 12:
                from . import replay as _rp

                info = _rp.replay_obligation(ob, contracts_mod)
                if not info.get("replayed") and sum(1 for v in rep.replays.values() if v.get("api_witness_tried")) < 2:
                    info["api_witness_tried"] = True
                    try:
                        w = _rp.api_witness(prop, q)
                    except Exception:  # noqa: BLE001
                        w = None
                    if w:
                        info["api_witness"] = w
                        info["replayed"] = True
                rep.replays[f"{prop}/{ob.oid}"] = info
            rep.obs.append(Ob(oid=f"{prop}/{ob.oid}", kind=ob.kind, func=q, backend="pyvc", verdict=ob.verdict,
                              seconds=ob.seconds, solver=ob.solver, model=ob.model, info=ob.info, smt2=ob.smt2,
                              line=ob.line, bearing=not aux))
        rep.extra.setdefault("paths", {})[q] = r.paths
        rep.extra.setdefault("source_sha", {})[q] = r.sha
    return results


# ---------------------------------------------------------------------------------------------------- bounded helpers
from . import bounded as _b  # noqa: E402

QUICK_CFGS = ["commonmark", "js-default", "cm+table+strike"]
ALL_CFGS = ["commonmark", "js-default", "zero", "default", "cm+table+strike", "cm+typo", "cm-heading", "cm-code", "cm-maxnest1", "cm-maxnest2", "cm+defs", "js+breaks+xhtml0"]


def lines_universe(rep, check, tier, function, contract, cfgs=None, wrapped=True, rule="distinct token-stream signatures (type, level, map)", quick_k=2, thorough_k=3, **kw):
    k = quick_k if tier == "quick" else thorough_k
    cfgs = cfgs or (QUICK_CFGS if tier == "quick" else ALL_CFGS)
    if tier != "quick" and k >= 3 and len(cfgs) > 4:
        cfgs = cfgs[:4]
    b = _b.run(check, "lines", k, cfgs, function, contract, "bounded-exhaustive line universe (DESIGN Appendix A); " + rule, wrapped=wrapped, **kw)
    rep.bounded.append(b)
    return b


def inline_universe(rep, check, tier, function, contract, cfgs=None, rule="distinct child-type sequences", quick_k=2, thorough_k=3, **kw):
    k = quick_k if tier == "quick" else thorough_k
    cfgs = cfgs or ["commonmark", "cm+table+strike"]
    b = _b.run(check, "inline", k, cfgs, function, contract, "bounded-exhaustive inline fragment universe; " + rule, **kw)
    rep.bounded.append(b)
    return b


def gen_universe(rep, check, gen, tier, function, contract, cfgs, rule, universe, **kw):
    b = _b.run(check, "gen", 0, cfgs, function, contract, rule, gen=gen, gen_args=(tier,), universe=universe, bound=f"tier={tier}", **kw)
    rep.bounded.append(b)
    return b


STD_TRUST = ["pyvc (vf/), z3 5.1.0, cvc5 1.0.3 on z3 unknowns", "Python semantics as listed in DESIGN.md 2.4",
             "bounded stand-ins are labelled bounded and never counted in obligations/discharged"]
