"""Relational bounded oracles (DESIGN.md Appendix E): C04 C05 C06 C07 C09 C10 C16 C17 C18 C19 C20."""
from __future__ import annotations

import html as _html
import re
import string

from . import universe as U
from .checks import _md, tok_sig


def _dicts(toks, dl=0, norm=True):
    out = []
    for t in toks:
        d = t.as_dict()
        d["level"] -= dl
        if norm:
            d["hidden"] = False
            if d["type"] == "inline":
                d["content"] = re.sub(r"\n[ ]+", "\n", d["content"])
        out.append(d)
    return out


def _shift_maps(ds, k):
    out = []
    for d in ds:
        d = dict(d)
        if d.get("map"):
            d["map"] = [d["map"][0] + k, d["map"][1] + k]
        out.append(d)
    return out


# ============================================================================ C06
LIST_MARKERS = ["- ", "* ", "+ ", "1. ", "7) ", "12. ", "-  ", "-   ", "-    ", "3.  "]


def _quote(doc):
    return "".join("> " + l + "\n" for l in doc.split("\n")[:-1])


def _listwrap(doc, m):
    ls = doc.split("\n")[:-1]
    w = len(m)
    return m + ls[0] + "\n" + "".join(" " * w + l + "\n" for l in ls[1:])


def _refs(env):
    return {k: {kk: vv for kk, vv in v.items() if kk != "map"} for k, v in (env.get("references") or {}).items()}


def c06_container(state, cfg, doc):
    if "\t" in doc or not doc.endswith("\n") or "\r" in doc or "\0" in doc:
        return None
    md = _md(state, cfg)
    e0: dict = {}
    t0 = md.parse(doc, e0)
    fails = []
    # quote form
    q = _quote(doc)
    e1: dict = {}
    t1 = md.parse(q, e1)
    ok = len(t1) >= 2 and t1[0].type == "blockquote_open" and t1[-1].type == "blockquote_close"
    if ok:
        depth = 0
        for i, t in enumerate(t1):
            depth += t.nesting
            if depth == 0 and i != len(t1) - 1:
                ok = False
                break
    if not ok:
        fails.append({"what": "quoted document does not parse to exactly one block quote", "key": "C06/quote-shape"})
    else:
        a, b = _dicts(t1[1:-1], 1), _dicts(t0, 0)
        if a != b:
            i = next((i for i, (x, y) in enumerate(zip(a, b)) if x != y), min(len(a), len(b)))
            diff = ""
            if i < len(a) and i < len(b):
                diff = str({k: (a[i][k], b[i][k]) for k in a[i] if a[i][k] != b[i].get(k)})[:200]
            fails.append({"what": f"contents of the quote differ from the blocks of D at token {i}: {diff}", "key": "C06/quote-contents"})
        if _refs(e1) != _refs(e0):
            fails.append({"what": "reference definitions differ between D and quoted D", "key": "C06/quote-refs"})
    # list form
    if doc[0] not in " \n":
        first = doc.split("\n")[0]
        k = state.setdefault("c06k", 0)
        state["c06k"] = k + 1
        for m in (LIST_MARKERS[k % len(LIST_MARKERS)], LIST_MARKERS[(k // 3 + 1) % len(LIST_MARKERS)]):
            head = md.parse(m + first + "\n")
            if head and head[0].type == "hr":
                continue
            if cfg != "commonmark" and ("|" in doc):
                continue  # the statement excludes tables from the list form
            y = _listwrap(doc, m)
            e2: dict = {}
            t2 = md.parse(y, e2)
            shape = (len(t2) >= 4 and t2[0].type.endswith("_list_open") and t2[1].type == "list_item_open"
                     and t2[-2].type == "list_item_close" and t2[-1].type.endswith("_list_close")
                     and sum(1 for t in t2 if t.type == "list_item_open" and t.level == 1) == 1)
            if shape:
                depth = 0
                for i, t in enumerate(t2):
                    depth += t.nesting
                    if depth == 0 and i != len(t2) - 1:
                        shape = False
                        break
            if not shape:
                fails.append({"what": f"list-wrapped document (marker {m!r}) does not parse to a one-item list", "key": "C06/list-shape"})
                continue
            a, b = _dicts(t2[2:-2], 2), _dicts(t0, 0)
            # maps: same lines
            if a != b:
                i = next((i for i, (x, yv) in enumerate(zip(a, b)) if x != yv), min(len(a), len(b)))
                diff = ""
                if i < len(a) and i < len(b):
                    diff = str({kk: (a[i][kk], b[i][kk]) for kk in a[i] if a[i][kk] != b[i].get(kk)})[:200]
                fails.append({"what": f"item contents (marker {m!r}) differ from the blocks of D at token {i}: {diff}", "key": "C06/list-contents"})
            if _refs(e2) != _refs(e0):
                fails.append({"what": "reference definitions differ between D and list-wrapped D", "key": "C06/list-refs"})
    return {"sig": tok_sig(t0), "fail": fails[:4]}


def c06_nested(state, cfg, doc):
    """the law applied to already wrapped documents (depth 2-3)"""
    if "\t" in doc or not doc.endswith("\n") or "\r" in doc or "\0" in doc:
        return None
    out = {"sig": None, "fail": []}
    cur = doc
    for step in range(2):
        cur = _quote(cur) if (len(doc) + step) % 2 == 0 else (_listwrap(cur, "- ") if cur[0] not in " \n" else _quote(cur))
        r = c06_container(state, cfg, cur)
        if r:
            out["sig"] = r["sig"]
            out["fail"] += r["fail"]
    return out


# ============================================================================ C07
def _blk(toks):
    out = []
    for t in toks:
        d = t.as_dict(children=False)
        d.pop("children", None)
        out.append(d)
    return out


def c07_concat(state, cfg, pair):
    a, b = pair
    if not a.endswith("\n") or not b.endswith("\n") or b[0] in " \t\n" or "\t" in b.split("\n")[0]:
        return None
    md = _md(state, cfg)
    na = a.count("\n")
    probe = md.parse(a + "\nzz\n")
    closed = len(probe) >= 3 and probe[-3].type == "paragraph_open" and probe[-3].level == 0 and probe[-3].map == [na + 1, na + 2]
    if not closed:
        return None
    ta, tb = md.parse(a + "\n"), md.parse(b)
    if not tb:
        return None
    if ta and ta[-1].type.endswith("_list_close") and tb[0].type.endswith("_list_open"):
        return None
    if ta and ta[-1].type == "code_block" and tb[0].type == "code_block":
        return None
    tab = md.parse(a + "\n" + b)
    exp = _blk(ta) + _shift_maps(_blk(tb), na + 1)
    got = _blk(tab)
    fails = []
    if got != exp:
        i = next((i for i, (x, y) in enumerate(zip(got, exp)) if x != y), min(len(got), len(exp)))
        fails.append({"what": f"blocks(A + blank + B) != blocks(A) ++ shifted blocks(B) at token {i}", "key": "C07/concat"})
    return {"sig": (tok_sig(ta), tok_sig(tb)), "fail": fails}


# ============================================================================ C09
PUNCT = string.punctuation


def esc(t):
    return "".join("\\" + c if c in PUNCT else c for c in t)


def ent(t):
    return "".join(f"&#{ord(c)};" if (c in PUNCT or ord(c) > 126) else c for c in t)


C09_TEMPLATES = {
    "paragraph": (lambda e: e + "\n", lambda h: f"<p>{h}</p>"),
    "heading": (lambda e: "# " + e + "\n", lambda h: f"<h1>{h}</h1>"),
    "emphasis": (lambda e: "*" + e + "*\n", lambda h: f"<em>{h}</em>"),
    "link-text": (lambda e: "[" + e + "](/u)\n", lambda h: f'<a href="/u">{h}</a>'),
    "image-alt": (lambda e: "![" + e + "](/u)\n", lambda h: f'alt="{h}"'),
    "link-title": (lambda e: '[x](/u "' + e + '")\n', lambda h: f'title="{h}"'),
    "table-cell": (lambda e: "| " + e + " |\n|---|\n", lambda h: f"<th>{h}</th>"),
    # the other spellings of a row: leading pipe only, and no outer pipes at all (body rows)
    "table-cell-open-row": (lambda e: "| h\n| ---\n| " + e + "\n", lambda h: f"<td>{h}</td>"),
    "table-cell-bare-row": (lambda e: "h | h\n--- | ---\n" + e + " | x\n", lambda h: f"<td>{h}</td>"),
}


def c09_literal(state, cfg, t):
    if t != t.strip() or "\n" in t or not t:
        return None
    md = _md(state, cfg)
    fails = []
    hesc = _html.escape(t, quote=True).replace("&#x27;", "'")
    for form_name, enc in (("backslash", esc), ("charref", ent)):
        e = enc(t)
        for name, (mk, want) in C09_TEMPLATES.items():
            if name.startswith("table-cell") and "table" not in md.get_active_rules()["block"]:
                continue
            if name == "emphasis" and form_name == "charref" and False:
                continue
            out = md.render(mk(e))
            w = want(hesc)
            if w not in out:
                fails.append({"what": f"{name}/{form_name}: {mk(e)!r} rendered {out!r}, expected to contain {w!r}", "key": f"C09/{name}/{form_name}"})
    return {"sig": t, "fail": fails[:4]}


def c09_texts(k, alphabet=None):
    import itertools

    alphabet = alphabet or (list("ab*_`[]()<>&\"'\\#|~!:-+.") + ["é", " x", "«", "\x01", "\u200b", "\ufeff", "\u2003x", "\xa0"])
    for n in range(1, k + 1):
        for parts in itertools.product(alphabet, repeat=n):
            s = "".join(parts)
            if s == s.strip() and s:
                yield s


# ============================================================================ C10
VOCAB_BLOCK = {
    "table": {"table_open", "table_close", "thead_open", "thead_close", "tbody_open", "tbody_close", "tr_open", "tr_close", "th_open", "th_close", "td_open", "td_close"},
    "code": {"code_block"}, "fence": {"fence"}, "blockquote": {"blockquote_open", "blockquote_close"}, "hr": {"hr"},
    "list": {"bullet_list_open", "bullet_list_close", "ordered_list_open", "ordered_list_close", "list_item_open", "list_item_close"},
    "reference": {"definition"}, "html_block": {"html_block"}, "heading": {"heading_open", "heading_close"},
    "lheading": {"heading_open", "heading_close"}, "paragraph": {"paragraph_open", "paragraph_close"},
}
VOCAB_INLINE = {
    "text": {"text"}, "linkify": {"link_open", "link_close", "text"}, "newline": {"softbreak", "hardbreak"}, "escape": {"text", "text_special", "hardbreak"},
    "backticks": {"code_inline"}, "strikethrough": {"s_open", "s_close", "text"}, "emphasis": {"em_open", "em_close", "strong_open", "strong_close", "text"},
    "link": {"link_open", "link_close"}, "image": {"image"}, "autolink": {"link_open", "link_close", "text"}, "html_inline": {"html_inline"},
    "entity": {"text", "text_special"},
}


def c10_vocab(state, cfg, doc):
    md = _md(state, cfg)
    act = md.get_active_rules()
    allowed_b = {"inline"}
    for r in act["block"]:
        allowed_b |= VOCAB_BLOCK.get(r, set())
    allowed_i = {"text"}
    for r in act["inline"]:
        allowed_i |= VOCAB_INLINE.get(r, set())
    if "linkify" in act["core"]:
        allowed_i |= {"link_open", "link_close"}
    if not md.options["html"]:
        allowed_b.discard("html_block")
        allowed_i.discard("html_inline")
    toks = md.parse(doc)
    fails = []
    for t in toks:
        if t.type not in allowed_b:
            fails.append({"what": f"token {t.type} although no enabled rule produces it (active block rules {act['block']}, html={md.options['html']})", "key": f"C10/vocab/{t.type}"})
        for c in t.children or []:
            if c.type not in allowed_i:
                fails.append({"what": f"inline token {c.type} although no enabled rule produces it (active inline rules {act['inline']})", "key": f"C10/vocab/{c.type}"})
    return {"sig": tok_sig(toks), "fail": fails[:3]}


def c10_conservative(state, cfg, doc):
    """extensions are conservative on inputs without their trigger characters; definition/label options only add"""
    from markdown_it import MarkdownIt

    base = state.get(("c10b", cfg))
    if base is None:
        preset = U.CONFIGS[cfg][0]
        off = ["table", "strikethrough"]
        base = {
            "plain": MarkdownIt(preset).disable(off, True), "table": MarkdownIt(preset).disable(off, True).enable("table"),
            "strike": MarkdownIt(preset).disable(off, True).enable("strikethrough"),
            "defs": MarkdownIt(preset, {"inline_definitions": True, "store_labels": True}).disable(off, True),
        }
        state[("c10b", cfg)] = base
    fails = []
    e0: dict = {}
    t0 = [t.as_dict() for t in base["plain"].parse(doc, e0)]
    if "|" not in doc and [t.as_dict() for t in base["table"].parse(doc)] != t0:
        fails.append({"what": "enabling table changes the token stream of an input without '|'", "key": "C10/conservative/table"})
    if "~~" not in doc and [t.as_dict() for t in base["strike"].parse(doc)] != t0:
        fails.append({"what": "enabling strikethrough changes the token stream of an input without '~~'", "key": "C10/conservative/strikethrough"})
    e1: dict = {}
    t1 = base["defs"].parse(doc, e1)

    def strip(ds):
        out = []
        for d in ds:
            if d["type"] == "definition":
                continue
            d = dict(d)
            if d.get("meta"):
                d["meta"] = {k: v for k, v in d["meta"].items() if k != "label"}
            if d.get("children"):
                d["children"] = strip(d["children"])
            out.append(d)
        return out

    if strip([t.as_dict() for t in t1]) != strip(t0):
        fails.append({"what": "inline_definitions/store_labels change tokens other than definition tokens and label metadata", "key": "C10/defs/tokens"})
    if e1 != e0:
        fails.append({"what": "inline_definitions/store_labels change env", "key": "C10/defs/env"})
    h0 = re.sub(r">\n+", ">", base["plain"].render(doc))
    h1 = re.sub(r">\n+", ">", base["defs"].render(doc))
    if h0 != h1:
        fails.append({"what": f"inline_definitions/store_labels change the HTML: {h1[:80]!r} vs {h0[:80]!r}", "key": "C10/defs/html"})
    return {"sig": tuple(d["type"] for d in t0), "fail": fails[:3]}


# ============================================================================ C16
def c16_refs(state, cfg, case):
    """case = (R, D): definitions document and using document"""
    r, d = case
    md = _md(state, cfg)
    fails = []
    env: dict = {}
    md.parse(r, env)
    seeded = md.render(d, env)
    onego = md.render(r + "\n" + d)
    # the one-go rendering also contains what R itself renders to (normally nothing)
    rr = md.render(r)
    # (the text of R itself may render differently in the one-go document - forward references to definitions of D -
    #  the statement is about the output of D)
    if rr + seeded != onego and seeded != onego and not onego.endswith(seeded):
        fails.append({"what": f"render(D, env seeded by R) != render(R + blank + D): {seeded[:80]!r} vs {onego[:80]!r}", "key": "C16/seed"})
    # a document consisting only of well-formed definitions renders to nothing, and each recorded map starts at a
    # line that opens a definition and the maps tile the document
    if r and all(l.startswith("[") or not l.startswith(("[", ">", "-")) for l in r.split("\n")) and r.count("]:") == len(re.findall(r"^\[", r, flags=re.M)) and "not a def" not in r and "\\\n" not in r:
        if md.render(r).strip():
            fails.append({"what": f"definitions-only document {r!r} leaves output {md.render(r)[:60]!r}", "key": "C16/def-lines"})
        er: dict = {}
        md.parse(r, er)
        maps = sorted([v["map"] for v in (er.get("references") or {}).values()] + [x["map"] for x in (er.get("duplicate_refs") or [])])
        nl = r.count("\n")
        pos = 0
        for m in maps:
            if m[0] != pos:
                fails.append({"what": f"definition maps {maps} do not tile the {nl} lines of {r!r}", "key": "C16/def-maps"})
                break
            pos = m[1]
        else:
            if maps and pos != nl:
                fails.append({"what": f"definition maps {maps} do not cover the {nl} lines of {r!r}", "key": "C16/def-maps"})
    # every definition in the source recorded exactly once, first wins
    e2: dict = {}
    md.parse(r + "\n" + d, e2)
    e3: dict = {}
    md.parse(r, e3)
    md.parse(d, e3)
    def recs(e, shift=0):
        refs = [(k, v["href"], v["title"]) for k, v in (e.get("references") or {}).items()]
        dups = [(x["label"], x["href"], x["title"]) for x in (e.get("duplicate_refs") or [])]
        return refs, sorted(dups)
    # a definition is recorded with the map of its own lines: nothing it consumed lies outside them, so its destination
    # cannot contain a line ending (the destination parser reports no lines)
    for k, v in list((e2.get("references") or {}).items()) + [(x["label"], x) for x in (e2.get("duplicate_refs") or [])]:
        if "%0A" in v["href"] or "\n" in v["href"]:
            fails.append({"what": f"definition {k!r} has a destination spanning a line ending ({v['href']!r}) but map {v['map']}", "key": "C16/dest-line-ending"})
    if recs(e2) != recs(e3):
        fails.append({"what": "definitions recorded differently when env is seeded vs parsed in one go (first-wins / duplicates)", "key": "C16/records"})
    return {"sig": (len(e2.get("references") or {}), len(e2.get("duplicate_refs") or []), seeded[:30]), "fail": fails}


def c16_form(state, cfg, case):
    """case = (img, text, dest, title): reference form == inline form"""
    img, txt, dst, ttl = case
    md = _md(state, cfg)
    bang = "!" if img else ""
    inline = f"{bang}[{txt}]({dst}{' ' + ttl if ttl else ''})\n"
    ref = f"{bang}[{txt}][r]\n\n[r]: {dst}{' ' + ttl if ttl else ''}\n"
    a, b = md.render(inline), md.render(ref)
    fails = []
    whole = a.startswith("<p><a href=") and a.rstrip().endswith("</a></p>") or a.startswith("<p><img src=") and a.rstrip().endswith("/></p>")
    if a != b and whole:
        fails.append({"what": f"reference form renders {b!r}, inline form {a!r}", "key": "C16/form"})
    return {"sig": (img, a[:40]), "fail": fails}


def c16_labels(state, cfg, case):
    """case = (label_def, label_use): labels equal under case folding + whitespace collapsing must match"""
    ld, lu = case
    md = _md(state, cfg)
    out = md.render(f"[{ld}]: /u\n\n[{lu}]\n")
    import unicodedata

    def fold(s):
        return re.sub(r"\s+", " ", s.strip()).casefold()

    fails = []
    if fold(ld) == fold(lu) and fold(ld) and '<a href="/u">' not in out:
        fails.append({"what": f"labels {ld!r} / {lu!r} are equal under case folding but do not match", "key": "C16/casefold"})
    return {"sig": (fold(ld) == fold(lu), out[:20]), "fail": fails}


# ============================================================================ C17
def _sig17(toks):
    out = []
    for t in toks:
        out.append((t.type, t.tag, t.nesting, t.level, tuple(t.map) if t.map else None, t.markup, t.info, tuple(sorted((t.attrs or {}).items())),
                    t.content if t.type not in ("inline",) else None, tuple((c.type, c.content, c.markup) for c in t.children or [])))
    return out


def c17_lineend(state, cfg, doc):
    if "\r" in doc:
        return None
    md = _md(state, cfg)
    base = md.parse(doc)
    hb = md.render(doc)
    fails = []
    for name, le in (("CRLF", "\r\n"), ("CR", "\r")):
        v = doc.replace("\n", le)
        if [t.as_dict() for t in md.parse(v)] != [t.as_dict() for t in base] or md.render(v) != hb:
            fails.append({"what": f"{name} line endings change the token stream or HTML", "key": f"C17/{name}"})
    if "\0" in doc:
        if md.render(doc.replace("\0", "�")) != hb:
            fails.append({"what": "NUL behaves differently from U+FFFD", "key": "C17/NUL"})
    def has_bad(ts):
        for t in ts:
            if "\r" in t.content or "\0" in t.content:
                return True
            if t.children and has_bad(t.children):
                return True
        return False
    if has_bad(md.parse(doc.replace("\n", "\r\n"))) or has_bad(base):
        fails.append({"what": "a CR or NUL reached a token's content", "key": "C17/content"})
    return {"sig": tok_sig(base), "fail": fails}


def _expand_leading(line):
    """leading blank run spelled with spaces up to the same column"""
    col = 0
    i = 0
    while i < len(line) and line[i] in " \t":
        col += 4 - col % 4 if line[i] == "\t" else 1
        i += 1
    return " " * col + line[i:]


def _struct(toks):
    out = []
    for t in toks:
        verbatim = t.type in ("code_block", "fence", "html_block")
        kids = []
        for c in t.children or []:
            # a tab that is not structural (inside paragraph text) legitimately stays a tab: compare text modulo blank runs
            kids.append((c.type, re.sub(r"[ \t]+", " ", c.content) if c.type not in ("code_inline",) else None, c.markup))
        out.append((t.type, t.tag, t.nesting, t.level, tuple(t.map) if t.map else None, t.markup, t.info, tuple(sorted((t.attrs or {}).items())),
                    None if (verbatim or t.type == "inline") else t.content, tuple(kids)))
    return out


def c17_tabs(state, cfg, doc):
    if "\t" not in doc:
        return None
    md = _md(state, cfg)
    spaced = "\n".join(_expand_leading(l) for l in doc.split("\n"))
    if spaced == doc:
        return None
    a, b = md.parse(doc), md.parse(spaced)
    fails = []
    if _struct(a) != _struct(b):
        fails.append({"what": f"leading tabs vs column-exact spaces parse differently: {doc!r} vs {spaced!r}", "key": "C17/leading-tabs"})
    return {"sig": tok_sig(a), "fail": fails}


def c17_marker_tabs(state, cfg, case):
    """case = (segments, leaf): segments of (indent, marker, blanks); the blank run after a marker is spelled with a
    tab when it ends on a tab stop and is <= 4 wide; both spellings must give the same structure"""
    segs, leaf = case
    md = _md(state, cfg)
    sp = ""
    tb = ""
    col = 0
    for ind, marker, blanks in segs:
        sp += " " * ind + marker
        tb += " " * ind + marker
        col += ind + len(marker)
        end = col + blanks
        sp += " " * blanks
        if end % 4 == 0 and blanks <= 4:
            tb += "\t"
        else:
            tb += " " * blanks
        col = end
    sp += leaf + "\n"
    tb += leaf + "\n"
    if sp == tb:
        return None
    a, b = md.parse(tb), md.parse(sp)
    fails = []
    if _struct(a) != _struct(b):
        fails.append({"what": f"tab after marker vs spaces parse differently: {tb!r} vs {sp!r}", "key": "C17/marker-tabs"})
    return {"sig": tok_sig(b), "fail": fails}


def c17_twoline(state, cfg, case):
    """case = (first_line, segs, leaf): second line of a container opened on the first line, tab vs spaces after markers"""
    first, segs, leaf = case
    md = _md(state, cfg)
    sp = tb = ""
    col = 0
    for ind, marker, blanks in segs:
        sp += " " * ind + marker
        tb += " " * ind + marker
        col += ind + len(marker)
        end = col + blanks
        sp += " " * blanks
        tb += "\t" if (end % 4 == 0 and blanks <= 4) else " " * blanks
        col = end
    a = first + "\n" + tb + leaf + "\n"
    b = first + "\n" + sp + leaf + "\n"
    if a == b:
        return None
    ta, tb_ = md.parse(a), md.parse(b)
    fails = []
    if _struct(ta) != _struct(tb_):
        fails.append({"what": f"tab after marker on a continuation line vs spaces parse differently: {a!r} vs {b!r}", "key": "C17/marker-tabs-2"})
    return {"sig": tok_sig(tb_), "fail": fails}


def c17_twoline_cases():
    import itertools

    firsts = [">>", "> > a", "> a", "> - a", "- a", ">", "> 1. a"]
    segs1 = [(i, m, b) for i in (0, 1) for m in (">", "-", "1.") for b in range(1, 5)]
    cases = []
    for f in firsts:
        for n in (1, 2):
            for combo in itertools.product(segs1, repeat=n):
                for leaf in ("foo", "- b"):
                    cases.append((f, combo, leaf))
    return cases


def c17_marker_cases():
    import itertools

    markers = [">", "-", "*", "1.", "12)"]
    segs1 = [(i, m, b) for i in range(0, 4) for m in markers for b in range(1, 5)]
    cases = []
    for n in (1, 2, 3):
        pool = segs1 if n == 1 else [s for s in segs1 if s[0] in (0, 1)]
        for combo in itertools.product(pool, repeat=n):
            if n == 3 and any(s[0] != 0 for s in combo):
                continue
            for leaf in ("x", "- y", "> z"):
                if n >= 2 and leaf != "x" and combo[0][2] > 2:
                    continue
                cases.append((combo, leaf))
    return cases


# ============================================================================ C18
def c18_inline(state, cfg, doc):
    md = _md(state, cfg)
    toks = md.parse(doc)
    fails = []
    sig = None
    if len(toks) == 3 and toks[0].type == "paragraph_open" and toks[1].content == doc:
        it = md.parseInline(doc)
        sig = tuple(c.type for c in toks[1].children)
        if len(it) != 1 or it[0].type != "inline" or [c.as_dict() for c in it[0].children] != [c.as_dict() for c in toks[1].children]:
            fails.append({"what": "parseInline children differ from the paragraph's children", "key": "C18/parseInline"})
        html = md.render(doc)
        if html != "<p>" + md.renderInline(doc) + "</p>\n":
            fails.append({"what": "renderInline != paragraph HTML without <p>", "key": "C18/renderInline"})
    return {"sig": sig, "fail": fails}


def _kids(toks, typ="inline"):
    for t in toks:
        if t.type == typ:
            return [(c.type, c.tag, c.nesting, c.content, c.markup, c.info, tuple(sorted((c.attrs or {}).items()))) for c in t.children or []]
    return None


def c18_embed(state, cfg, txt):
    """the same one-line inline text in paragraph / ATX heading / list item / quote / table cell"""
    if "\n" in txt or txt != txt.strip() or not txt:
        return None
    md = _md(state, cfg)
    p = md.parse(txt + "\n")
    if len(p) != 3 or p[0].type != "paragraph_open" or p[1].content != txt:
        return None
    ref = _kids(p)
    fails = []
    ctxs = {"heading": "# " + txt + "\n", "list item": "- " + txt + "\n", "quote": "> " + txt + "\n"}
    if not txt.rstrip().endswith("#") and not re.search(r"(^|\s)#+\s*$", txt):
        pass
    else:
        ctxs.pop("heading")
    if "|" not in txt and "table" in md.get_active_rules()["block"]:
        ctxs["table cell"] = "| " + txt + " |\n|---|\n"
    for name, d in ctxs.items():
        t = md.parse(d)
        exp_open = {"heading": "heading_open", "list item": "bullet_list_open", "quote": "blockquote_open", "table cell": "table_open"}[name]
        if not t or t[0].type != exp_open:
            continue  # the text itself starts another construct there: outside the statement's guard
        inl = [x for x in t if x.type == "inline"]
        if len(inl) != 1 or inl[0].content != txt:
            continue
        if _kids(t) != ref:
            fails.append({"what": f"inline text {txt!r} yields different inline tokens in a {name}", "key": f"C18/embed/{name}"})
    return {"sig": tuple(r[0] for r in ref), "fail": fails[:3]}


def c18_options(state, cfg, doc):
    from markdown_it import MarkdownIt

    preset, opts, en, dis = U.CONFIGS[cfg]
    key = ("c18", cfg)
    if key not in state:
        full = {"xhtmlOut": True, "breaks": False, "langPrefix": "language-", "highlight": None}

        def mk(extra):
            m = MarkdownIt(preset, {**opts, **full, **extra})
            if en:
                m.enable(en)
            if dis:
                m.disable(dis)
            return m
        hl = lambda code, lang, attrs: "<b>HL</b>" if lang else ""  # noqa: E731
        state[key] = {"base": mk({}),
                      "xhtml": mk({"xhtmlOut": False}), "breaks": mk({"breaks": True}), "lang": mk({"langPrefix": "LP-"}), "hl": mk({"highlight": hl})}
    ms = state[key]
    base = ms["base"]
    tb = [t.as_dict() for t in base.parse(doc)]
    hb = base.render(doc)
    fails = []
    for name in ("xhtml", "breaks", "lang", "hl"):
        if [t.as_dict() for t in ms[name].parse(doc)] != tb:
            fails.append({"what": f"renderer-only option {name} changes the token stream", "key": f"C18/opt-tokens/{name}"})
    hx = ms["xhtml"].render(doc)
    if hx != re.sub(r" />", ">", hb) and hx.replace(">", " />") != hb.replace(">", " />"):
        if re.sub(r"\s*/>", ">", hb) != re.sub(r"\s*/>", ">", hx):
            fails.append({"what": "xhtmlOut changes more than the spelling of void tags", "key": "C18/opt-html/xhtmlOut"})
    hbr = ms["breaks"].render(doc)
    if hbr.replace("<br />\n", "\n") != hb.replace("<br />\n", "\n"):
        fails.append({"what": "breaks changes more than soft line breaks", "key": "C18/opt-html/breaks"})
    hl_ = ms["lang"].render(doc)
    if hl_.replace('class="LP-', 'class="language-') != hb:
        fails.append({"what": "langPrefix changes more than the fence class", "key": "C18/opt-html/langPrefix"})
    hh = ms["hl"].render(doc)
    strip_fence = lambda h: re.sub(r"<pre><code[^>]*>.*?</code></pre>", "<FENCE>", h, flags=re.S)  # noqa: E731
    toks = base.parse(doc)
    # only fences (tokens of type fence) may differ
    def mask(md_, h):
        return h
    if strip_fence(hh) != strip_fence(hb):
        fails.append({"what": "highlight changes HTML outside code blocks", "key": "C18/opt-html/highlight"})
    else:
        # indented code blocks must not be passed to the highlighter
        n_fence_with_lang = sum(1 for t in toks if t.type == "fence" and t.info.strip())
        if hh.count("<b>HL</b>") != n_fence_with_lang:
            fails.append({"what": f"highlight callback output appears {hh.count('<b>HL</b>')} times for {n_fence_with_lang} fences with a language", "key": "C18/opt-html/highlight-scope"})
    return {"sig": tok_sig(toks), "fail": fails[:3]}


# ============================================================================ C19
def c19_typographer(state, cfg, case):
    from markdown_it import MarkdownIt

    doc, quotes = case
    key = ("c19", cfg, repr(quotes))
    if key not in state:
        preset = U.CONFIGS[cfg][0]
        off = MarkdownIt(preset, {"typographer": False})
        ms = {"off": off}
        for name, rules in (("repl", ["replacements"]), ("sq", ["smartquotes"]), ("both", ["replacements", "smartquotes"])):
            m = MarkdownIt(preset, {"typographer": True, **({"quotes": quotes} if quotes else {})})
            m.enable(rules)
            m.disable([r for r in ("replacements", "smartquotes") if r not in rules], True)
            ms[name] = m
        state[key] = ms
    ms = state[key]
    base = ms["off"].parse(doc)
    fails = []
    q = ms["sq"].options["quotes"]
    qs = [q[0], q[1], q[2], q[3], "’"]

    def flat(ts, out, auto=0):
        for t in ts:
            out.append(t)
        return out

    def compare(a_ts, b_ts, mode, path="top"):
        if [t.type for t in a_ts] != [t.type for t in b_ts] or [t.level for t in a_ts] != [t.level for t in b_ts] or [t.nesting for t in a_ts] != [t.nesting for t in b_ts]:
            fails.append({"what": f"{mode}: typographer changes the shape of the token stream ({path})", "key": f"C19/shape/{mode}"})
            return
        auto = 0
        for x, y in zip(a_ts, b_ts):
            if x.type == "link_open" and x.info == "auto":
                auto += 1
            if x.type == "link_close" and x.info == "auto":
                auto -= 1
            if x.type == "text" and path != "top":
                if auto and x.content != y.content:
                    fails.append({"what": f"{mode}: autolink text rewritten: {x.content!r} -> {y.content!r}", "key": f"C19/autolink/{mode}"})
                elif mode == "sq" and x.content != y.content:
                    # only straight quotes may be substituted, in place
                    rx = "^" + "".join("(?:" + "|".join(re.escape(z) for z in sorted(set(qs + [ch]), key=len, reverse=True) if z != "" or True) + ")" if ch in "\"'" else re.escape(ch) for ch in x.content) + "$"
                    if not re.match(rx, y.content):
                        fails.append({"what": f"smartquotes changed text other than straight quotes: {x.content!r} -> {y.content!r}", "key": "C19/sq-local"})
            else:
                dx, dy = x.as_dict(), y.as_dict()
                dx.pop("children", None)
                dy.pop("children", None)
                if x.type == "inline":
                    dx.pop("content", None), dy.pop("content", None)
                if dx != dy:
                    fails.append({"what": f"{mode}: non-text token {x.type} changed", "key": f"C19/nontext/{mode}"})
                if x.children is not None and y.children is not None:
                    if x.type == "image":
                        if [c.as_dict() for c in x.children] != [c.as_dict() for c in y.children]:
                            fails.append({"what": f"{mode}: image children changed", "key": f"C19/image/{mode}"})
                    else:
                        compare(x.children, y.children, mode, path + "/" + x.type)

    for mode in ("repl", "sq", "both"):
        compare(base, ms[mode].parse(doc), mode)
    # escapes / entities are never rewritten
    return {"sig": tuple(c.type for t in base for c in t.children or []), "fail": fails[:3]}


# ============================================================================ C04
VOID = {"br", "hr", "img"}
TAGS = {"p", "h1", "h2", "h3", "h4", "h5", "h6", "blockquote", "ul", "ol", "li", "pre", "code", "em", "strong", "s", "a", "img", "br", "hr",
        "table", "thead", "tbody", "tr", "th", "td"}
ATTRS = {"href", "src", "alt", "title", "class", "start", "style"}
TAG_RE = re.compile(r"<(/?)([A-Za-z][A-Za-z0-9]*)((?:\s+[A-Za-z_:][-A-Za-z0-9_:.]*=\"[^\"<>]*\")*)\s*(/?)>")


def c04_safe(state, cfg, doc):
    md = _md(state, cfg)
    if md.options["html"]:
        return None
    out = md.render(doc)
    fails = []
    pos = 0
    stack = []
    for m in TAG_RE.finditer(out):
        text = out[pos:m.start()]
        pos = m.end()
        bad = re.search(r"[<>\"]|&(?!(amp|lt|gt|quot);)", text)
        if bad:
            fails.append({"what": f"unescaped character {bad.group(0)!r} in text {text[:40]!r}", "key": "C04/text-escape"})
            break
        close, tag, attrs, selfc = m.groups()
        if tag not in TAGS:
            fails.append({"what": f"element <{tag}> is not in the renderer's vocabulary", "key": "C04/vocab"})
            break
        for am in re.finditer(r"\s+([A-Za-z_:][-A-Za-z0-9_:.]*)=\"([^\"<>]*)\"", attrs):
            if am.group(1) not in ATTRS:
                fails.append({"what": f"attribute {am.group(1)} is not in the renderer's vocabulary", "key": "C04/attr-vocab"})
            if re.search(r"&(?!(amp|lt|gt|quot);)", am.group(2)):
                fails.append({"what": f"unescaped & in attribute value {am.group(2)[:40]!r}", "key": "C04/attr-escape"})
        if close:
            if not stack or stack[-1] != tag:
                fails.append({"what": f"improper nesting: </{tag}> while open elements are {stack[-4:]}", "key": "C04/nesting"})
                break
            stack.pop()
        elif tag not in VOID and not selfc:
            stack.append(tag)
    else:
        text = out[pos:]
        bad = re.search(r"[<>\"]|&(?!(amp|lt|gt|quot);)", text)
        if bad:
            fails.append({"what": f"unescaped character {bad.group(0)!r} in trailing text {text[:40]!r} (unterminated tag?)", "key": "C04/text-escape"})
        if stack:
            fails.append({"what": f"unclosed elements {stack}", "key": "C04/nesting"})
    return {"sig": tuple(re.findall(r"<(/?[a-z0-9]+)", out))[:40], "fail": fails[:3]}


# ============================================================================ C05
DANGEROUS = re.compile(r"^[\x00-\x20]*(javascript|vbscript|file|data):", re.I)
GOOD_DATA = re.compile(r"^[\x00-\x20]*data:image/(gif|png|jpeg|webp);", re.I)
URL_SAFE = re.compile(r"^[A-Za-z0-9;/?:@&=+$,\-_.!~*'()#%\[\]]*$")


def c05_urls(state, cfg, doc):
    md = _md(state, cfg)
    toks = md.parse(doc)
    fails = []
    n = 0

    def visit(ts):
        nonlocal n
        for t in ts:
            for k in ("href", "src"):
                v = (t.attrs or {}).get(k)
                if v is not None:
                    n += 1
                    if not URL_SAFE.match(str(v)):
                        fails.append({"what": f"{t.type} {k}={v!r} is not percent-encoded URL-safe ASCII", "key": "C05/encoding"})
                    if DANGEROUS.match(str(v)) and not GOOD_DATA.match(str(v)):
                        fails.append({"what": f"{t.type} {k}={v!r} carries a dangerous scheme", "key": "C05/scheme"})
            if t.children:
                visit(t.children)

    visit(toks)
    return {"sig": (n, tok_sig(toks)), "fail": fails[:3]}


def c05_docs():
    schemes = ["javascript:alert(1)", "JaVaScRiPt:alert(1)", "vbscript:x", "file:///etc/passwd", "data:text/html;base64,AA", "data:image/png;base64,AA",
               "DATA:image/gif;x", "data:image/svg+xml;x", "java\\script:x", "javascript&colon;x", "&#106;avascript:x", "javascript&#58;x", "&#x6A;avascript:x",
               " javascript:x", "\x01javascript:x", "javascript:x//data:image/png;", "http://a.b/c d", "http://é.x/ü?q=ß", "/rel?a=1&b=2", "#frag", "mailto:a@b.c",
               "javascript:x#data:image/gif;", "\tjavascript:x", "vbscript:x//data:image/webp;", "FILE:x", "x\x7fy:z"]
    docs = []
    for s in schemes:
        docs += [f"[a]({s})\n", f"[a](<{s}>)\n", f"![a]({s})\n", f"![a](<{s}>)\n", f"<{s}>\n", f"[a][r]\n\n[r]: {s}\n", f"[a][r]\n\n[r]: <{s}>\n", f"![a][r]\n\n[r]: <{s}> 't'\n"]
    return docs


# ============================================================================ C20
class _CostCapExceeded(BaseException):
    pass


def _count_calls(md, src, limit=None):
    """python-level calls into markdown_it during render(src); with a limit the run is abandoned as soon as the count
    passes it (the verdict 'more than limit calls' is then exact and no time is spent on the rest)"""
    import sys

    n = [0]

    def prof(frame, event, arg):
        if event == "call" and "markdown_it" in frame.f_code.co_filename:
            n[0] += 1
            if limit is not None and n[0] > limit:
                sys.setprofile(None)
                raise _CostCapExceeded()

    sys.setprofile(prof)
    try:
        md.render(src)
    except _CostCapExceeded:
        pass
    finally:
        sys.setprofile(None)
    return n[0]


C20_FAMILIES = {
    "brackets-open": lambda n: "[" * n, "brackets-nest": lambda n: "[" * n + "a" + "]" * n, "brackets-a": lambda n: "[a" * n,
    "img-open": lambda n: "![" * n, "emph-run": lambda n: "*" * n, "emph-alt": lambda n: "*a " * n, "emph-under": lambda n: "_a_" * n,
    "emph-mixed": lambda n: "*_" * n + "a" + "_*" * n, "strong": lambda n: "**a " * n, "backticks": lambda n: "`" * n, "backtick-runs": lambda n: " ".join("`" * (i % 7 + 1) for i in range(n)),
    "backtick-open": lambda n: "`a " * n, "entities": lambda n: "&amp;" * n, "entity-bad": lambda n: "&a" * n, "lt": lambda n: "<" * n, "lt-a": lambda n: "<a " * n,
    "autolink-ish": lambda n: "<http:" * n, "quotes": lambda n: "> " * n + "a", "quote-lines": lambda n: "> a\n" * n, "list-nest": lambda n: "- " * n + "a",
    "list-lines": lambda n: "- a\n" * n, "lazy": lambda n: "> a\n" + "b\n" * n, "mixed-nest": lambda n: "> + " * n + "a", "table-rows": lambda n: "a|b\n-|-\n" + "c|d\n" * n,
    "parens": lambda n: "[a](" + "(" * n, "link-dest": lambda n: "[a](" + "<" * n, "escapes": lambda n: "\\*" * n, "tildes": lambda n: "~~a " * n,
    "hr-ish": lambda n: "- " * n, "headings": lambda n: "# a\n" * n, "fences": lambda n: "```\n" * n, "html-ish": lambda n: "<div>\n" * n,
    "spaces": lambda n: " " * n + "a", "newlines": lambda n: "a\n\n" * n, "refdefs": lambda n: "".join(f"[a{i}]: /u\n" for i in range(n)),
    "ref-use": lambda n: "[a]: /u\n\n" + "[a] " * n, "link-nest": lambda n: "[" * n + "a" + "](/u)" * n, "setext": lambda n: "a\n" * n + "===\n",
    # look-ahead over complete links from unmatched openers (exponential unless the skip memo survives a recognised link)
    "img-open-links": lambda n: "![[]()" * n, "open-links": lambda n: "[[a](b)" * n, "links": lambda n: "[a](b) " * n, "link-in-open-label": lambda n: "[a [b](c) " * n,
}


def c20_cost(state, cfg, case):
    fam, L = case
    md = _md(state, cfg)
    gen = C20_FAMILIES[fam]
    unit = max(1, len(gen(10)) // 10)
    fails = []
    costs = []
    cap = 12 * int(md.options["maxNesting"])
    for mult in (1, 2, 4):
        src = gen(max(1, (L * mult) // unit))
        c = _count_calls(md, src, limit=2 * cap * max(1, len(src)))  # well past the per-character cap: the case is decided
        costs.append((len(src), c))
    per_char = [c / max(1, l) for l, c in costs]
    # doubling never much more than doubles the work; work per character bounded
    for (l1, c1), (l2, c2) in zip(costs, costs[1:]):
        if c1 > 200 and c2 > 2.6 * c1 * (l2 / (2 * l1)):
            fails.append({"what": f"family {fam}: {l1}->{l2} chars, calls {c1}->{c2} (x{c2 / c1:.2f})", "key": f"C20/growth/{fam}"})
            break
    # bounded work per character: the memoised inline scans cost O(maxNesting) per character, nothing may cost more
    cap = 12 * int(md.options["maxNesting"])
    if max(per_char) > cap:
        fails.append({"what": f"family {fam}: {max(per_char):.0f} calls per character (cap 12 x maxNesting = {cap})", "key": f"C20/per-char/{fam}"})
    # nesting cut off
    return {"sig": (fam, round(per_char[-1])), "fail": fails}


# ============================================================================ generators of case lists
def gen_c07(tier):
    import itertools

    A = [d for d in U.docs_k(2) if d.endswith("\n")]
    if tier == "quick":
        B = [l + "\n" for l in U.V if l and l[0] not in " \t"]
        small = [l for l in U.V if l and l[0] not in " \t"]
        for a in U.V:
            if not a:
                continue
            for b1 in small:
                for b2 in U.V:
                    yield (a + "\n", b1 + "\n" + b2 + "\n")
        for a1 in ("a", "# h", "- x"):
            for b1 in ("a|b", "| a | b |"):
                for b3 in U.V:
                    yield (a1 + "\n", b1 + "\n-|-\n" + b3 + "\n")
    else:
        small = [l for l in U.V if l and l[0] not in " \t"]
        B = [l + "\n" for l in small] + [a + "\n" + b + "\n" for a in small for b in U.V[:40]]
    for a in A:
        for b in B:
            yield (a, b)


def gen_c08_blanks(tier):
    """documents whose would-be indentation contains blanks other than space and tab: they are content, never indentation"""
    blanks = ["\xa0", "\x0c", "\x0b", "\u2003", "\u3000", "\x1f", "\u200b"]
    if tier == "quick":
        blanks = blanks[:5]
    for b in blanks:
        for doc in (f"   {b}foo\n", f"    {b}foo\n", f"{b}    foo\n", f"    a\n    {b}b\n", f"  {b}  foo\n", f"- a\n\n      {b}code\n", f"```\n  {b}x\n```\n", f"- ```\n  {b}code\n  ```\n",
                    f"  ```\n  {b}code\n  ```\n", f"> {b} quoted\n", f">     {b}code\n", f"    code\n{b}   more\n", f"<div>\n {b}x\n</div>\n", f"1. a\n\n       {b}c\n", f"\t{b}foo\n", f" {b}\tfoo\n"):
            yield doc
            yield doc.rstrip("\n")


def gen_c16_refs(tier):
    defs = ["[a]: /u\n", "[a]: /v 't'\n", "[A]: /w\n", "[b]: <x y> (t)\n", "[a]: /u\n[a]: /z\n", "[ a  b ]: /ab\n", "[ß]: /ss\n", "[c]:\n/m\n'multi\nline'\n",
            "[d]: /d \"hard\\\nbreak\"\n", "> [q]: /q\n", "- [l]: /l\n", "[e]: /e\nnot a def\n", "", "[ẞ]: /SS\n", "[f]: <a\\\nb>\n", "[g]: a\\\nb\n",
            "[h]: /h \"one&#10;two\"\n[i]: /i\n", "[j]: /j 'x&NewLine;y'\n[k]: /k\n", "[m]: /m (a&#xA;b)\n", "[n]: /n \"a\\\"b\nc\"\n[o]: /o\n"]
    uses = ["[a]\n", "[A] [b]\n", "![a]\n", "[x][a]\n", "[a]: /other\n\n[a]\n", "[a b]\n", "[SS] [ss]\n", "[c] [d]\n", "[q] [l]\n", "[e]\n", "plain\n", "[a]: /u\n\n[a]\n"]
    for r in defs:
        for d in uses:
            yield (r, d)
    if tier != "quick":
        for r1 in defs:
            for r2 in defs:
                for d in uses[:6]:
                    yield (r1 + r2, d)


def gen_c16_form(tier):
    texts = ["x", "*e*", "a\\]b", "`c`", "[n]", "a &amp; b", "![i](/s)", "x\ny"]
    dests = ["/u", "<a b>", "/a(b)c", "/a\\)b", "http://é.x/ü", "/q?a=1&amp;b=2", "<>", "/x%20y", "javascript:x", "/a_b*c*"]
    titles = ["", "'t'", "\"a \\\" b\"", "(p)", "\"hard\\\nbreak\"", "'multi\nline'", "'&amp; \\*'", "\"C\\:\\\\dir\\\\\""]
    if tier == "quick":
        dests = dests[:8]
    for img in (False, True):
        for t in texts:
            for d in dests:
                for ti in titles:
                    yield (img, t, d, ti)


def gen_c16_labels(tier):
    labs = ["a", "A", "ß", "SS", "ss", "ẞ", "ǆ", "ǅ", "Ǆ", "İ", "i̇", "ſ", "S", "ά", "Ά", "ﬁ", "FI", "a  b", "a b", "A\tB", " a ", "é", "É", "Σ", "σ", "ς", "K", "K", "ǰ", "J̌"]
    for x in labs:
        for y in labs:
            yield (x, y)


def gen_c19(tier):
    quotes = [None, "«»‹›", ["``", "''", "`", "'"], ["", "x", "ab", "abc"], "\"\"''"]
    k = 2 if tier == "quick" else 3
    frags = ["a", " ", "\"", "'", "*", "_", "`", "[", "](/u)", "<http://a.b/'c'>", "<http://q/--x...>", "&quot;", "\\\"", "--", "...", "(c)", "+-", "\n", "!", "1", ".", "(tm)", "<b>", "![", ",,", "??"]
    import itertools

    for q in quotes:
        for n in range(1, k + 2):
            if n == k + 1 and tier == "quick":
                # a sample of longer ones
                for parts in itertools.islice(itertools.product(frags[:12], repeat=n), 0, 20000, 7):
                    yield ("".join(parts), q)
                continue
            if n == k + 1:
                break
            for parts in itertools.product(frags, repeat=n):
                yield ("".join(parts), q)
        for d in ['"a" <http://a.b/\'c\'> \'x\'', '[x](/u) <http://q/--x...v1...v2> ...', "*\"a\"* '**b**' \"c'd\"", "\"a `\"c\"` b\"", "\"[a](/u \"t\")\"", "1\"\" 2'", "''a'' \"\"b\"\""]:
            yield (d, q)


# C19, last clause: characters written as backslash escapes or character references are never rewritten - a typographic
# trigger with one of its characters written that way is no trigger, whatever else the paragraph holds
C19_TRIGGERS = ["(c)", "(C)", "(r)", "(R)", "(tm)", "(TM)", "+-", "...", "..", "--", "---", "\"a\"", "'a'", "a'b", "?....", "!....", ",,", "??", "!!!!"]


_C19_STILL_A_TRIGGER = re.compile(r"\.{2,}|--|\+-|,,|\?\?|!!|['\"]|\((?:c|r|tm)\)", re.IGNORECASE)


def gen_c19_literals(tier):
    def forms_of(ch):
        forms = [f"&#{ord(ch)};", f"&#x{ord(ch):x};"]
        if ch in PUNCT:
            forms.append("\\" + ch)
        if ch == '"':
            forms.append("&quot;")
        return forms

    for trig in C19_TRIGGERS:
        if '"' in trig or "'" in trig:
            # every straight quote is a trigger of its own: write all of them as escapes / references
            for k in range(3):
                enc = "".join((forms_of(ch) + forms_of(ch))[k] if ch in "\"'" else ch for ch in trig)
                yield (trig, enc)
            continue
        for i, ch in enumerate(trig):
            # only positions whose removal leaves no trigger behind (`&#46;..` still holds the trigger `..`)
            if _C19_STILL_A_TRIGGER.search(trig[:i]) or _C19_STILL_A_TRIGGER.search(trig[i + 1:]):
                continue
            for f in forms_of(ch):
                yield (trig, trig[:i] + f + trig[i + 1:])


def c19_literals(state, cfg, case):
    from markdown_it import MarkdownIt

    trig, enc = case
    key = ("c19lit", cfg)
    if key not in state:
        preset = U.CONFIGS[cfg][0]
        ms = {}
        for name, rules in (("repl", ["replacements"]), ("sq", ["smartquotes"]), ("both", ["replacements", "smartquotes"])):
            m = MarkdownIt(preset, {"typographer": True})
            m.enable(rules)
            m.disable([r for r in ("replacements", "smartquotes") if r not in rules], True)
            ms[name] = m
        state[key] = ms
    fails = []
    lit = _html.escape(trig, quote=True).replace("&#x27;", "'")
    for prefix in ("", "(r) \"q\" +- "):
        for mode, m in state[key].items():
            want = m.render(prefix + "zz qq").replace("zz", lit)
            got = m.render(prefix + enc + " qq")
            if got != want:
                fails.append({"what": f"{mode}: {prefix + enc!r} rendered {got!r}, expected the literal {want!r} (an escaped / referenced character was rewritten)", "key": f"C19/literal/{mode}"})
    return {"sig": (trig, enc), "fail": fails[:3]}


def gen_inline_texts(tier):
    k = 2 if tier == "quick" else 3
    for d in U.inline_docs(k):
        if "\n" not in d and d == d.strip() and d:
            yield d


def gen_c08_spans(tier):
    import itertools

    alpha = [" ", "a", "\n", "\xa0", "\t", " ", "x y", "\x0b"]
    k = 3 if tier == "quick" else 5
    for n in range(1, k + 1):
        for parts in itertools.product(alpha, repeat=n):
            yield "".join(parts)


def gen_c09(tier):
    yield from c09_texts(2 if tier == "quick" else 3)


def gen_c20(tier):
    L = 1500 if tier == "quick" else 12000
    for fam in C20_FAMILIES:
        yield (fam, L)
