"""C20 - work grows at most linearly on adversarial inputs (guards hold)."""
from ..propbase import gen_universe, STD_TRUST
from ..report import Report


def run(tier, seed):
    rep = Report("C20", tier, seed, "other")
    from ..propbase import deductive
    import contracts.inline as CI
    deductive(rep, "C20", CI.C20_FUNCS, "contracts.inline", select=lambda q, ob, rel: True)
    deductive(rep, "C20", ["markdown_it.parser_block.ParserBlock.tokenize"], "contracts.block", select=lambda q, ob, rel: True)
    import contracts.helpers as HP
    import contracts.linkc as LK
    deductive(rep, "C20", [HP.QL], "contracts.helpers")
    deductive(rep, "C20", LK.FUNCS, "contracts.linkc")
    import contracts.rxrules as RXR
    deductive(rep, "C20", [RXR.QE, RXR.QH], "contracts.rxrules")
    gen_universe(rep, "vf.oracles2:c20_cost", "vf.oracles2:gen_c20", tier, "MarkdownIt.render", "cost contract: calls(render(x)) <= 12*maxNesting*len(x) and cost(2L) <= 2.6*cost(L) (cost = python-level calls into markdown_it, sys.setprofile)",
                 ["commonmark", "js-default"], "38 pathological families at L, 2L, 4L; distinct = distinct (family, calls per character)", "pathological families", timeout_s=300)
    rep.explanation = ("Mixed. Deductive: the guards - rule calls in ParserBlock.tokenize, ParserInline.tokenize and skipToken happen only under level < maxNesting (GUARD at the dispatch call sites); skipToken always advances, "
                       "memoises every result (cache[pos] == new pos, also for failed skips) and returns from the cache without calling a rule; both tokenizers terminate (DEC). Bounded for the growth claim: 'work per character stays bounded as inputs grow' is an amortised resource bound over whole runs; no potential-function proof is attempted, it is decided "
                       "only by the bounded cost contract on the real render. Deductive part (when contracts.guards is present): the nesting guards (rule calls only under level < maxNesting; skipToken memo).")
    rep.trusted_base += STD_TRUST
    rep.assumptions += ["cost measured as python-level calls into markdown_it (deterministic)"]
    return rep
