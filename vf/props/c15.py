"""C15 - tokens survive serialisation and tree conversion; rendering is repeatable."""
from ..propbase import lines_universe, inline_universe, STD_TRUST
from ..report import Report
from .c12 import add_frame


def run(tier, seed):
    rep = Report("C15", tier, seed, "other")
    add_frame(rep, "C15", filter_fn=lambda o: o["func"].startswith(("markdown_it.renderer.", "markdown_it.token.", "markdown_it.tree.")))
    from .. import frame as _fr
    from ..report import Ob
    for o in _fr.renderer_ownership_obligations():
        rep.obs.append(Ob(oid=f"C15/{o['oid']}", kind="FRAME", func=o["func"], backend="frame", verdict=o["verdict"], info=o["info"], line=o["line"], solver="ownership analysis"))
    lines_universe(rep, "vf.oracles:c15_roundtrip", tier, "Token.as_dict/from_dict, SyntaxTreeNode, RendererHTML.render",
                   "dict round trip (both attribute formats) equal and renders equal; tree round trip, walk order, parent/sibling links; render twice equal, tokens unchanged (except image alt)",
                   cfgs=None if tier == "quick" else ["commonmark", "cm+table+strike"])
    inline_universe(rep, "vf.oracles:c15_roundtrip", tier, "same", "same contract on inline-heavy inputs", quick_k=2, thorough_k=3)
    from ..propbase import gen_universe
    gen_universe(rep, "vf.oracles:c15_roundtrip", "vf.universe:gen_emph", tier, "same", "same contract on delimiter-heavy inputs, incl. a configuration without fragments_join (token levels not recomputed)",
                 ["commonmark", "cm-fragjoin"], "all concatenations of <= k pieces over {*, **, _, ~~, ~, a, space, [, ](x), b}", "delimiter universe")
    rep.explanation = ("Mixed. Frame back end: every write site in renderer.py/token.py/tree.py targets per-call objects (FRAME obligations), i.e. the renderer writes nothing but "
                       "token-local state. Bounded: the round-trip and repeatability relations on parser output over the line and inline universes (structural inductions over the token list are not attempted deductively).")
    rep.trusted_base += STD_TRUST
    rep.assumptions += ["dataclasses.fields/replace reflect the declared fields (assumed contract on the dependency)"]
    return rep
