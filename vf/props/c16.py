"""C16 - reference definitions act through env."""
from ..propbase import gen_universe, STD_TRUST
from ..report import Report


def run(tier, seed):
    rep = Report("C16", tier, seed, "other")
    try:
        from .. import casefold
        casefold.add_obligations(rep, "C16", tier)
    except ImportError:
        pass
    from ..propbase import deductive
    deductive(rep, "C16", ["markdown_it.helpers.parse_link_title.parseLinkTitle", "markdown_it.helpers.parse_link_destination.parseLinkDestination"], "contracts.helpers")
    from .c17 import add_refdef
    add_refdef(rep, "C16")
    # link / image give up only for a stated reason: a bracketed text whose label is defined always resolves
    import contracts.linkc as LK
    deductive(rep, "C16", [LK.Q, LK.QI], "contracts.linkc")
    cfgs = ["commonmark", "js-default"]
    gen_universe(rep, "vf.oracles2:c16_refs", "vf.oracles2:gen_c16_refs", tier, "rules_block.reference / MarkdownIt.render", "render(D, env seeded by R) == render(R + blank + D); same records (first wins, duplicates)",
                 cfgs, "definition documents x using documents (incl. duplicates, multi-line titles, container-nested definitions); distinct = distinct (refs, dups, output prefix)", "R x D")
    gen_universe(rep, "vf.oracles2:c16_form", "vf.oracles2:gen_c16_form", tier, "rules_inline.link/image vs reference", "reference form renders exactly as the inline form with the same text, destination, title",
                 cfgs, "{link,image} x 8 texts x 10 destinations x 6 titles; distinct = distinct outputs", "text x destination x title")
    gen_universe(rep, "vf.oracles2:c16_labels", "vf.oracles2:gen_c16_labels", tier, "common.utils.normalizeReference", "labels equal under Unicode case folding + whitespace collapsing match",
                 ["commonmark"], "all pairs over 30 labels with case/whitespace/special-casing variants", "label pairs")
    from .. import frame as _frame
    _frame.add_env_writer_obligations(rep, "C16")
    rep.explanation = ("Mixed. Deductive: the reference rule's line accounting is proved - when it stores state.line (the end of the definition's map) the running count `lines` equals the number of line endings in the text consumed so far and the "
                       "text ends at a line end, so the recorded map is exactly the definition's own lines; this rests on the contracts of parseLinkDestination (consumes no line ending, reports none - the pinned tree violated this, see DESIGN 8.3) and parseLinkTitle (reports the line endings inside the title). Bounded: seeding, first-wins/duplicate records, inline-vs-reference form and label matching are relational contracts on the real parse/render over the listed universes. "
                       "Case folding is additionally checked exhaustively over all Unicode scalar values when the casefold module ran (a complete, loop-free enumeration).")
    rep.trusted_base += STD_TRUST
    rep.assumptions += ["lifting single-character case folding to strings (composition step)"]
    return rep
