"""C06 - CommonMark container laws."""
from ..propbase import lines_universe, STD_TRUST
from ..report import Report


def run(tier, seed):
    rep = Report("C06", tier, seed, "other")
    from .c17 import add_cons
    add_cons(rep, "C06")
    from .c17 import add_list
    add_list(rep, "C06")
    from ..propbase import deductive
    deductive(rep, "C06", ["markdown_it.rules_block.paragraph.paragraph", "markdown_it.rules_block.lheading.lheading", "markdown_it.rules_block.state_block.StateBlock.__init__"], "contracts.block")
    lines_universe(rep, "vf.oracles2:c06_container", tier, "MarkdownIt.parse", "quote form and list form of the law (tokens, maps, inline content, levels, references)", cfgs=["commonmark", "cm+table+strike"], wrapped=False)
    lines_universe(rep, "vf.checks:container_contracts", tier, "blockquote, list_block (and the other block rules) at every real call, nested calls included", "requires and ensures of their contracts evaluated natively: tables and context restored, map, CONS at the stores, dispatch guard",
                   cfgs=["commonmark"], rule="distinct token-stream signatures")
    lines_universe(rep, "vf.oracles2:c06_nested", tier, "MarkdownIt.parse", "the law applied to already wrapped documents (depth 2-3)", cfgs=["commonmark"], wrapped=False)
    rep.explanation = ("Mixed. Deductive (pyvc): the anchored mechanism of the quote form - rules_block.blockquote is verified on all paths: each quoted line's tables are moved past the marker and its optional blank with the physical-column "
                       "invariant re-established (CONS), blkIndent is 0 and the tables are well formed when the nested block loop is re-run on the same line range, the opening token's map is [startLine, line'], and all five "
                       "tables, lineMax, blkIndent, parentType and level are restored on exit; paragraph and lheading consult the terminator rules on every line of indentation 0..3 relative to the container (scan semantics with the "
                       "uninterpreted RuleFires predicate), so what interrupts a paragraph depends only on the line's relative indentation; StateBlock.__init__ establishes the column invariant. The law itself relates two runs of the whole block parser (a 2-safety property over all rules) and is "
                       "a relational postcondition on the real parse, checked over the tab-free line universe in quote form and list form (10 markers), nested to depth 3.")
    rep.trusted_base += STD_TRUST
    rep.assumptions += ["bounded: all tab-free newline-terminated documents of <= k lines over the 72-shape vocabulary"]
    return rep
