"""C06 - CommonMark container laws."""
from ..propbase import lines_universe, STD_TRUST
from ..report import Report


def run(tier, seed):
    rep = Report("C06", tier, seed, "other")
    try:
        from .c17 import add_cons
        add_cons(rep, "C06")
    except Exception:  # noqa: BLE001
        pass
    lines_universe(rep, "vf.oracles2:c06_container", tier, "MarkdownIt.parse", "quote form and list form of the law (tokens, maps, inline content, levels, references)", cfgs=["commonmark", "cm+table+strike"], wrapped=False)
    lines_universe(rep, "vf.oracles2:c06_nested", tier, "MarkdownIt.parse", "the law applied to already wrapped documents (depth 2-3)", cfgs=["commonmark"], wrapped=False)
    rep.explanation = ("Mixed, mostly bounded: the law relates two runs of the whole block parser (a 2-safety property over all rules), which no contract within reach "
                       "decides; the deductive part is limited to the anchored mechanisms (marker width / column bookkeeping of blockquote where proved). The law itself is "
                       "a relational postcondition on the real parse, checked over the tab-free line universe in quote form and list form (10 markers), nested to depth 3.")
    rep.trusted_base = STD_TRUST
    rep.assumptions = ["bounded: all tab-free newline-terminated documents of <= k lines over the 72-shape vocabulary"]
    return rep
