"""C19 - typographic replacements are local to text and never touch structure or literals."""
from ..propbase import gen_universe, STD_TRUST
from ..report import Report


def run(tier, seed):
    rep = Report("C19", tier, seed, "other")
    try:
        from ..propbase import deductive
        import contracts.typo as CT
        deductive(rep, "C19", CT.FUNCS, "contracts.typo")
    except ImportError:
        pass
    try:
        from .. import reads
        reads.add_order_obligations(rep, "C19")
    except ImportError:
        pass
    gen_universe(rep, "vf.oracles2:c19_typographer", "vf.oracles2:gen_c19", tier, "rules_core.replacements / smartquotes", "typographer on/off: same token shape; non-text tokens and autolink text identical; smartquotes substitutes only straight quotes in place",
                 ["commonmark", "js-default"], "inline documents over 26 fragments (quotes, autolinks, escapes, entities, dashes ...) x 5 quotes settings (strings and lists of 0-3 character strings) x {replacements, smartquotes, both}", "inline docs x quotes settings")
    rep.explanation = ("Mixed. Deductive (when contracts.typo is present): GUARD obligations - every token.content store in replace_scoped/replace_rare is dominated by type == 'text' and not inside an autolink. "
                       "Bounded: shape identity and locality of the substitutions on the real parse.")
    rep.trusted_base = STD_TRUST
    rep.assumptions = []
    return rep
