"""C19 - typographic replacements are local to text and never touch structure or literals."""
from ..propbase import gen_universe, STD_TRUST
from ..report import Report


def run(tier, seed):
    rep = Report("C19", tier, seed, "other")
    try:
        from ..propbase import deductive
        import contracts.typo as CT
        deductive(rep, "C19", CT.FUNCS, "contracts.typo")
        import contracts.rxrules as RXR
        import contracts.inline as CI
        # escapes and entities reach the typographic rules as text_special tokens, never as text
        deductive(rep, "C19", [RXR.QE], "contracts.rxrules")
        deductive(rep, "C19", CI.C09_FUNCS, "contracts.inline")
    except ImportError:
        pass
    from .. import reads, vocab
    reads.add_order_obligations(rep, "C19")
    vocab.add_smartquotes_obligations(rep, "C19")
    gen_universe(rep, "vf.oracles2:c19_typographer", "vf.oracles2:gen_c19", tier, "rules_core.replacements / smartquotes", "typographer on/off: same token shape; non-text tokens and autolink text identical; smartquotes substitutes only straight quotes in place",
                 ["commonmark", "js-default"], "inline documents over 26 fragments (quotes, autolinks, escapes, entities, dashes ...) x 5 quotes settings (strings and lists of 0-3 character strings) x {replacements, smartquotes, both}", "inline docs x quotes settings")
    gen_universe(rep, "vf.oracles2:c19_literals", "vf.oracles2:gen_c19_literals", tier, "rules_core.replacements / smartquotes / rules_inline.entity, escape",
                 "a typographic trigger with one character written as a backslash escape or character reference renders as the literal text, alone and next to genuine triggers",
                 ["commonmark", "js-default"], "19 triggers x every character position x {decimal, hex, named reference, backslash} x {replacements, smartquotes, both} x 2 contexts", "triggers x encodings")
    rep.explanation = ("Mixed. Deductive: replace_scoped/replace_rare are verified by pyvc - GUARD at every token.content store (type == 'text' and no auto link open, with the counter invariant inside_autolink == -AutoOpen(prefix)), "
                       "and the postcondition that only content of text tokens outside autolinks changes (types, levels, nesting, list length untouched). smartquotes.process_inlines: dominance GUARDs - every content store and every stack push lies past "
                       "the 'text token outside an autolink' test, no other token field or the list is written. ORDER: text_join follows the typographic rules in the core registry, so escapes/entities are still text_special (not text) when they run. "
                       "Bounded: shape identity and locality of the substitutions on the real parse.")
    rep.trusted_base += STD_TRUST
    rep.assumptions += []
    return rep
