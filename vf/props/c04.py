"""C04 - with raw HTML off, output is well-formed and contains only renderer-made markup."""
from ..propbase import deductive, lines_universe, inline_universe, STD_TRUST
from ..report import Report


def run(tier, seed):
    rep = Report("C04", tier, seed, "other")
    deductive(rep, "C04", ["markdown_it.rules_block.html_block.html_block"], "contracts.block")
    import contracts.rxrules as RXR
    deductive(rep, "C04", [RXR.QH], "contracts.rxrules")
    # properly nested output rests on balanced token streams (C02): the table rule - the one block rule whose pushes sit in
    # nested loops with early exits - is re-verified here with all its invariants (every level of th/td/tr/thead/tbody closes)
    import contracts.tablec as TBC
    deductive(rep, "C04", TBC.FUNCS, "contracts.tablec", select=lambda q, ob, rel: ob.kind not in ("SAFE", "DEC"))
    import contracts.emph as EM
    deductive(rep, "C04", [EM.QS], "contracts.emph")
    try:
        from .. import lang
        lang.add_obligations(rep, "C04")
    except ImportError:
        pass
    cfgs = ["js-default", "zero", "js+breaks+xhtml0"]
    lines_universe(rep, "vf.oracles2:c04_safe", tier, "MarkdownIt.render", "output in Safe (tags/attributes from the fixed vocabulary, text and attribute values escaped) and tags nest", cfgs=cfgs, rule="distinct tag sequences")
    inline_universe(rep, "vf.oracles2:c04_safe", tier, "MarkdownIt.render", "same output contract on inline-heavy inputs", cfgs=["js-default"], quick_k=3, thorough_k=4, rule="distinct tag sequences")
    from ..propbase import gen_universe
    gen_universe(rep, "vf.oracles2:c04_safe", "vf.universe:gen_emph", tier, "MarkdownIt.parse/render", "same contract on delimiter-heavy inputs (emphasis/strikethrough pairing inside links)",
                 ["js-default"], "all concatenations of <= k pieces over {*, **, _, ~~, ~, a, space, [, ](x), b}", "delimiter universe")
    rep.explanation = (
        "Mixed. Deductive: html_block returns True only under a truthy options.html (POST needs-html-option); language-inclusion obligations (LANG) "
        "for escapeHtml and the renderer functions when the language back end is present in this run; strikethrough._postProcess is proved never to move or alter a structural token present at entry (its lone-marker swap crosses s_close records only), which is what keeps </s> inside the element it was opened in. Bounded: output monitor "
        "render(x) in Safe and properly nested, html off, over the line and inline universes.")
    rep.trusted_base += STD_TRUST
    rep.assumptions += ["'balanced tokens + per-token languages => nested HTML' is a composition step (not machine-checked)"]
    return rep
