"""C18 - inline text means the same in every block context; render options are inert."""
from ..propbase import lines_universe, inline_universe, gen_universe, STD_TRUST
from ..report import Report


def run(tier, seed):
    rep = Report("C18", tier, seed, "other")
    try:
        from .. import reads
        reads.add_obligations(rep, "C18")
    except ImportError:
        pass
    inline_universe(rep, "vf.oracles2:c18_inline", tier, "MarkdownIt.parseInline/renderInline", "single-paragraph sources: parseInline children == paragraph children; renderInline == paragraph HTML without <p>", quick_k=3, thorough_k=4)
    gen_universe(rep, "vf.oracles2:c18_embed", "vf.oracles2:gen_inline_texts", tier, "MarkdownIt.parse", "the same one-line inline text yields the same inline tokens in paragraph / ATX heading / list item / block quote / table cell",
                 ["commonmark", "cm+table+strike"], "all one-line concatenations of <= k inline fragments; distinct = distinct child-type sequences", "one-line inline texts")
    lines_universe(rep, "vf.oracles2:c18_options", tier, "RendererHTML", "xhtmlOut/breaks/langPrefix/highlight leave tokens untouched and change HTML only in their documented place", cfgs=["commonmark", "js-default"], wrapped=False)
    from .. import frame as _frame
    _frame.add_env_writer_obligations(rep, "C18")
    rep.explanation = ("Mixed. Deductive (when the reads back end ran): READS obligations - the parse side reads none of xhtmlOut/breaks/langPrefix/highlight; the renderer reads them only in the documented functions. "
                       "Bounded: the embedding clause and the option-inertness relations on the real API.")
    rep.trusted_base += STD_TRUST
    rep.assumptions += []
    return rep
