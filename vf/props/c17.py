"""C17 - equivalent encodings parse identically: line endings, NUL, structural tabs."""
from .. import bounded, oracles2
from ..propbase import lines_universe, STD_TRUST
from ..report import Report


def add_cons(rep, prop):
    from ..propbase import deductive
    import contracts.cons as CC

    deductive(rep, prop, CC.FUNCS, "contracts.cons")


def add_list(rep, prop):
    from ..propbase import deductive
    import contracts.listc as LC

    deductive(rep, prop, LC.FUNCS, "contracts.listc")
    if prop in ("C01", "C02", "C07"):
        import contracts.tight as TG

        deductive(rep, prop, TG.FUNCS, "contracts.tight", select=(lambda q, ob, rel: True) if prop == "C01" else None)


def add_refdef(rep, prop):
    from ..propbase import deductive
    import contracts.refdef as RD

    deductive(rep, prop, RD.FUNCS, "contracts.refdef", select=(lambda q, ob, rel: True) if prop == "C01" else None)
    if prop in ("C01", "C02", "C03", "C07"):
        import contracts.tablec as TB
        import contracts.tablesplit as TS

        deductive(rep, prop, TB.FUNCS, "contracts.tablec", select=(lambda q, ob, rel: True) if prop == "C01" else None)
        if prop == "C01":
            deductive(rep, prop, TS.FUNCS, "contracts.tablesplit", select=lambda q, ob, rel: True)


def run(tier, seed):
    rep = Report("C17", tier, seed, "other")
    from .. import normalize, reads
    normalize.add_obligations(rep, "C17")
    reads.add_order_obligations(rep, "C17")
    add_cons(rep, "C17")
    from ..propbase import deductive
    deductive(rep, "C17", ["markdown_it.rules_block.state_block.StateBlock.__init__"], "contracts.block")
    deductive(rep, "C17", ["markdown_it.rules_inline.escape.escape"], "contracts.inline")
    deductive(rep, "C17", ["markdown_it.rules_inline.newline.newline"], "contracts.inline2")
    lines_universe(rep, "vf.oracles2:c17_lineend", tier, "MarkdownIt.parse/render", "LF <-> CRLF <-> CR give identical tokens (incl. maps) and HTML; NUL == U+FFFD; no CR/NUL in any content", cfgs=["commonmark", "js-default"])
    lines_universe(rep, "vf.oracles2:c17_tabs", tier, "MarkdownIt.parse", "leading tabs == column-exact spaces (blocks, nesting, maps, text)", cfgs=["commonmark", "cm+table+strike"])
    rep.bounded.append(bounded.run("vf.oracles2:c17_marker_tabs", "list", 0, ["commonmark"], "rules_block.blockquote / list_block", "a tab after a block quote or list marker == spaces up to the next multiple-of-four physical column",
                                   "constructed lines: up to three segments (indent 0-3, marker > - * 1. 12), 1-4 blanks) + leaf; distinct = distinct token signatures", items=oracles2.c17_marker_cases(), universe="constructed marker/blank lines"))
    rep.bounded.append(bounded.run("vf.oracles2:c17_twoline", "list", 0, ["commonmark"], "rules_block.blockquote / list_block (continuation lines)", "same equivalence on the second line of an open container",
                                   "7 first lines x up to two (indent, marker, blanks) segments x 2 leaves", items=oracles2.c17_twoline_cases(), universe="constructed two-line documents"))
    rep.explanation = ("Mixed. Deductive: side conditions of the substitution lemma for the normalize rule (the regex literals read from the source match CR, CRLF as one unit, and NUL; replacements contain neither; the substitutions are chained from state.src back to state.src) "
                       "and ORDER normalize-first, so no CR or NUL reaches any later rule; the physical-column invariant CONS (bsCount + sCount == PhysCol(first content character), tab stops counted from the start of the physical line) is re-established by blockquote at both marker sites, first and continuation lines, all four marker/blank/tab cases (GUARD obligations, pyvc + z3 with mod-4 arithmetic). "
                       "Bounded: the equivalences themselves as relational contracts on parse/render over the line universe and the constructed marker lines.")
    rep.trusted_base += STD_TRUST
    rep.assumptions += ["re.sub substitution lemma for normalize (assumed)"]
    return rep
