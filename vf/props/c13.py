"""C13 - concurrent or nested parses on a shared instance do not interfere."""
from ..report import Report
from .c12 import add_frame


def run(tier, seed):
    rep = Report("C13", tier, seed, "proof")
    add_frame(rep, "C13", want_si=True)
    from ..propbase import deductive
    deductive(rep, "C13", ["markdown_it.ruler.Ruler.__compile__", "markdown_it.ruler.Ruler.getRules"], "contracts.ruler", select=lambda q, ob, rel: True)
    from ..propbase import gen_universe
    gen_universe(rep, "vf.checks:c13_preempt", "vf.checks:gen_c13", tier, "MarkdownIt.render on a shared instance", "render(A) suspended at library line boundaries with render(B) run to completion in between: both results equal the sequential ones; instance unchanged afterwards",
                 ["commonmark", "cm+table+strike"], "pairs (A, B) over 8 probe documents x {never-parsed, warmed-up instance} x ~40 (thorough ~400) suspension points spread over all line events of A; B atomic", "nested execution at line boundaries", timeout_s=120)
    rep.explanation = (
        "(1) Frame: the only instance state written during a parse is Ruler.__cache__ (FRAME obligations over all write sites), so threads and nested "
        "parses share nothing else. (2) Strong invariant SI: every store to self.__cache__ in getRules/__compile__ publishes None or a local table that "
        "no later statement mutates, and nothing mutates through the field or an alias of it - so no call can observe a half-initialised chain. "
        "(3) The published value is the complete table: __compile__'s postcondition cache[c] == Filter(rules, c) for every c, and getRules returns Filter(rules, chain) under RI (pyvc). Composition (Owicki-Gries: reads of __cache__ yield None or the unique valid value at any interleaving) is not machine-checked. Bounded stand-in: nested execution of a second render at line boundaries of the first, on never-parsed and warmed-up instances (every interleaving with B atomic at the sampled points).")
    rep.trusted_base += ["vf/frame.py region table and publication dataflow", "a store/load of one attribute is atomic under the GIL"]
    rep.assumptions += ["configuration is not mutated concurrently (the property's own hypothesis)", "calls into mdurl/re/functools.cache are atomic and content-pure",
                       "Owicki-Gries soundness (composition step, not machine-checked)"]
    return rep
