"""C14 - an exception escaping from user code leaves the instance intact."""
from .. import bounded, checks
from ..propbase import deductive
from ..report import Report
from .c12 import add_frame

R = "markdown_it.ruler.Ruler."


def run(tier, seed):
    rep = Report("C14", tier, seed, "proof")
    deductive(rep, "C14", ["markdown_it.main.MarkdownIt.reset_rules"], "contracts.main")
    deductive(rep, "C14", [R + m for m in ("enable", "disable", "enableOnly")], "contracts.ruler",
              select=lambda q, ob, rel: ob.kind.startswith("POST-raise") or ob.kind in ("INV-init", "INV-pres"))
    add_frame(rep, "C14", want_si=True)
    rep.bounded.append(bounded.run(
        "vf.checks:c14_crash", "list", 0, ["commonmark", "js-default"], "MarkdownIt.render / reset_rules",
        "user code (plugin rule in each chain, render rule, highlight, reset_rules body incl. nested blocks) raises at its n-th invocation; "
        "afterwards active rules, options and probe renders equal a pristine twin",
        "all (kind, site, n, document) combinations listed in checks.c14_cases; distinct = distinct (kind, site, n, raised)",
        items=checks.c14_cases(tier), universe="crash points x documents"))
    rep.explanation = (
        "reset_rules is executed symbolically with @contextmanager semantics: on both continuations of the yield (resume, throw) the postcondition "
        "'enableOnly(snapshot) applied to all four rulers, caches invalidated' is discharged. Ruler mutators keep RI on their KeyError exits. The frame "
        "obligations hold at every program point, so an exception from a callback leaves rules/options/renderer table untouched.")
    rep.trusted_base += ["pyvc, z3; vf/frame.py", "@contextmanager runs the generator to its yield and resumes or throws there"]
    rep.assumptions += ["the with-body uses only the public Ruler API (never removes or renames a rule)", "get_active_rules (comprehensions) returns the names of the enabled rules: assumed contract, monitored in the C11 history check"]
    return rep
