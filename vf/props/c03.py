"""C03 - source maps are in range, non-empty, nested and ordered, and cover the input."""
from ..propbase import deductive, lines_universe, STD_TRUST
from ..report import Report

SB = "markdown_it.rules_block.state_block.StateBlock."
FUNCS = ["markdown_it.parser_block.ParserBlock.tokenize", SB + "__init__", SB + "skipEmptyLines", "markdown_it.rules_block.hr.hr", "markdown_it.rules_block.heading.heading", "markdown_it.rules_block.lheading.lheading", "markdown_it.rules_block.fence.fence", "markdown_it.rules_block.code.code", "markdown_it.rules_block.html_block.html_block", "markdown_it.rules_block.paragraph.paragraph"]


def run(tier, seed):
    rep = Report("C03", tier, seed, "other")
    deductive(rep, "C03", FUNCS, "contracts.block")
    lines_universe(rep, "vf.oracles:c03_maps", tier, "MarkdownIt.parse", "map contract of the statement (range, non-blank start/end, nesting, sibling order, inline span, coverage incl. env references)")
    from .c17 import add_cons
    add_cons(rep, "C03")
    from .c17 import add_refdef
    add_refdef(rep, "C03")
    from .c17 import add_list
    add_list(rep, "C03")
    rep.explanation = (
        "Mixed. Deductive: each leaf rule's postcondition map == [startLine, state.line] with startLine < state.line <= endLine, start line non-empty, "
        "paragraph/heading/hr/code end on a non-blank line, inline maps ([startLine, line] resp. line-1 for setext) are discharged; skipEmptyLines "
        "stops on a non-empty line. blockquote and list_block (pyvc): the open token's map starts at startLine and its end is patched with the line the nested block loop stopped at, startLine < line' <= lineMax (progress/termination of every item); "
        "ParserBlock.tokenize dispatches rules only on non-empty lines with sCount >= blkIndent and always advances; StateBlock.__init__ builds well-formed tables that cover the source (thorough tier). "
        "Bounded: the whole map contract on parse output (table and reference end-line handling, the coverage clause and the nesting of maps are bounded).")
    rep.trusted_base += STD_TRUST
    rep.assumptions += ["table and reference are covered by the bounded monitor only; the generic rule contract (tables restored, line' within lineMax) is proved for the rules under contract and assumed for the others"]
    return rep
