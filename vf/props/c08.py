"""C08 - verbatim content and recorded markup come from the source, unaltered."""
from ..propbase import deductive
from ..report import Report

FUNCS = [
    "markdown_it.rules_block.hr.hr", "markdown_it.rules_block.heading.heading", "markdown_it.rules_block.lheading.lheading",
    "markdown_it.rules_block.fence.fence", "markdown_it.rules_block.code.code", "markdown_it.rules_block.html_block.html_block",
]


def run(tier, seed):
    rep = Report("C08", tier, seed, "proof")
    deductive(rep, "C08", FUNCS, "contracts.block")
    return rep
