"""C08 - verbatim content and recorded markup come from the source, unaltered."""
from ..propbase import deductive, lines_universe, gen_universe, STD_TRUST
from ..report import Report

FUNCS = ["markdown_it.rules_block.hr.hr", "markdown_it.rules_block.heading.heading", "markdown_it.rules_block.lheading.lheading", "markdown_it.rules_block.fence.fence", "markdown_it.rules_block.code.code", "markdown_it.rules_block.html_block.html_block",
         "markdown_it.rules_block.list.skipOrderedListMarker", "markdown_it.rules_block.list.skipBulletListMarker"]


def run(tier, seed):
    rep = Report("C08", tier, seed, "other")
    deductive(rep, "C08", FUNCS, "contracts.block")
    lines_universe(rep, "vf.oracles:c08_verbatim", tier, "MarkdownIt.parse", "content lines are suffixes of their source lines minus indentation/markers; markup/info occur in the token's lines (hr: exact marker count); list start/info == digits")
    gen_universe(rep, "vf.oracles:c08_codespan", "vf.oracles2:gen_c08_spans", tier, "rules_inline.backticks.backtick", "code span content == text between the backtick strings (LF->space, one padding space stripped iff both present and not all U+0020)",
                 ["commonmark"], "all strings of <= k pieces over {space, a, LF, NBSP, TAB, EM SPACE, 'x y', VT}; distinct = distinct (prefix, length)", "code span interiors")
    from .c17 import add_list
    add_list(rep, "C08")
    rep.explanation = ("Mixed. Deductive: markup == the scanned marker run with its count (hr, heading, fence, lheading), info == src slice, content == getLines of exactly the token's "
                       "lines with the right indent (fence, code, html_block). list_block: an item's info is the slice from the item's own line start to its marker (GUARD at the store), markup is the marker character; the marker scanners return positions "
                       "after ASCII digits + delimiter / a bullet character. Bounded: getLines' own contract (suffix-of-source-line), list/blockquote markup and the code span rule.")
    rep.trusted_base += STD_TRUST
    rep.assumptions += ["StateBlock.getLines is under an assumed contract in the deductive part (its effect is monitored by the bounded content oracle)"]
    return rep
