"""C08 - verbatim content and recorded markup come from the source, unaltered."""
from ..propbase import deductive, lines_universe, gen_universe, STD_TRUST
from ..report import Report

FUNCS = ["markdown_it.rules_block.state_block.StateBlock.__init__", "markdown_it.rules_block.state_block.StateBlock.getLines", "markdown_it.rules_block.hr.hr", "markdown_it.rules_block.heading.heading", "markdown_it.rules_block.lheading.lheading", "markdown_it.rules_block.fence.fence", "markdown_it.rules_block.code.code", "markdown_it.rules_block.html_block.html_block",
         "markdown_it.rules_block.list.skipOrderedListMarker", "markdown_it.rules_block.list.skipBulletListMarker"]


def run(tier, seed):
    rep = Report("C08", tier, seed, "other")
    deductive(rep, "C08", FUNCS, "contracts.block")
    lines_universe(rep, "vf.oracles:c08_verbatim", tier, "MarkdownIt.parse", "content lines are suffixes of their source lines minus indentation/markers; markup/info occur in the token's lines (hr: exact marker count); list start/info == digits")
    gen_universe(rep, "vf.oracles:c08_codespan", "vf.oracles2:gen_c08_spans", tier, "rules_inline.backticks.backtick", "code span content == text between the backtick strings (LF->space, one padding space stripped iff both present and not all U+0020)",
                 ["commonmark"], "all strings of <= k pieces over {space, a, LF, NBSP, TAB, EM SPACE, 'x y', VT}; distinct = distinct (prefix, length)", "code span interiors")
    gen_universe(rep, "vf.oracles:c08_verbatim", "vf.oracles2:gen_c08_blanks", tier, "MarkdownIt.parse", "same content contract on lines whose leading blanks include NBSP, FF, VT, EM SPACE, IDEOGRAPHIC SPACE (content, never indentation)",
                 ["commonmark", "js-default"], "16 document shapes x 5-7 non-space blanks, with and without final newline", "exotic leading blanks")
    from .c17 import add_list
    add_list(rep, "C08")
    deductive(rep, "C08", ["markdown_it.rules_inline.backticks.backtick"], "contracts.inline2")
    rep.explanation = ("Mixed. Deductive: markup == the scanned marker run with its count (hr, heading, fence, lheading), info == src slice, content == getLines of exactly the token's "
                       "lines with the right indent (fence, code, html_block). list_block: an item's info is the slice from the item's own line start to its marker (GUARD at the store), markup is the marker character; the marker scanners return positions "
                       "after ASCII digits + delimiter / a bullet character. getLines itself: every piece it stores for a line is the source text from a position inside that line's indentation / container prefix to the line end (with its LF), preceded only by the at most 3 blanks that stand for the unconsumed columns of a partially consumed tab (GUARDs at the two stores; callers prove indent >= 0, without which blanks would be invented); the final ''.join is the built-in's. Bounded: the whole-content oracle, list/blockquote markup. The code span rule (backticks.backtick) is verified for every source string: markup is the opening backtick string, the closing string has the same length, and the content is exactly the text between them with line endings as spaces and one padding space removed from each side iff both are present and some character is not U+0020/LF (str.replace, startswith/endswith, strip(' ') and str.index are modelled exactly for one-character arguments; the no-argument strip() is modelled with this interpreter's whitespace table, so a change to it is refuted).")
    rep.trusted_base += STD_TRUST
    rep.assumptions += ["StateBlock.getLines: safety proved; the content of its result is summarised by an uninterpreted string function (its effect is monitored by the bounded content oracle)",
                        "str.index / str.replace / str.strip / startswith / endswith: modelled from their documented semantics for one-character arguments (trusted model of the built-ins)"]
    return rep
