"""C02 - token streams are well nested, correctly levelled and tree-constructible."""
from ..propbase import deductive, lines_universe, inline_universe, STD_TRUST
from ..report import Report

FUNCS = ["markdown_it.rules_block.hr.hr", "markdown_it.rules_block.heading.heading", "markdown_it.rules_block.lheading.lheading", "markdown_it.rules_block.fence.fence", "markdown_it.rules_block.code.code", "markdown_it.rules_block.html_block.html_block", "markdown_it.rules_block.paragraph.paragraph"]


def delimiter_stack_obligations(rep):
    """GUARD (dominance / shape analysis of the real source): the delimiter lists of nested inline tags form a stack.
    StateInline.push saves the current list on `_prev_delimiters` when it opens a tag (and starts a fresh list) and takes the
    saved one back - by pop - when it closes a tag; nothing else in the package rebinds either field. With one slot instead of
    a stack, a tag nested in a tag (an autolink in a link label) would hand the wrong list back, and delimiter pairs of the
    enclosing text would straddle the link (the engine keeps `_prev_delimiters` opaque, so this discipline is stated here)."""
    import ast

    from .. import src as S
    from ..report import Ob

    q = "markdown_it.rules_inline.state_inline.StateInline.push"

    def emit(label, ok, info):
        rep.obs.append(Ob(oid=f"C02/{q}/GUARD/{label}", kind="GUARD", func=q, backend="vocab", verdict="discharged" if ok else "failed", info=info, solver="dominance / shape analysis of the real source"))

    try:
        mi, fn, _ = S.resolve_function(q)
    except S.SourceError as e:
        rep.obs.append(Ob(oid=f"C02/{q}/GUARD/delimiter-stack", kind="GUARD", func=q, backend="vocab", verdict="undecided", info=str(e), solver="dominance / shape analysis of the real source"))
        return

    def under(test_src, body):
        return [st for n in ast.walk(fn) if isinstance(n, ast.If) and ast.unparse(n.test).replace(" ", "") == test_src for st in n.body] if body else []

    closing = [ast.unparse(st) for st in under("nesting<0", True)]
    opening = [ast.unparse(st) for st in under("nesting>0", True)]
    ok_pop = "self.delimiters = self._prev_delimiters.pop()" in closing
    emit("closing-tag-pops-the-saved-list", ok_pop, "a closing tag restores the delimiter list saved by its opener: self.delimiters = self._prev_delimiters.pop()" if ok_pop else f"closing branch is {closing}")
    ok_push = "self._prev_delimiters.append(self.delimiters)" in opening and "self.delimiters = []" in opening and opening.index("self._prev_delimiters.append(self.delimiters)") < opening.index("self.delimiters = []")
    emit("opening-tag-pushes-the-current-list", ok_push, "an opening tag saves the current list on the stack, then starts a fresh one" if ok_push else f"opening branch is {opening}")
    # no other rebinding of the two fields anywhere in the package (the constructor initialises them)
    others = []
    for modname in S.all_package_modules():
        m2 = S.load_module(modname)
        for qn, f2 in m2.functions.items():
            for n in ast.walk(f2):
                tgts = n.targets if isinstance(n, ast.Assign) else ([n.target] if isinstance(n, (ast.AnnAssign, ast.AugAssign)) else [])
                for t in tgts:
                    if isinstance(t, ast.Attribute) and t.attr in ("delimiters", "_prev_delimiters") and isinstance(t.value, ast.Name) and t.value.id in ("self", "state"):
                        where = f"{modname}.{qn}"
                        if where == q or where.endswith("StateInline.__init__"):
                            continue
                        others.append(f"{where}:{n.lineno}")
    emit("no-other-rebinding", not others, "delimiters / _prev_delimiters are rebound only by push and the constructor" if not others else f"also rebound at {others}")
    if not (ok_pop and ok_push and not others):
        w = None
        try:
            from markdown_it import MarkdownIt

            for doc in ("[<http://x.y> *d](c)*", "[<ab:c> **d](c)**", "*[<ab:c>*](c)"):
                toks = MarkdownIt().parseInline(doc)[0].children
                depth, bad = [], False
                for t in toks:
                    if t.nesting == 1:
                        depth.append(t.type[:-5])
                    elif t.nesting == -1:
                        if not depth or depth.pop() != t.type[:-6]:
                            bad = True
                if bad or depth:
                    w = {"doc": doc, "tokens": [t.type for t in toks]}
                    break
        except Exception:  # noqa: BLE001
            pass
        for lab in ("closing-tag-pops-the-saved-list", "opening-tag-pushes-the-current-list", "no-other-rebinding"):
            rep.replays[f"C02/{q}/GUARD/{lab}"] = {"lifted": {"arguments": w} if w else {}, "observed": {"outcome": "openers and closers cross in parseInline output" if w else "no crossing stream among the candidate documents"}, "replayed": bool(w)}


def run(tier, seed):
    rep = Report("C02", tier, seed, "other")
    delimiter_stack_obligations(rep)
    deductive(rep, "C02", FUNCS, "contracts.block")
    lines_universe(rep, "vf.oracles:c02_stream", tier, "MarkdownIt.parse/parseInline", "balanced pairs (kind, tag, markup), level == depth, block flags, merged text, no text_special, tree constructible")
    inline_universe(rep, "vf.oracles:c02_stream", tier, "MarkdownIt.parse/parseInline", "same stream contract on inline-heavy inputs", quick_k=3, thorough_k=4)
    from ..propbase import gen_universe
    gen_universe(rep, "vf.oracles:c02_stream", "vf.universe:gen_emph", tier, "MarkdownIt.parse/render", "same contract on delimiter-heavy inputs (emphasis/strikethrough pairing inside links)",
                 ["commonmark", "cm+table+strike"], "all concatenations of <= k pieces over {*, **, _, ~~, ~, a, space, [, ](x), b}", "delimiter universe")
    gen_universe(rep, "vf.oracles:c02_stream", "vf.universe:gen_emph_links", tier, "MarkdownIt.parse/render", "same contract where a link label holds an autolink (two tag levels) next to delimiter runs",
                 ["commonmark", "cm+table+strike"], "all concatenations of <= k pieces over {[, ](x), <ab:c>, *, *a, **, ~~, ~~a, _, space} that contain a bracket and an autolink", "nested-tag delimiter universe")
    from .c17 import add_cons
    add_cons(rep, "C02")
    from .c17 import add_list
    add_list(rep, "C02")
    from .c17 import add_refdef
    add_refdef(rep, "C02")
    import contracts.textjoin as TJ
    deductive(rep, "C02", TJ.FUNCS, "contracts.textjoin")
    import contracts.delims as DL
    import contracts.emph as EM
    import contracts.inline2 as I2
    deductive(rep, "C02", I2.FUNCS, "contracts.inline2")
    deductive(rep, "C02", DL.FUNCS, "contracts.delims")
    deductive(rep, "C02", EM.FUNCS, "contracts.emph")
    inline_universe(rep, "vf.checks:delim_contracts", tier, "processDelimiters / _postProcess / tokenizers", "requires and ensures of the delimiter-pipeline contracts evaluated natively at every call (validates the preconditions their callers must establish)", quick_k=3, thorough_k=4)
    gen_universe(rep, "vf.checks:delim_contracts", "vf.universe:gen_emph", tier, "processDelimiters / _postProcess / tokenizers", "same run-time contract evaluation on delimiter-heavy inputs",
                 ["commonmark", "cm+table+strike"], "all concatenations of <= k pieces over {*, **, _, ~~, ~, a, space, [, ](x), b}", "delimiter universe")
    import contracts.linkc as LK
    deductive(rep, "C02", LK.FUNCS, "contracts.linkc")
    import contracts.rxrules as RXR
    deductive(rep, "C02", [RXR.QE, RXR.QH], "contracts.rxrules")
    import contracts.fragjoin as FJ
    deductive(rep, "C02", FJ.FUNCS, "contracts.fragjoin")
    inline_universe(rep, "vf.checks:inline_contracts", tier, "fragments_join", "requires/ensures of the fragments_join contract evaluated natively at every call (validates the text-neutral precondition)", quick_k=3, thorough_k=4)
    gen_universe(rep, "vf.checks:inline_contracts", "vf.universe:gen_emph", tier, "fragments_join", "same run-time contract evaluation on delimiter-heavy inputs",
                 ["commonmark", "cm+table+strike"], "all concatenations of <= k pieces over {*, **, _, ~~, ~, a, space, [, ](x), b}", "delimiter universe")
    rep.explanation = (
        "Mixed. Deductive: StateBlock.push is inlined into every leaf block rule and the postconditions 'tokens appended are balanced, level == entry "
        "level + depth, nesting/type/tag as specified, block flag set, state.level restored' are discharged for the seven leaf rules. link and image are verified (link_open/link_close at the entry level around a nested tokenize that is entered with posMax on the label's closing bracket; level, posMax and linkLevel restored; image pushes one level-neutral token). text_join / _join_children are verified: afterwards no child at any image-nesting depth is a text_special and no two adjacent children are text (modular recursion through the summary predicate Joined). blockquote and list_block restore state.level and push matching open/close tokens around the nested block loop. Bounded: the full "
        "stream contract of the statement monitored on parse/parseInline output (container interplay is bounded). The delimiter pipeline is verified: the emphasis/strikethrough tokenizers establish the delimiter-list invariant (token indices in range, strictly increasing, one delimiter per marker); processDelimiters is proved safe (no index wraps around, both loops terminate) and to produce forward-pointing, same-marker, injective, never-crossing pairs whose closers are not openers; emphasis._postProcess retags exactly the tokens of matched pairs, consistently (em/em or strong/strong, same markup) and touches nothing else; strikethrough._postProcess never moves or alters a structural token that was present at entry (only text and s_close records move). fragments_join is verified: on exit every token's level obeys the depth law (stated locally: level[k] follows from level[k-1] and the two nestings), no two adjacent tokens are text, for arbitrary entry levels, under the vocabulary precondition that text tokens have nesting 0 (validated at run time).")
    rep.trusted_base += STD_TRUST
    rep.assumptions += ["the delimiter pipeline is verified function by function (tokenizers -> processDelimiters -> _postProcess -> fragments_join); that each function's callers establish its precondition, "
                        "and the final step from 'pairs never cross, token indices increase, each pair is retagged consistently, levels follow the depth law' to 'the stream is a balanced bracket sequence' "
                        "is argued on paper (DESIGN.md 8) and checked by the run-time monitors and the bounded stream oracle"]
    return rep
