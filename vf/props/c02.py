"""C02 - token streams are well nested, correctly levelled and tree-constructible."""
from ..propbase import deductive, lines_universe, inline_universe, STD_TRUST
from ..report import Report

FUNCS = ["markdown_it.rules_block.hr.hr", "markdown_it.rules_block.heading.heading", "markdown_it.rules_block.lheading.lheading", "markdown_it.rules_block.fence.fence", "markdown_it.rules_block.code.code", "markdown_it.rules_block.html_block.html_block", "markdown_it.rules_block.paragraph.paragraph"]


def run(tier, seed):
    rep = Report("C02", tier, seed, "other")
    deductive(rep, "C02", FUNCS, "contracts.block")
    lines_universe(rep, "vf.oracles:c02_stream", tier, "MarkdownIt.parse/parseInline", "balanced pairs (kind, tag, markup), level == depth, block flags, merged text, no text_special, tree constructible")
    inline_universe(rep, "vf.oracles:c02_stream", tier, "MarkdownIt.parse/parseInline", "same stream contract on inline-heavy inputs", quick_k=3, thorough_k=4)
    from ..propbase import gen_universe
    gen_universe(rep, "vf.oracles:c02_stream", "vf.universe:gen_emph", tier, "MarkdownIt.parse/render", "same contract on delimiter-heavy inputs (emphasis/strikethrough pairing inside links)",
                 ["commonmark", "cm+table+strike"], "all concatenations of <= k pieces over {*, **, _, ~~, ~, a, space, [, ](x), b}", "delimiter universe")
    gen_universe(rep, "vf.oracles:c02_stream", "vf.universe:gen_emph_links", tier, "MarkdownIt.parse/render", "same contract where a link label holds an autolink (two tag levels) next to delimiter runs",
                 ["commonmark", "cm+table+strike"], "all concatenations of <= k pieces over {[, ](x), <u:v>, *, *a, **, ~~, ~~a, _, space} that contain a bracket and an autolink", "nested-tag delimiter universe")
    from .c17 import add_cons
    add_cons(rep, "C02")
    from .c17 import add_list
    add_list(rep, "C02")
    from .c17 import add_refdef
    add_refdef(rep, "C02")
    import contracts.textjoin as TJ
    deductive(rep, "C02", TJ.FUNCS, "contracts.textjoin")
    import contracts.delims as DL
    import contracts.emph as EM
    import contracts.inline2 as I2
    deductive(rep, "C02", I2.FUNCS, "contracts.inline2")
    deductive(rep, "C02", DL.FUNCS, "contracts.delims")
    deductive(rep, "C02", EM.FUNCS, "contracts.emph")
    inline_universe(rep, "vf.checks:delim_contracts", tier, "processDelimiters / _postProcess / tokenizers", "requires and ensures of the delimiter-pipeline contracts evaluated natively at every call (validates the preconditions their callers must establish)", quick_k=3, thorough_k=4)
    gen_universe(rep, "vf.checks:delim_contracts", "vf.universe:gen_emph", tier, "processDelimiters / _postProcess / tokenizers", "same run-time contract evaluation on delimiter-heavy inputs",
                 ["commonmark", "cm+table+strike"], "all concatenations of <= k pieces over {*, **, _, ~~, ~, a, space, [, ](x), b}", "delimiter universe")
    import contracts.linkc as LK
    deductive(rep, "C02", LK.FUNCS, "contracts.linkc")
    import contracts.rxrules as RXR
    deductive(rep, "C02", [RXR.QE, RXR.QH], "contracts.rxrules")
    import contracts.fragjoin as FJ
    deductive(rep, "C02", FJ.FUNCS, "contracts.fragjoin")
    inline_universe(rep, "vf.checks:inline_contracts", tier, "fragments_join", "requires/ensures of the fragments_join contract evaluated natively at every call (validates the text-neutral precondition)", quick_k=3, thorough_k=4)
    gen_universe(rep, "vf.checks:inline_contracts", "vf.universe:gen_emph", tier, "fragments_join", "same run-time contract evaluation on delimiter-heavy inputs",
                 ["commonmark", "cm+table+strike"], "all concatenations of <= k pieces over {*, **, _, ~~, ~, a, space, [, ](x), b}", "delimiter universe")
    rep.explanation = (
        "Mixed. Deductive: StateBlock.push is inlined into every leaf block rule and the postconditions 'tokens appended are balanced, level == entry "
        "level + depth, nesting/type/tag as specified, block flag set, state.level restored' are discharged for the seven leaf rules. link and image are verified (link_open/link_close at the entry level around a nested tokenize that is entered with posMax on the label's closing bracket; level, posMax and linkLevel restored; image pushes one level-neutral token). text_join / _join_children are verified: afterwards no child at any image-nesting depth is a text_special and no two adjacent children are text (modular recursion through the summary predicate Joined). blockquote and list_block restore state.level and push matching open/close tokens around the nested block loop. Bounded: the full "
        "stream contract of the statement monitored on parse/parseInline output (container interplay is bounded). The delimiter pipeline is verified: the emphasis/strikethrough tokenizers establish the delimiter-list invariant (token indices in range, strictly increasing, one delimiter per marker); processDelimiters is proved safe (no index wraps around, both loops terminate) and to produce forward-pointing, same-marker, injective, never-crossing pairs whose closers are not openers; emphasis._postProcess retags exactly the tokens of matched pairs, consistently (em/em or strong/strong, same markup) and touches nothing else; strikethrough._postProcess never moves or alters a structural token that was present at entry (only text and s_close records move). fragments_join is verified: on exit every token's level obeys the depth law (stated locally: level[k] follows from level[k-1] and the two nestings), no two adjacent tokens are text, for arbitrary entry levels, under the vocabulary precondition that text tokens have nesting 0 (validated at run time).")
    rep.trusted_base += STD_TRUST
    rep.assumptions += ["the delimiter pipeline is verified function by function (tokenizers -> processDelimiters -> _postProcess -> fragments_join); that each function's callers establish its precondition, "
                        "and the final step from 'pairs never cross, token indices increase, each pair is retagged consistently, levels follow the depth law' to 'the stream is a balanced bracket sequence' "
                        "is argued on paper (DESIGN.md 8) and checked by the run-time monitors and the bounded stream oracle"]
    return rep
