"""C11 - rule management is coherent over any history, including failed calls."""
import itertools

from .. import bounded, checks
from ..propbase import deductive
from ..report import Report

R = "markdown_it.ruler.Ruler."
FUNCS = [R + m for m in ("__find__", "enable", "disable", "enableOnly", "at", "before", "after", "push")]


def run(tier, seed):
    rep = Report("C11", tier, seed, "proof")
    deductive(rep, "C11", FUNCS, "contracts.ruler", select=lambda q, ob, rel: rel or ob.kind in ("SAFE", "DEC"))
    n = len(checks.ruler_ops())
    kmax = 3 if tier == "quick" else 4
    items = [p for k in range(1, kmax + 1) for p in itertools.product(range(n), repeat=k)]
    rep.bounded.append(bounded.run(
        "vf.checks:ruler_history", "list", 0, ["-"], "markdown_it.ruler.Ruler (all public methods)",
        "RI (cache None or == Filter), set semantics against a reference model, applied == reported; after every step incl. raising calls",
        "every operation sequence of the stated length over 47 operations (names a, b, b-duplicate, unknown zz; ignoreInvalid on/off; "
        "push/before/after/at/getRules); distinct = distinct final (name, enabled, cache-is-None) vectors",
        items=items, universe=f"all operation sequences of length <= {kmax} over 47 Ruler operations"))
    rep.explanation = (
        "Deductive: every Ruler mutator is proved (pyvc, z3) to leave `__cache__ is None` on every exit, normal and KeyError, "
        "and to have exactly the set semantics of DESIGN.md 3.1 (quantified posts over the rule records); __find__ returns the first match. "
        "Induction over the call history is the composition step (not machine-checked). "
        "getRules/__compile__ (cache == Filter) are covered by the bounded history monitor in this tier.")
    rep.trusted_base = ["pyvc (vf/), z3 5.1.0, cvc5 1.0.3 on z3 unknowns", "Python semantics as listed in DESIGN.md 2.4",
                        "Rule records have value semantics (a Rule is only created as an argument of insert/append)"]
    rep.assumptions = ["Find(rules, n, name) is declared by its characterisation (least index or -1)",
                       "options.get('alt', []) yields an immutable list value (compared by identity)",
                       "induction over finite call histories (composition, not machine-checked)"]
    return rep
