"""C11 - rule management is coherent over any history, including failed calls."""
import itertools

from .. import bounded, checks
from ..propbase import deductive
from ..report import Report

R = "markdown_it.ruler.Ruler."
FUNCS = [R + m for m in ("__find__", "enable", "disable", "enableOnly", "at", "before", "after", "push", "__compile__", "getRules")]


def run(tier, seed):
    rep = Report("C11", tier, seed, "proof")
    deductive(rep, "C11", FUNCS, "contracts.ruler", select=lambda q, ob, rel: rel or ob.kind in ("SAFE", "DEC"))
    # encapsulation (DESIGN 3.1): what getRules hands out is the ruler's cached chain itself - nothing on the parse path
    # may write an object that outlives the call, in particular not those chains (`chain += ...` extends in place)
    from .c12 import add_frame
    PARSE_PATH = ("markdown_it.rules_", "markdown_it.parser_", "markdown_it.helpers", "markdown_it.common", "markdown_it.renderer")
    add_frame(rep, "C11", filter_fn=lambda o: o["func"].startswith(PARSE_PATH))
    n = len(checks.ruler_ops())
    kmax = 3 if tier == "quick" else 4
    items = [p for k in range(1, kmax + 1) for p in itertools.product(range(n), repeat=k)]
    rep.bounded.append(bounded.run(
        "vf.checks:ruler_history", "list", 0, ["-"], "markdown_it.ruler.Ruler (all public methods)",
        "RI (cache None or == Filter), set semantics against a reference model, applied == reported; after every step incl. raising calls",
        "every operation sequence of the stated length over 47 operations (names a, b, b-duplicate, unknown zz; ignoreInvalid on/off; "
        "push/before/after/at/getRules); distinct = distinct final (name, enabled, cache-is-None) vectors",
        items=items, universe=f"all operation sequences of length <= {kmax} over 47 Ruler operations"))
    rep.explanation = (
        "Deductive: every Ruler mutator is proved (pyvc, z3) to leave `__cache__ is None` on every exit, normal and KeyError, "
        "and to have exactly the set semantics of DESIGN.md 3.1 (quantified posts over the rule records); __find__ returns the first match. "
        "__compile__ is proved to publish exactly cache[c] == Filter(rules, c) for every chain name c (loops over the rule records, the alt lists and - in arbitrary order - the set of chain names; "
        "lemma by induction: no selected rule => empty chain), and getRules, under the representation invariant RI (cache None or == Filter), returns Filter(rules, chainName) and keeps RI. "
        "Induction over the call history is the composition step (not machine-checked): RI holds after __init__ (cache None), every mutator re-establishes it by invalidation, getRules preserves it - so what parsing "
        "applies on every chain equals the enabled rules filtered by chain membership after any history.")
    rep.trusted_base += ["pyvc (vf/), z3 5.1.0, cvc5 1.0.3 on z3 unknowns", "Python semantics as listed in DESIGN.md 2.4",
                        "Rule records have value semantics (a Rule is only created as an argument of insert/append)"]
    rep.assumptions += ["Find(rules, n, name) is declared by its characterisation (least index or -1)",
                       "options.get('alt', []) yields an immutable list value (compared by identity)",
                       "induction over finite call histories (composition, not machine-checked)",
                       "Rule.alt lists are immutable values with membership Mem(l, c) <=> exists j < len(l). l[j] == c; `for chain in <set>` visits each element once in an arbitrary order",
                       "Ruler.get_active_rules / get_all_rules (list comprehensions) are monitored by the bounded history check only"]
    return rep
