"""C01 - parsing and rendering are total."""
from ..propbase import deductive, lines_universe, inline_universe, STD_TRUST, ALL_CFGS
from ..report import Report

SB = "markdown_it.rules_block.state_block.StateBlock."
FUNCS = [SB + "__init__", SB + "getLines"] + [SB + m for m in ("skipSpaces", "skipCharsStr", "skipSpacesBack", "skipCharsStrBack", "skipEmptyLines")] + [
    "markdown_it.rules_block.hr.hr", "markdown_it.rules_block.heading.heading", "markdown_it.rules_block.lheading.lheading", "markdown_it.rules_block.fence.fence", "markdown_it.rules_block.code.code",
    "markdown_it.rules_block.html_block.html_block", "markdown_it.rules_block.paragraph.paragraph",
    "markdown_it.rules_block.list.skipOrderedListMarker", "markdown_it.rules_block.list.skipBulletListMarker"]


def run(tier, seed):
    rep = Report("C01", tier, seed, "other")
    deductive(rep, "C01", FUNCS, "contracts.block", select=lambda q, ob, rel: ob.kind in ("SAFE", "DEC", "INV-init", "INV-pres", "PRE", "COVER"))
    deductive(rep, "C01", ["markdown_it.parser_block.ParserBlock.tokenize"], "contracts.block", select=lambda q, ob, rel: True)
    deductive(rep, "C01", ["markdown_it.rules_inline.escape.escape", "markdown_it.parser_inline.ParserInline.tokenize", "markdown_it.parser_inline.ParserInline.skipToken"], "contracts.inline",
              select=lambda q, ob, rel: rel or ob.kind in ("SAFE", "DEC", "INV-init", "INV-pres", "PRE", "COVER", "GUARD"))
    deductive(rep, "C01", ["markdown_it.helpers.parse_link_title.parseLinkTitle", "markdown_it.helpers.parse_link_destination.parseLinkDestination", "markdown_it.helpers.parse_link_label.parseLinkLabel"], "contracts.helpers", select=lambda q, ob, rel: True)
    safety = lambda q, ob, rel: rel or ob.kind in ("SAFE", "DEC", "INV-init", "INV-pres", "PRE", "COVER", "GUARD")  # noqa: E731
    import contracts.delims as DL
    import contracts.emph as EM
    import contracts.linkc as LK
    deductive(rep, "C01", LK.FUNCS, "contracts.linkc", select=safety)
    import contracts.rxrules as RXR
    deductive(rep, "C01", RXR.FUNCS, "contracts.rxrules", select=safety)
    import contracts.fragjoin as FJ
    import contracts.inline2 as I2
    deductive(rep, "C01", I2.FUNCS, "contracts.inline2", select=safety)
    from ..charclass import charclass_obligation
    charclass_obligation(rep, "C01", "markdown_it.rules_inline.text._terminator_char_regex", "_TerminatorChars")
    deductive(rep, "C01", DL.FUNCS, "contracts.delims", select=safety)
    deductive(rep, "C01", EM.FUNCS, "contracts.emph", select=safety)
    deductive(rep, "C01", FJ.FUNCS, "contracts.fragjoin", select=safety)
    inline_universe(rep, "vf.checks:delim_contracts", tier, "processDelimiters / _postProcess / tokenizers", "preconditions of the delimiter-pipeline contracts hold at every real call (what their safety proofs assume)", quick_k=3, thorough_k=4)
    cfgs = ["commonmark", "js-default", "zero", "cm-heading", "cm+table+strike", "cm-maxnest1", "cm+typo", "cm-code", "cm+defs"]
    lines_universe(rep, "vf.checks:no_exception", tier, "MarkdownIt.parse/render/parseInline/renderInline", "no exception, no hang (2 s per document)",
                   cfgs=cfgs if tier == "quick" else ALL_CFGS, exception_is_failure=True, timeout_is_failure=True, rule="distinct top-level token type sequences")
    lines_universe(rep, "vf.checks:block_contracts", tier, "the seven leaf block rules (real calls during parse)", "every precondition (WF1-5, range) and postcondition of their contracts, evaluated natively on every real call",
                   cfgs=["commonmark", "js-default", "cm-code"], rule="distinct token-stream signatures")
    lines_universe(rep, "vf.checks:container_contracts", tier, "blockquote, list_block, reference, table and the seven leaf rules (real calls during parse)", "every precondition (WF, CONS, dispatch guard, bsCount >= 0) and postcondition of their contracts, evaluated natively on every real call - nested calls included",
                   cfgs=["commonmark", "cm+table+strike"], rule="distinct token-stream signatures")
    inline_universe(rep, "vf.checks:no_exception", tier, "MarkdownIt.render/renderInline", "no exception, no hang", cfgs=["commonmark", "cm+typo", "js-default"],
                    exception_is_failure=True, timeout_is_failure=True, quick_k=2, thorough_k=3)
    from .c17 import add_cons
    add_cons(rep, "C01")
    from .c17 import add_refdef
    add_refdef(rep, "C01")
    from .c17 import add_list
    add_list(rep, "C01")
    rep.explanation = (
        "Mixed. Deductive: SAFE (no IndexError/ValueError/AssertionError/unbound local at any site) and DEC (every loop terminates) obligations are "
        "discharged for the StateBlock scanning helpers, the seven leaf block rules, ParserBlock.tokenize (progress: the paragraph fallback always matches; rules run only under level < maxNesting on non-empty lines), ParserInline.tokenize/skipToken (position strictly advances; memo invariant cache[p] > p) and the escape rule, under the line-table invariant WF (which the run-time monitors "
        "confirm on every real call). Bounded: a no-exception/no-hang monitor on the four API methods over the wrapped line universe and the inline "
        "universe x 9-12 configurations. blockquote, list_block and its marker scanners, parseLinkTitle and text_join are verified too. The delimiter pipeline (scanDelims, the emphasis/strikethrough/newline rules, processDelimiters, both _postProcess rules, fragments_join) is verified for safety - including that no computed index is negative, so nothing wraps around - and termination. The table and reference rules are verified as well (safety, termination, balanced pushes, progress, restore). All inline rules of the three chains except linkify are verified: autolink, link, image, text, backticks, and - with a structural model of their anchored regular expressions read from the compiled pattern objects (character classes enumerated on the real matcher) - entity (int()/chr()/table lookup cannot raise; a match never crosses posMax because its characters are not terminator characters), html_inline (advance >= 3; that the match ends inside posMax stays an assumption) and the decoder replaceEntityPattern. text stays within posMax only because link/image lower posMax onto a terminator character, which its contract states as a precondition. Every verified function also proves a frame condition at exit (FRAME/exit/<path>): whatever it wrote that its (effective) modifies clause does not name holds its entry value again - callers rely on exactly that. "
        "smartquotes/replacements internals, the renderer's Python-level safety, html_block's EOF argument for getLines (a column argument) and linkify are covered by the bounded monitor only.")
    rep.trusted_base += STD_TRUST
    rep.assumptions += ["WF (DESIGN 3.2) holds at every rule call: monitored at run time, established deductively only for the leaf rules' callers in progress",
                       "generic rule contract for terminator rules (plugins assumed to satisfy it)", "StateBlock.getLines: safety and termination proved under its EOF precondition; the content of its result is summarised by an uninterpreted string function"]
    return rep
