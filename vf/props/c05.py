"""C05 - emitted link and image URLs are normalised and never carry a dangerous scheme."""
from .. import bounded, oracles2
from ..propbase import lines_universe, inline_universe, STD_TRUST
from ..report import Report


def run(tier, seed):
    rep = Report("C05", tier, seed, "other")
    from .. import typestate
    typestate.add_url_obligations(rep, "C05")
    rep.bounded.append(bounded.run("vf.oracles2:c05_urls", "list", 0, ["commonmark", "js-default", "zero", "cm+typo"], "link/image/autolink/reference producers",
                                   "every href/src attribute is URL-safe ASCII and has no javascript:/vbscript:/file:/data: scheme (data:image/gif|png|jpeg|webp excepted)",
                                   "scheme-spelling universe x 8 producer templates; distinct = distinct (count, token signature)", items=oracles2.c05_docs(), universe="scheme spellings x producers"))
    lines_universe(rep, "vf.oracles2:c05_urls", tier, "MarkdownIt.parse", "same URL contract on the line universe", cfgs=["commonmark", "js-default"], wrapped=False)
    inline_universe(rep, "vf.oracles2:c05_urls", tier, "MarkdownIt.parse", "same URL contract on the inline universe", cfgs=["commonmark"], quick_k=3, thorough_k=4)
    rep.explanation = ("Mixed. Deductive: LANG - no URL accepted by validateLink (its own control structure and regex literals, translated with Python's regex parser, after strip+lower) lies in the "
                       "dangerous-scheme language (z3 regex solver); TYPESTATE - at every href/src store site of the six producers, and at the writer of env references, the value is '' or normalizeLink's result tested "
                       "by validateLink on that path, or read from env references. Bounded: URL contract monitored on all tokens over the scheme universe and the line/inline universes.")
    rep.trusted_base += STD_TRUST
    rep.assumptions += ["mdurl.encode returns only URL-safe ASCII (assumed contract on the dependency; its output alphabet is checked on the bounded inputs)"]
    return rep
