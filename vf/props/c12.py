"""C12 - a parse depends only on configuration, source and env: no hidden shared state."""
from .. import bounded, frame
from ..report import Report, Ob


def add_frame(rep, prop, want_si=False, filter_fn=None):
    obs, functions, sites = frame.frame_obligations()
    for o in obs:
        if filter_fn and not filter_fn(o):
            continue
        rep.obs.append(Ob(oid=f"{prop}/{o['oid']}", kind=o["kind"], func=o["func"], backend="frame", verdict=o["verdict"], info=o["info"], line=o["line"], solver="region-typing"))
    rep.functions = sorted(set(rep.functions) | set(functions))
    if want_si:
        for o in frame.si_obligations():
            rep.obs.append(Ob(oid=f"{prop}/{o['oid']}", kind="SI", func=o["func"], backend="frame", verdict=o["verdict"], info=o["info"], line=o["line"], solver="publication-dataflow"))
    return sites


def run(tier, seed):
    rep = Report("C12", tier, seed, "proof")
    sites = add_frame(rep, "C12")
    n = 300 if tier == "quick" else 6000
    rep.bounded.append(bounded.run(
        "vf.checks:c12_history", "list", 0, ["commonmark", "js-default", "zero"], "MarkdownIt (public API)",
        "after a random API history: instance == fresh identically configured instance; other instances and presets untouched; env does not travel",
        "seeded random histories (VERIF_SEED) of 2-8 API calls on two live instances; distinct = distinct (seed class, first probe output)",
        items=[seed * 100000 + i for i in range(n)], universe=f"{n} seeded random API histories"))
    rep.extra["write_sites"] = len(sites)
    rep.explanation = (
        "Frame back end (region typing over the real source, DESIGN.md 2.3): every heap write site of every function in the package gets a FRAME "
        "obligation; functions are strict (may write only per-call objects and the caller's env) unless they are configuration API/constructors; the "
        "single instance write on the parse path is Ruler.__cache__ whose value is determined by __rules__ (C11). No function writes module state; no "
        "global/setattr/__dict__/mutable default/mutable class attribute. Hence the result is a function of (configuration, src, env).")
    rep.trusted_base += ["the region table of vf/frame.py (classes -> CALL/MD/ENV, fresh constructors)", "re, str, mdurl, html.entities are deterministic and stateless"]
    rep.assumptions += ["plugins and user callbacks do not write instance state behind the API", "functools.cache on _terminator_char_regex is a content-pure memo"]
    return rep
