"""C07 - top-level blocks are parsed independently."""
from ..propbase import deductive, gen_universe, STD_TRUST
from ..report import Report


def run(tier, seed):
    rep = Report("C07", tier, seed, "other")
    deductive(rep, "C07", ["markdown_it.rules_block.paragraph.paragraph", "markdown_it.rules_block.lheading.lheading", "markdown_it.rules_block.hr.hr", "markdown_it.rules_block.heading.heading", "markdown_it.rules_block.fence.fence", "markdown_it.rules_block.code.code", "markdown_it.rules_block.html_block.html_block"],
              "contracts.block", select=lambda q, ob, rel: rel and ob.kind not in ("SAFE", "DEC"))
    from .. import deadstate
    from ..report import Ob
    for o in deadstate.obligations():
        rep.obs.append(Ob(oid=f"C07/{o['oid']}", kind="DEAD", func=o["func"], backend="deadstate", verdict=o["verdict"], info=o["info"], line=o["line"], solver="must-assign dataflow"))
    gen_universe(rep, "vf.oracles2:c07_concat", "vf.oracles2:gen_c07", tier, "MarkdownIt.parse", "blocks(A + blank + B) == blocks(A + blank) ++ shift(blocks(B))",
                 ["commonmark"] if tier == "quick" else ["commonmark", "cm+table+strike", "js-default"],
                 "pairs (A, B): A = all newline-terminated documents of <= 2 vocabulary lines that end closed, B = non-indented vocabulary documents; distinct = distinct (sig A, sig B)",
                 "closed A x non-indented B over the line vocabulary")
    from .c17 import add_cons
    add_cons(rep, "C07")
    from .c17 import add_refdef
    add_refdef(rep, "C07")
    from .c17 import add_list
    add_list(rep, "C07")
    rep.explanation = ("Mixed. Deductive: failing or silent leaf rules leave line/level/tokens untouched, successful ones restore level and parentType (frame part of the statement's "
                       "second sentence) for the leaf rules, blockquote and list_block: all five line tables, lineMax, blkIndent, listIndent, tight, parentType and level are restored on every exit; DEAD obligations - parentType and tight, the two fields rules may leave changed, are dead at every rule entry: every silent dispatch is dominated by a store to parentType, every read is silent-guarded or preceded by a store (must-assign dataflow over the real source). Bounded: the concatenation law on the real parse over pairs from the line universe with the statement's side conditions.")
    rep.trusted_base += STD_TRUST
    rep.assumptions += ["restore postconditions of list/blockquote/table/reference are covered by the bounded law only"]
    return rep
