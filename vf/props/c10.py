"""C10 - rule and option switches have exactly their documented effect."""
from ..propbase import lines_universe, STD_TRUST
from ..report import Report


def run(tier, seed):
    rep = Report("C10", tier, seed, "other")
    try:
        from .. import vocab
        vocab.add_obligations(rep, "C10")
    except ImportError:
        pass
    from ..propbase import deductive
    R = "markdown_it.ruler.Ruler."
    deductive(rep, "C10", [R + m for m in ("enable", "disable", "enableOnly", "at", "before", "after", "push", "__find__", "__compile__", "getRules")], "contracts.ruler",
              select=lambda q, ob, rel: ob.kind not in ("SAFE", "DEC"))
    from .. import reads
    reads.add_config_time_obligations(rep, "C10")
    import contracts.rxrules as RXR
    deductive(rep, "C10", [RXR.QH], "contracts.rxrules")
    deductive(rep, "C10", ["markdown_it.rules_block.html_block.html_block"], "contracts.block")
    cfgs = ["commonmark", "js-default", "zero", "cm-heading", "cm-code", "cm+table+strike", "cm+defs"]
    lines_universe(rep, "vf.oracles2:c10_vocab", tier, "MarkdownIt.parse", "token types subset of the vocabulary of the enabled rules (html tokens only with options.html)", cfgs=cfgs)
    lines_universe(rep, "vf.oracles2:c10_conservative", tier, "MarkdownIt.parse/render", "table/strikethrough conservative without trigger characters; inline_definitions/store_labels only add definition tokens and labels (tokens, env, HTML)",
                   cfgs=["commonmark", "js-default"], wrapped=False)
    rep.explanation = ("Mixed. Deductive (when the vocabulary back end ran): each rule function creates only token types of its declared vocabulary (type literals at push/Token sites read "
                       "from the source) and html tokens are guarded by options.html. Bounded: vocabulary and conservativity monitors over the line universe and rule subsets.")
    rep.trusted_base += STD_TRUST
    rep.assumptions += ["'a rule that returns False without effects is a no-op in a dispatch loop' (composition, not machine-checked)"]
    return rep
