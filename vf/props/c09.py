"""C09 - backslash-escaping makes any text literal in every inline context."""
from ..propbase import gen_universe, STD_TRUST
from ..report import Report


def run(tier, seed):
    rep = Report("C09", tier, seed, "other")
    try:
        from ..propbase import deductive
        import contracts.inline as CI  # noqa: F401
        deductive(rep, "C09", CI.C09_FUNCS, "contracts.inline")
    except ImportError:
        pass
    gen_universe(rep, "vf.oracles2:c09_literal", "vf.oracles2:gen_c09", tier, "MarkdownIt.render", "esc(t) and charref(t) render as the literal, HTML-escaped t in 7 inline contexts",
                 ["commonmark", "cm+table+strike"], "all strings t of <= k characters over a 28-symbol alphabet (ASCII punctuation, letters, non-ASCII, C0), both encodings, 7 templates; distinct = distinct t",
                 "texts x {backslash, character reference} x {paragraph, heading, emphasis, link text, image alt, link title, table cell}")
    rep.explanation = ("Mixed, mostly bounded: the end-to-end statement is checked on the real render over templates x texts. Deductive part (when contracts.inline is present): the escape "
                       "rule pushes one text_special with the escaped character and advances by 2; text_join folds all specials including image children.")
    rep.trusted_base = STD_TRUST
    rep.assumptions = ["table cell template written with padding blanks (`| e |`), see DESIGN.md 5 #11"]
    return rep
