"""C09 - backslash-escaping makes any text literal in every inline context."""
from ..propbase import gen_universe, STD_TRUST
from ..report import Report


def run(tier, seed):
    rep = Report("C09", tier, seed, "other")
    from ..propbase import deductive
    import contracts.inline as CI
    deductive(rep, "C09", CI.C09_FUNCS, "contracts.inline")
    deductive(rep, "C09", ["markdown_it.helpers.parse_link_title.parseLinkTitle"], "contracts.helpers")
    import contracts.rxrules as RXR
    deductive(rep, "C09", [RXR.QE], "contracts.rxrules")
    import contracts.textjoin as TJ
    deductive(rep, "C09", TJ.FUNCS, "contracts.textjoin")
    from .. import reads, casefold
    from ..report import Ob
    reads.add_order_obligations(rep, "C09")
    n, bad = casefold.whitespace_table_obligation()
    rep.obs.append(Ob(oid="C09/markdown_it.common.utils.isWhiteSpace/ENUM/unicode-whitespace", kind="ENUM", func="markdown_it.common.utils.isWhiteSpace", backend="exhaustive-enumeration",
                      verdict="discharged" if not bad else "failed", solver="complete enumeration on the real function", model=repr(bad),
                      info=f"isWhiteSpace agrees with Unicode Zs + the ASCII controls on all {n} scalar values (flanking of delimiters next to format characters such as U+200B depends on it)" if not bad else f"isWhiteSpace disagrees with the Unicode whitespace class at {bad}"))
    if bad:
        rep.replays["C09/markdown_it.common.utils.isWhiteSpace/ENUM/unicode-whitespace"] = {"lifted": {"arguments": {"code_points": bad}}, "observed": {"outcome": "isWhiteSpace(cp) != (category Zs or listed control)"}, "replayed": True}
    gen_universe(rep, "vf.oracles2:c09_literal", "vf.oracles2:gen_c09", tier, "MarkdownIt.render", "esc(t) and charref(t) render as the literal, HTML-escaped t in 9 inline contexts",
                 ["commonmark", "cm+table+strike"], "all strings t of <= k characters over a 28-symbol alphabet (ASCII punctuation, letters, non-ASCII, C0), both encodings, 7 templates; distinct = distinct t",
                 "texts x {backslash, character reference} x {paragraph, heading, emphasis, link text, image alt, link title, table cell}")
    rep.explanation = ("Mixed. Deductive: the escape rule (pyvc, all paths): fires only on a backslash, for an ASCII-punctuation successor pushes exactly one text_special whose content is that character and advances by 2, "
                       "keeps backslash + character otherwise, never touches level/posMax, is pure when silent or failing; the entity rule (structural regex model): fires only on '&', consumes exactly one reference ending in ';', pushes one text_special (info 'entity') and leaves nothing in the pending text; text_join folds every special (incl. image descriptions); ORDER: text_join runs last in the core chain. Bounded: the end-to-end statement on the real render over 9 templates x texts "
                       "(the decoded value of a reference, renderer escaping and title unescaping are covered there).")
    rep.trusted_base += STD_TRUST
    rep.assumptions += ["table cell template written with padding blanks (`| e |`), see DESIGN.md 5 #11"]
    return rep
