"""Typed heap model: field types of the package's classes (lazily created symbolic fields).

Type strings: int, bool, str (char-indexed string), atom (opaque compared-only value), intlist,
obj:<Class>, reclist:<Class>, tokseq (ghost append-only token sequence), opaque, optint, map.
The table is checked against the real class sources by `check_schema` (fields assigned in __init__ /
dataclass fields must be known here), so a field added to /repo is noticed (exit 3), not ignored.
"""
from __future__ import annotations

import ast

from . import src as S

CLASS_MODULE = {
    "StateBlock": "markdown_it.rules_block.state_block",
    "StateInline": "markdown_it.rules_inline.state_inline",
    "StateCore": "markdown_it.rules_core.state_core",
    "StateBase": "markdown_it.ruler",
    "Ruler": "markdown_it.ruler",
    "Rule": "markdown_it.ruler",
    "Token": "markdown_it.token",
    "MarkdownIt": "markdown_it.main",
    "ParserBlock": "markdown_it.parser_block",
    "ParserInline": "markdown_it.parser_inline",
    "ParserCore": "markdown_it.parser_core",
    "OptionsDict": "markdown_it.utils",
    "RendererHTML": "markdown_it.renderer",
    "Delimiter": "markdown_it.rules_inline.state_inline",
    "_Result": "markdown_it.helpers.parse_link_title",
    "Scanned": "markdown_it.rules_inline.state_inline",
}

SCHEMA = {
    "StateBlock": {
        "src": "str", "md": "obj:MarkdownIt", "env": "opaque", "tokens": "tokseq",
        "bMarks": "intlist", "eMarks": "intlist", "tShift": "intlist", "sCount": "intlist", "bsCount": "intlist",
        "blkIndent": "int", "line": "int", "lineMax": "int", "tight": "bool", "ddIndent": "int",
        "listIndent": "int", "parentType": "atom", "level": "int", "result": "opaque", "_code_enabled": "bool",
    },
    "StateInline": {
        "src": "str", "md": "obj:MarkdownIt", "env": "opaque", "tokens": "tokseq", "tokens_meta": "opaque",
        "pos": "int", "posMax": "int", "level": "int", "pending": "str", "pendingLevel": "int",
        "cache": "intmap", "delimiters": "reclist:Delimiter", "_prev_delimiters": "opaque", "backticks": "intmap",
        "backticksScanned": "bool", "linkLevel": "int",
    },
    "StateCore": {"src": "str", "md": "obj:MarkdownIt", "env": "opaque", "tokens": "opaque", "inlineMode": "bool"},
    "Ruler": {"__rules__": "reclist:Rule", "__cache__": "cache"},
    "Rule": {"name": "atom", "enabled": "bool", "fn": "atom", "alt": "atom"},
    "Token": {
        "type": "atom", "tag": "str", "nesting": "int", "attrs": "opaque", "map": "optlist", "level": "int",
        "children": "optlist", "content": "str", "markup": "str", "info": "str", "meta": "opaque",
        "block": "bool", "hidden": "bool",
    },
    "MarkdownIt": {
        "options": "obj:OptionsDict", "block": "obj:ParserBlock", "inline": "obj:ParserInline",
        "core": "obj:ParserCore", "renderer": "opaque", "linkify": "opaque", "utils": "opaque", "helpers": "opaque",
    },
    # abstract view of a token in a children list: only the fields the typographic rules look at
    "TokenA": {"type": "atom", "info": "atom", "content": "atom", "level": "int", "nesting": "int", "children": "atom", "tag": "atom", "markup": "atom", "hidden": "bool"},
    "Delimiter": {"marker": "int", "length": "int", "token": "int", "end": "int", "open": "bool", "close": "bool"},
    "Scanned": {"can_open": "bool", "can_close": "bool", "length": "int"},
    "StateCoreJ": {"tokens": "reclist:TokenA"},
    "StateBlockJ": {"tokens": "reclist:TokenA", "level": "int"},
    "StateInlineJ": {"tokens": "reclist:TokenA", "delimiters": "optlist", "tokens_meta": "optlist"},
    "_Result": {"ok": "bool", "pos": "int", "lines": "int", "str": "str"},
    "ParserBlock": {"ruler": "obj:Ruler"},
    "ParserInline": {"ruler": "obj:Ruler", "ruler2": "obj:Ruler"},
    "ParserCore": {"ruler": "obj:Ruler"},
    "OptionsDict": {
        "maxNesting": "int", "html": "bool", "linkify": "bool", "typographer": "bool", "quotes": "opaque",
        "xhtmlOut": "bool", "breaks": "bool", "langPrefix": "str", "highlight": "opaque",
        "store_labels": "bool", "inline_definitions": "bool", "_options": "opaque",
    },
}


def class_of_annotation(ann: ast.expr | None) -> str | None:
    """'StateBlock' for annotation StateBlock; 'int'/'bool'/'str' for builtins; None if unknown."""
    if ann is None:
        return None
    if isinstance(ann, ast.Constant) and isinstance(ann.value, str):
        try:
            ann = ast.parse(ann.value, mode="eval").body
        except SyntaxError:
            return None
    if isinstance(ann, ast.Name):
        return ann.id
    if isinstance(ann, ast.Attribute):
        return ann.attr
    return None


def real_fields(cls: str) -> set[str]:
    """Field names the real class source declares (self.x = ... in __init__, dataclass fields, properties)."""
    mi = S.load_module(CLASS_MODULE[cls])
    node = mi.classes.get(cls)
    if node is None:
        raise S.SourceError(f"class {cls} not found in {mi.name}")
    out: set[str] = set()
    for item in node.body:
        if isinstance(item, ast.AnnAssign) and isinstance(item.target, ast.Name):
            out.add(item.target.id)
        if isinstance(item, ast.FunctionDef):
            if item.name == "__init__":
                for n in ast.walk(item):
                    if isinstance(n, ast.Attribute) and isinstance(n.ctx, ast.Store) and isinstance(n.value, ast.Name) and n.value.id == "self":
                        out.add(n.attr)
            for d in item.decorator_list:
                if isinstance(d, ast.Name) and d.id == "property":
                    out.add(item.name)
    for b in node.bases:
        bn = b.id if isinstance(b, ast.Name) else None
        if bn in CLASS_MODULE and bn != cls:
            out |= real_fields(bn)
    return out


def infer_field_type(cls: str, name: str):
    """A field the heap model does not list (added by a change to the code): when the class's __init__ initialises it
    with an int / bool / str literal its type is evident and the field joins the model for this run; anything else stays
    out of reach."""
    try:
        mi = S.load_module(CLASS_MODULE[cls])
    except (KeyError, S.SourceError):
        return None
    node = mi.classes.get(cls)
    if node is None:
        return None
    for item in node.body:
        if isinstance(item, ast.FunctionDef) and item.name == "__init__":
            for n in ast.walk(item):
                tgt = val = None
                if isinstance(n, ast.Assign) and len(n.targets) == 1:
                    tgt, val = n.targets[0], n.value
                elif isinstance(n, ast.AnnAssign) and n.value is not None:
                    tgt, val = n.target, n.value
                if (isinstance(tgt, ast.Attribute) and isinstance(tgt.value, ast.Name) and tgt.value.id == "self" and tgt.attr == name
                        and isinstance(val, ast.Constant)):
                    if isinstance(val.value, bool):
                        return "bool"
                    if isinstance(val.value, int):
                        return "int"
                    if isinstance(val.value, str):
                        return "str"
    return None


def check_schema() -> list[str]:
    """Differences between SCHEMA and the real classes: fields in the source that the model does not know."""
    problems = []
    for cls in ("StateBlock", "StateInline", "StateCore", "Ruler", "Rule", "Token", "ParserBlock", "ParserInline", "ParserCore"):
        real = real_fields(cls)
        known = set(SCHEMA[cls]) | {"srcCharCode", "_src", "_srcCharCode"}
        extra = {f for f in real if f not in known}
        if extra:
            problems.append(f"{cls}: fields in source not in the heap model: {sorted(extra)}")
    return problems
