"""Evaluation of contract clauses (python expression strings) and spec functions.

Clauses are evaluated by the same symbolic evaluator in *spec mode*: pure (no forks, no SAFE obligations),
with old(e), result, forall/exists(i, lo, hi, P), implies(a, b), iff(a, b) and the registered spec functions.
Spec functions are ordinary executable python (single `return <expr>` body): symbolically they become
uninterpreted functions whose defining equation is instantiated at every term they are applied to
(one unfolding per occurrence, quantifier-free), natively they are just called.
"""
from __future__ import annotations

import ast
import textwrap

import z3

from .core import *  # noqa: F401,F403
from .vals import *  # noqa: F401,F403
from .vals import SEQ, VGapTuple

_PARSE_CACHE: dict[str, ast.expr] = {}


def parse_expr(s: str) -> ast.expr:
    if s not in _PARSE_CACHE:
        try:
            _PARSE_CACHE[s] = ast.parse(textwrap.dedent(s).strip(), mode="eval").body
        except SyntaxError as e:
            raise ContractError(f"syntax error in clause {s!r}: {e}")
    return _PARSE_CACHE[s]


class SpecFun:
    axiom = None

    def __init__(self, name: str, source: str, result: str = "int", axiom: str | None = None, reads=None, quant=None):
        self.name = name
        self.axiom = axiom
        self.reads = reads  # record-list fields the function depends on (identity of the symbol)
        self.quant = quant or []  # parameters the defining axiom is universally quantified over
        if axiom is not None:
            # characterised by an axiom over its parameters and `result` (a total function satisfying it must
            # exist and be unique - argued where the spec function is declared); `source` is the native version
            self.source = textwrap.dedent(source)
            tree = ast.parse(self.source)
            self.fn = tree.body[0]
            self.params = [a.arg for a in self.fn.args.args]
            self.result = result
            self.expr = None
            ns: dict = {}
            exec(compile(tree, f"<spec {name}>", "exec"), ns)
            self.native = ns[name]
            return
        self.source = textwrap.dedent(source)
        tree = ast.parse(self.source)
        self.fn = tree.body[0]
        assert isinstance(self.fn, ast.FunctionDef)
        body = [s for s in self.fn.body if not (isinstance(s, ast.Expr) and isinstance(s.value, ast.Constant))]
        if len(body) != 1 or not isinstance(body[0], ast.Return):
            raise ContractError(f"spec function {name} must be a single return expression")
        self.expr = body[0].value
        self.params = [a.arg for a in self.fn.args.args]
        self.result = result
        ns: dict = {}
        exec(compile(tree, f"<spec {name}>", "exec"), ns)
        self.native = ns[name]


class SpecMixin:
    spec_bind: dict = {}

    def nofork_feasible(self, a) -> bool:
        from .engine import has_quant

        try:
            if has_quant(a):
                return True
            return self.feasible(a)
        except Exception:  # noqa: BLE001
            return True

    def spec_eval(self, expr: str, fr, result=None, extra=None):
        node = parse_expr(expr)
        saved = self.spec_bind
        self.spec_bind = dict(saved)
        if result is not None:
            self.spec_bind["result"] = result
        if extra:
            self.spec_bind.update(extra)
        self.spec_mode += 1
        try:
            return self.eval(node, fr)
        except NeedFork:
            raise ContractError(f"clause {expr!r} is not pure")
        finally:
            self.spec_mode -= 1
            self.spec_bind = saved

    def spec_bool(self, expr: str, fr, label="", result=None):
        try:
            return self.truth(self.spec_eval(expr, fr, result))
        except Unsupported as e:
            raise ContractError(f"clause {label or expr!r} of {fr.qualname}: {e}")

    def spec_int(self, expr: str, fr):
        return self.as_int(self.spec_eval(expr, fr))

    # ------------------------------------------------------------------ spec-only call forms
    def spec_call(self, node: ast.Call, fr):
        f = node.func
        if not isinstance(f, ast.Name):
            return NotImplemented
        name = f.id
        if name == "old":
            saved = getattr(self, "_use_old", False)
            self._use_old = True
            try:
                return self.eval(node.args[0], fr)
            finally:
                self._use_old = saved
        if name in ("forall", "exists"):
            var, lo, hi, body = node.args
            if not isinstance(var, ast.Name):
                raise ContractError("forall(i, lo, hi, P): i must be a name")
            k = fresh(var.id)
            lo_t = self.as_int(self.eval(lo, fr))
            hi_t = self.as_int(self.eval(hi, fr))
            saved = self.spec_bind
            self.spec_bind = dict(saved)
            self.spec_bind[var.id] = VInt(k)
            try:
                p = self.truth(self.eval(body, fr))
            finally:
                self.spec_bind = saved
            rng = z3.And(lo_t <= k, k < hi_t)
            return VBool(z3.ForAll([k], z3.Implies(rng, p)) if name == "forall" else z3.Exists([k], z3.And(rng, p)))
        if name == "implies":
            a = self.truth(self.eval(node.args[0], fr))
            if z3.is_false(z3.simplify(a)):
                return VBool(True)
            if self.spec_mode and not self.nofork_feasible(a):
                return VBool(True)  # antecedent excluded by the path condition: the consequent need not be defined here
            b = self.truth(self.eval(node.args[1], fr))
            return VBool(z3.Implies(a, b))
        if name == "bound":
            # bound('x'): the local x is bound on this path (a fact of the path, decided while executing it)
            nm = node.args[0].value
            from .ev_expr import UNBOUND

            v = fr.locals.get(nm, UNBOUND)
            return VBool(v is not UNBOUND)
        if name == "iff":
            a = self.truth(self.eval(node.args[0], fr))
            b = self.truth(self.eval(node.args[1], fr))
            return VBool(a == b)
        if name == "ite":
            c = self.truth(self.eval(node.args[0], fr))
            return self.ite(c, self.eval(node.args[1], fr), self.eval(node.args[2], fr))
        if name in self.specfuns:
            args = [self.eval(a, fr) for a in node.args]
            return self.apply_specfun(name, args)
        h = getattr(self, "spec_" + name, None)
        if h is not None:
            return h(node, fr)
        return NotImplemented

    # ------------------------------------------------------------------ spec functions
    def apply_specfun(self, name: str, args, unfold=True):
        sf = self.specfuns[name]
        # string / list arguments become part of the symbol's identity; int/bool args are UF arguments
        ident = [name]
        targs = []
        for a in args:
            if isinstance(a, (VInt, VBool)):
                targs.append(self.as_int(a) if isinstance(a, VInt) else a.t)
            elif isinstance(a, VAtom):
                targs.append(a.t)
            elif isinstance(a, VStr) and a.kind == "chr":
                targs.append(a.a)
            elif isinstance(a, VStr) and a.kind == "var":
                ident.append(a.c)
            elif isinstance(a, VStr) and a.kind == "lit":
                ident.append(repr(a.a))
            elif isinstance(a, VList):
                p = self.get_payload(a.ref, self.use_old)
                ident.append(self.payload_ident(p, sf.reads))
            elif isinstance(a, VObj):
                ident.append(a.ref)
            else:
                raise ContractError(f"spec function {name}: unsupported argument {a!r}")
        rs = z3.BoolSort() if sf.result == "bool" else (SEQ if sf.result == "seq" else z3.IntSort())
        uf = z3.Function("$".join(ident), *[t.sort() for t in targs], rs)
        app = uf(*targs) if targs else uf()
        key = (str(uf), tuple(str(z3.simplify(t)) for t in targs))
        if sf.axiom is not None and sf.quant:
            # universally quantified defining axiom, once per instance of the non-quantified arguments
            qidx = [i for i, p in enumerate([q for q, a in zip(sf.params, args) if isinstance(a, (VInt, VBool, VAtom)) or (isinstance(a, VStr) and a.kind == "chr")]) if p in sf.quant]
            fixed = tuple(str(z3.simplify(t)) for i, t in enumerate(targs) if i not in qidx)
            qkey = (str(uf), "Q", fixed)
            if qkey not in self.unfolded:
                self.unfolded.add(qkey)
                qvars = {}
                newargs = []
                ti = 0
                for pname, a in zip(sf.params, args):
                    if isinstance(a, (VInt, VBool, VAtom)) or (isinstance(a, VStr) and a.kind == "chr"):
                        if pname in sf.quant:
                            qv = fresh("q_" + pname)
                            qvars[pname] = qv
                            newargs.append(VAtom(qv) if isinstance(a, VAtom) else VInt(qv))
                        else:
                            newargs.append(a)
                        ti += 1
                    else:
                        newargs.append(a)
                qt = []
                for pname, a in zip(sf.params, newargs):
                    if isinstance(a, (VInt, VAtom)):
                        qt.append(a.t)
                    elif isinstance(a, VBool):
                        qt.append(a.t)
                    elif isinstance(a, VStr) and a.kind == "chr":
                        qt.append(a.a)
                qapp = uf(*qt)
                saved = self.spec_bind
                self.spec_bind = dict(zip(sf.params, newargs))
                self.spec_bind["result"] = VBool(qapp) if sf.result == "bool" else VInt(qapp)
                self.spec_mode += 1
                self.unfold_depth += 5
                try:
                    body = self.truth(self.eval(parse_expr(sf.axiom), self.frames[-1] if self.frames else None))
                finally:
                    self.unfold_depth -= 5
                    self.spec_mode -= 1
                    self.spec_bind = saved
                ax = z3.ForAll(list(qvars.values()), body, patterns=[qapp])
                self.def_axioms.append(ax)
                self.assume(ax)
            return VBool(app) if sf.result == "bool" else VInt(app)
        if unfold and key not in self.unfolded and self.unfold_depth < 2:
            self.unfolded.add(key)
            saved = self.spec_bind
            self.spec_bind = dict(zip(sf.params, args))
            self.unfold_depth += 1
            self.spec_mode += 1
            try:
                if sf.axiom is not None:
                    self.spec_bind["result"] = VBool(app) if sf.result == "bool" else VInt(app)
                    ax = self.truth(self.eval(parse_expr(sf.axiom), self.frames[-1] if self.frames else None))
                else:
                    body = self.eval(sf.expr, self.frames[-1] if self.frames else None)
                    ax = app == (body.t if isinstance(body, (VInt, VBool, VSeqZ)) else self.as_int(body))
            finally:
                self.spec_mode -= 1
                self.unfold_depth -= 1
                self.spec_bind = saved
            self.def_axioms.append(ax)
            self.assume(ax)
        if sf.result == "seq":
            return VSeqZ(app)
        return VBool(app) if sf.result == "bool" else VInt(app)

    unfold_depth = 0

    def payload_ident(self, p, reads=None):
        import hashlib

        if isinstance(p, RecListP) and reads:
            txt = "|".join(f"{f}:{p.fields[f].sexpr()}" for f in sorted(reads)) + "|" + p.len.sexpr()
            return txt if len(txt) < 40 else "L" + hashlib.md5(txt.encode()).hexdigest()[:10]

        if isinstance(p, IntListP):
            txt = f"{p.arr.sexpr()}|{p.len.sexpr()}"
        elif isinstance(p, RecListP):
            txt = "|".join(f"{f}:{a.sexpr()}" for f, a in sorted(p.fields.items())) + "|" + p.len.sexpr()
        else:
            raise ContractError("spec function over this list kind")
        return txt if len(txt) < 40 else "L" + hashlib.md5(txt.encode()).hexdigest()[:10]

    # handy spec helpers ----------------------------------------------------
    def spec_new_tokens(self, node, fr):
        """new_tokens(state) -> tuple of tokens appended to state.tokens on this path"""
        st = self.eval(node.args[0], fr)
        toks = self.get_field(st, "tokens")
        p = self.get_payload(toks.ref)
        if p.gapped:
            return VGapTuple(p.items, p.tail_items)
        return VTuple(list(p.items))

    def spec_ntokens(self, node, fr):
        st = self.eval(node.args[0], fr)
        toks = self.get_field(st, "tokens", self.use_old)
        p = self.get_payload(toks.ref, self.use_old)
        return VInt(self.list_len(p))

    def spec_strfun(self, node, fr):
        """strfun('Name', a, b, ...): the uninterpreted string function used as `result_fun` of a contract"""
        name = node.args[0].value
        args = [self.eval(a, fr) for a in node.args[1:]]
        return self.apply_strfun(name, [a for a in args if isinstance(a, (VInt, VBool))])

    def spec_altlen(self, node, fr):
        from .ev_stmt import ALT_LEN

        self.alt_axioms()
        return VInt(ALT_LEN(self.atom_term(self.eval(node.args[0], fr))))

    def spec_altelem(self, node, fr):
        from .ev_stmt import ALT_ELEM

        self.alt_axioms()
        return VAtom(ALT_ELEM(self.atom_term(self.eval(node.args[0], fr)), self.as_int(self.eval(node.args[1], fr))))

    def spec_cache_get(self, node, fr):
        """cache_get(cache, c): what getRules(c) reads from a compiled table: the stored chain, [] when absent"""
        cv = self.eval(node.args[0], fr)
        c = self.atom_term(self.eval(node.args[1], fr))
        if isinstance(cv, VOpt):
            cv = cv.some
        p = self.get_payload(cv.ref, self.use_old)
        return VSeqZ(z3.If(z3.Select(p.keys, c), z3.Select(p.vals, c), z3.Empty(SEQ)))

    def spec_forall_atoms(self, node, fr):
        """forall_atoms(c, P): P for every chain name c (unbounded)"""
        var, body = node.args
        k = z3.Int("qa_" + var.id)
        saved = self.spec_bind
        self.spec_bind = dict(saved)
        self.spec_bind[var.id] = VAtom(k)
        try:
            p = self.truth(self.eval(body, fr))
        finally:
            self.spec_bind = saved
        return VBool(z3.ForAll([k], p))

    def spec_aslist(self, node, fr):
        """aslist(x): [x] for a single name, x itself for a list (the `str | Iterable[str]` parameters)"""
        v = self.eval(node.args[0], fr)
        if isinstance(v, VAtom):
            return self.new_list(PyListP([v]))
        return v

    def spec_ischar(self, node, fr):
        s = self.eval(node.args[0], fr)
        return VBool(s.length() == 1)
