"""Driver: verify functions against contracts, discharge obligations, aggregate results."""
from __future__ import annotations

import os
import re
import time
import traceback
from concurrent.futures import ProcessPoolExecutor
from dataclasses import dataclass, field

import z3

from . import src as S
from .core import Contract, ContractError, Obligation
from .vals import Unsupported
from . import solve


@dataclass
class FuncResult:
    qualname: str
    status: str = "ok"  # ok | out_of_reach | contract_error | missing | crash
    detail: str = ""
    paths: int = 0
    obligations: list = field(default_factory=list)  # list[Obligation] (aggregated per id)
    seconds: float = 0.0
    sha: str = ""
    covered: list = field(default_factory=list)


def expand_defs(contract: Contract) -> Contract:
    """textual let-bindings: contract.ghost['defs'] = {name: expr} substituted into all clauses"""
    import copy

    c = copy.deepcopy(contract)
    # clauses may carry a third element: the properties the clause serves -> c.ghost["tags"][label]
    tags = dict(c.ghost.get("tags", {})) if c.ghost else {}

    def strip(cl):
        out = []
        for t in cl:
            if len(t) == 3:
                tags[t[0]] = list(t[2])
            out.append((t[0], t[1]))
        return out

    c.requires = strip(c.requires)
    c.ensures = strip(c.ensures)
    c.raises = {k: strip(v) for k, v in c.raises.items()}
    for lc in c.loops.values():
        lc["inv"] = strip(lc.get("inv", []))
    c.at = [(a[0], a[1], a[2]) if len(a) == 3 else (tags.__setitem__(a[1], list(a[3])) or (a[0], a[1], a[2])) for a in c.at]
    c.ghost = dict(c.ghost or {})
    c.ghost["tags"] = tags
    # clauses that are only checked in the thorough tier (slow quantifier alternations)
    slow = set(c.ghost.get("thorough_only", []))
    if slow and os.environ.get("VERIF_TIER", "quick") != "thorough":
        c.ensures = [t for t in c.ensures if t[0] not in slow]
        c.raises = {k: [t for t in v if t[0] not in slow] for k, v in c.raises.items()}
        for lc in c.loops.values():
            lc["inv"] = [t for t in lc.get("inv", []) if t[0] not in slow]
    defs = c.ghost.get("defs")
    if not defs:
        return c

    def sub(e):
        for _ in range(4):
            for k, v in defs.items():
                e = re.sub(rf"\b{re.escape(k)}\b", f"({v})", e)
        return e

    c.requires = [(l, sub(e)) for l, e in c.requires]
    c.ensures = [(l, sub(e)) for l, e in c.ensures]
    c.raises = {k: [(l, sub(e)) for l, e in v] for k, v in c.raises.items()}
    c.loops = {k: {**lc, "inv": [(l, sub(e)) for l, e in lc.get("inv", [])], "dec": sub(lc["dec"]) if lc.get("dec") else None} for k, lc in c.loops.items()}
    c.at = [(p, l, sub(e)) for p, l, e in c.at]
    c.ghost = {k: v for k, v in c.ghost.items() if k != "defs"}
    return c


def generate(qualname: str, registry: dict, specfuns: dict, engine_cls=None, mutate=None):
    """Run the engine on one function; returns (FuncResult, jobs) with jobs = [(key, smt2)]"""
    from .engine import Engine

    engine_cls = engine_cls or Engine
    t0 = time.time()
    res = FuncResult(qualname)
    jobs = []
    try:
        eng = engine_cls(qualname, registry, specfuns)
        if mutate is not None:
            mutate(eng)
        res.sha = eng.mi.sha
        eng.run()
    except S.SourceError as e:
        res.status, res.detail = "missing", str(e)
        return res, jobs
    except Unsupported as e:
        res.status, res.detail = "out_of_reach", str(e)
        return res, jobs
    except ContractError as e:
        msg = str(e)
        if msg.startswith("unknown name") or "needs a declared type in the loop contract" in msg or "has no invariant" in msg:
            # the loop annotations of the contract no longer fit the code (a loop was restructured): the function is outside
            # what this contract can decide - undecided, not a checker failure
            res.status, res.detail = "out_of_reach", "contract annotations do not fit the code: " + msg
            return res, jobs
        res.status, res.detail = "contract_error", msg
        return res, jobs
    except Exception as e:  # checker crash
        res.status, res.detail = "crash", f"{type(e).__name__}: {e}\n{traceback.format_exc()[-1500:]}"
        return res, jobs
    res.paths = eng.paths
    res.covered = sorted(eng.covered_sites)
    res.assumption_log = sorted(eng.assumption_log)
    for oid, insts in eng.obligations.items():
        meta = eng.ob_meta[oid]
        ob = Obligation(oid=oid, kind=meta["kind"], func=meta["func"], site=meta["site"], smt2="", line=meta["line"], info=meta["info"], props=eng.props)
        ob.instances = len(insts)
        seen = set()
        k = 0
        for inst in insts:
            if inst is None:
                continue
            pc, goal = inst
            h = (tuple(c.get_id() for c in pc), goal.get_id())
            if h in seen:
                continue
            seen.add(h)
            jobs.append(((qualname, oid, k), pc, goal))
            k += 1
        ob.queries = k
        res.obligations.append(ob)
    res.seconds = time.time() - t0
    return res, jobs


def _aggregate(res: FuncResult, jobs, verdicts):
    smt = {k: v[4] for k, v in verdicts.items()}
    for ob in res.obligations:
        vs = [(k, verdicts[k]) for k in verdicts if k[1] == ob.oid]
        ob.seconds = sum(v[2] for _, v in vs)
        if ob.kind == "COVER":
            ob.verdict = "failed"  # a COVER obligation is only ever emitted when the cover failed
            continue
        vs = [(k, v) for k, v in vs if v[0] != "skipped"]
        if any(v[0] == "sat" for _, v in vs):
            ob.verdict = "failed"
            k, v = next((k, v) for k, v in vs if v[0] == "sat")
            ob.model, ob.solver, ob.smt2 = v[3], v[1], smt[k]
        elif any(v[0] == "sat-candidate" for _, v in vs):
            # a model of an *approximation* of the query (unbounded quantifiers instantiated at the ground terms):
            # a candidate counterexample; it becomes a failure only if the replay on the real code confirms it
            ob.verdict = "candidate"
            k, v = next((k, v) for k, v in vs if v[0] == "sat-candidate")
            ob.model, ob.solver, ob.smt2 = v[3], v[1], smt[k]
        elif all(v[0] == "unsat" for _, v in vs):
            ob.verdict = "discharged"
            ob.solver = ",".join(sorted({v[1] for _, v in vs})) or "trivial"
        else:
            ob.verdict = "undecided"
            ob.solver = "z3+cvc5"


HOUDINI_BUDGET_S = float(os.environ.get("VERIF_HOUDINI_BUDGET_S", "240"))


def _verify_one(args):
    """generate + discharge one function; when an invariant conjunct is refuted, try to re-establish the proof
    without it (Houdini, DESIGN.md 2.7) so that the property-bearing obligation that depended on it shows."""
    qualname, contracts_mod = args[:2]
    inner_workers = args[2] if len(args) > 2 else 1
    import copy
    import importlib

    mod = importlib.import_module(contracts_mod)
    registry = mod.REGISTRY
    dropped = []
    t_start = time.time()
    for _round in range(4):
        if _round and time.time() - t_start > HOUDINI_BUDGET_S:
            break
        res, jobs = generate(qualname, registry, mod.SPECFUNS, getattr(mod, "ENGINE", None))
        verdicts = solve.discharge_objects(jobs, workers=inner_workers)
        _aggregate(res, jobs, verdicts)
        bad = [ob for ob in res.obligations if ob.kind in ("INV-init", "INV-pres") and ob.verdict in ("failed", "candidate")]
        if _round == 0:
            res0 = res
        if not bad or res.status != "ok":
            break
        first_round_bad = bad if _round == 0 else first_round_bad
        registry = dict(registry)
        c = copy.deepcopy(registry[qualname])
        changed = False
        for ob in bad:
            m = re.match(r"loop#(\d+)/(.+)$", ob.site)
            if not m:
                continue
            k, label = int(m.group(1)), m.group(2)
            lc = c.loops.get(k)
            if lc and any(l == label for l, _ in lc["inv"]):
                lc["inv"] = [(l, e) for l, e in lc["inv"] if l != label]
                dropped.append((ob.oid, ob.model, ob.smt2, ob.solver, ob.seconds))
                changed = True
        if not changed:
            break
        registry[qualname] = c
    if dropped:
        res.dropped = dropped
        # the refuted auxiliary obligations stay in the result (as failed) unless the proof was re-established
        still_failing = any(ob.verdict != "discharged" for ob in res.obligations)
        if still_failing and res.status == "ok" and res0.status == "ok":
            # blame precisely: the verdicts of the contract as written (first round), plus the property-bearing obligations
            # (POST / GUARD) that fail once the refuted conjuncts are gone.  Safety and invariant obligations that fail only
            # because an invariant they relied on was dropped are a cascade, not findings.
            by0 = {ob.oid: ob for ob in res0.obligations}
            for ob in res.obligations:
                if ob.verdict in ("failed", "candidate") and ob.kind.startswith(("POST", "GUARD")) and not ob.oid.endswith("/index-nonneg") and ob.oid in by0 and by0[ob.oid].verdict == "discharged":
                    ob.info = (ob.info + "; " if ob.info else "") + "fails once the refuted invariant conjunct(s) are dropped"
                    by0[ob.oid] = ob
            res0.obligations = list(by0.values())
            res0.dropped = dropped
            res0.seconds = res.seconds
            return res0
        if still_failing:
            have = {ob.oid for ob in res.obligations}
            for oid, model, smt2, solver, secs in dropped:
                if oid in have:
                    continue
                parts = oid.split("/")
                ob = Obligation(oid=oid, kind=parts[-3] if parts[-3].startswith("INV") else "INV-pres", func=qualname, site="/".join(parts[-2:]), smt2=smt2)
                ob.verdict, ob.model, ob.solver, ob.seconds = "failed", model, solver, secs
                ob.info = "invariant conjunct refuted (dropped for the re-proof attempt)"
                res.obligations.append(ob)
        else:
            res.detail = "proof re-established after dropping refuted invariant conjuncts: " + ", ".join(d[0].split("/", 1)[1] for d in dropped)
    return res


def _cache_key(qualname, contracts_mod):
    """first-level key: everything a result depends on *except* the package source - the contract and engine files, the
    evaluated contract clauses (some are built from the source at import time), the solver knobs.  The package modules a
    result depends on are recorded with it (see _cache_lookup)."""
    import glob
    import hashlib
    import importlib

    from . import VERIF

    h = hashlib.sha256()
    for f in sorted(glob.glob(os.path.join(VERIF, "contracts", "*.py")) + glob.glob(os.path.join(VERIF, "vf", "*.py"))):
        with open(f, "rb") as fh:
            h.update(fh.read())
    try:
        mod = importlib.import_module(contracts_mod)
        for q in sorted(mod.REGISTRY):
            c = mod.REGISTRY[q]
            h.update(repr((q, c.requires, c.ensures, sorted((c.loops or {}).items(), key=lambda kv: str(kv[0])), c.at, sorted((c.raises or {}).items()), c.modifies, c.params, c.result,
                           sorted((c.ghost or {}).items(), key=lambda kv: kv[0]), c.inline, c.assume_only)).encode())
    except Exception as e:  # noqa: BLE001
        h.update(repr(e).encode())
    for k in ("VERIF_Z3_TIMEOUT_MS", "VERIF_CVC5_TIMEOUT_S", "VERIF_SCOPE", "VERIF_TIER"):
        h.update((k + os.environ.get(k, "")).encode())
    h.update(qualname.encode() + contracts_mod.encode())
    return h.hexdigest()[:24]


def _cache_dir():
    from . import VERIF

    return os.environ.get("VERIF_CACHE", os.path.join(VERIF, ".cache"))


def _deps_current(deps: dict) -> bool:
    for m, sha in deps.items():
        try:
            if S.load_module(m).sha != sha:
                return False
        except S.SourceError:
            return False
    return True


def _cache_lookup(qualname, contracts_mod):
    """a stored result is reused when every package module that was read while it was computed still has the same text"""
    import pickle

    if os.environ.get("VERIF_NO_CACHE"):
        return None
    path = os.path.join(_cache_dir(), _cache_key(qualname, contracts_mod) + ".pkl")
    if not os.path.exists(path):
        return None
    try:
        with open(path, "rb") as f:
            entries = pickle.load(f)
        for deps, res in entries:
            if deps and _deps_current(deps):
                return res
    except Exception:  # noqa: BLE001
        return None
    return None


def _cache_store(qualname, contracts_mod, deps, res):
    import pickle

    if os.environ.get("VERIF_NO_CACHE") or res.status != "ok" or not deps:
        return
    d = _cache_dir()
    try:
        os.makedirs(d, exist_ok=True)
        path = os.path.join(d, _cache_key(qualname, contracts_mod) + ".pkl")
        entries = []
        if os.path.exists(path):
            try:
                with open(path, "rb") as f:
                    entries = pickle.load(f)
            except Exception:  # noqa: BLE001
                entries = []
        entries = [(dp, r) for dp, r in entries if dp != deps][-5:] + [(deps, res)]
        tmp = path + f".{os.getpid()}.tmp"
        with open(tmp, "wb") as f:
            pickle.dump(entries, f)
        os.replace(tmp, path)
    except Exception:  # noqa: BLE001
        pass


def _verify_one_tracked(args):
    """_verify_one plus the set of package modules it read (name -> text hash)"""
    S.TOUCHED.clear()
    res = _verify_one(args)
    deps = {}
    for m in sorted(S.TOUCHED):
        try:
            deps[m] = S.load_module(m).sha
        except S.SourceError:
            deps[m] = "missing"
    return res, deps


def verify(qualnames, contracts_mod: str, workers=None):
    """Verify the given functions (contracts come from module `contracts_mod` exposing REGISTRY, SPECFUNS)."""
    workers = workers or min(14, os.cpu_count() or 4)
    out = {}
    todo = []
    for q in qualnames:
        r = _cache_lookup(q, contracts_mod)
        if r is not None:
            r.from_cache = True
            out[q] = r
        else:
            todo.append(q)
    if todo:
        if len(todo) == 1 or workers == 1:
            pairs = [_verify_one_tracked((q, contracts_mod, workers)) for q in todo]
        else:
            with ProcessPoolExecutor(max_workers=min(workers, len(todo))) as ex:
                pairs = list(ex.map(_verify_one_tracked, [(q, contracts_mod) for q in todo]))
        for q, (r, deps) in zip(todo, pairs):
            _cache_store(q, contracts_mod, deps, r)
            out[q] = r
    return {q: out[q] for q in qualnames}


def summarize(results) -> dict:
    tot = {"functions": 0, "obligations": 0, "discharged": 0, "failed": 0, "undecided": 0, "out_of_reach": [], "errors": []}
    for q, r in results.items():
        if r.status == "ok":
            tot["functions"] += 1
        elif r.status == "out_of_reach":
            tot["out_of_reach"].append((q, r.detail))
        else:
            tot["errors"].append((q, r.status, r.detail))
        for ob in r.obligations:
            tot["obligations"] += 1
            tot[ob.verdict] = tot.get(ob.verdict, 0) + 1
    return tot
