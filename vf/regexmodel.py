"""Structural model of a compiled regular expression of the package (assumed contract on `re`, stated once):

    pattern.search(s) / pattern.match(s) on a pattern that begins with `^` (no MULTILINE), and pattern.fullmatch(s), return
    None or a match object that starts at 0 and whose text s[0:e] belongs to the language of the pattern.

Only the *necessary* conditions of a match are asserted (None carries no information), so the model over-approximates the
behaviours of `re`: what is proved with it holds for the real matcher. The language is read from the pattern the real,
imported module compiled (`re._parser` tree of `pattern.pattern` with `pattern.flags`); supported shape: sequences of
one-character items (literal, class, negated class, any), counted repeats of one-character items, capture / non-capture
groups and alternations of such sequences. Anything else degrades to the width bounds of `getwidth()` (and the groups
are then not available). Character classes are *enumerated on the real matcher* - every code point is tried against a
one-item pattern compiled with the same flags - so case-insensitive and Unicode-aware classes are exact (e.g. `[a-z]`
with IGNORECASE also matches U+017F and U+212A)."""
from __future__ import annotations

import hashlib
import importlib
import json
import os
import re
import re._constants as C
import re._parser as P

import z3

from .vals import fresh

_CLASS_CACHE: dict = {}
_DISK = os.path.join(os.path.dirname(os.path.dirname(os.path.abspath(__file__))), ".cache", "charclasses")
MAXCP = 0x10FFFF


class NotSimple(Exception):
    pass


def native_pattern(dotted: str):
    """the compiled pattern object bound to a module-level name of the package, or None"""
    mod, _, name = dotted.rpartition(".")
    try:
        obj = getattr(importlib.import_module(mod), name)
    except Exception:  # noqa: BLE001
        return None
    return obj if isinstance(obj, re.Pattern) else None


def _esc(c: int) -> str:
    return f"\\x{c:02x}" if c < 256 else f"\\U{c:08x}"


_CATS = {C.CATEGORY_DIGIT: r"\d", C.CATEGORY_NOT_DIGIT: r"\D", C.CATEGORY_SPACE: r"\s", C.CATEGORY_NOT_SPACE: r"\S",
         C.CATEGORY_WORD: r"\w", C.CATEGORY_NOT_WORD: r"\W"}


def _item_pattern(op, av) -> str:
    """pattern text of a one-character item"""
    if op is C.LITERAL:
        return _esc(av)
    if op is C.NOT_LITERAL:
        return "[^" + _esc(av) + "]"
    if op is C.ANY:
        return "."
    if op is C.IN:
        out = "["
        for o, a in av:
            if o is C.NEGATE:
                out += "^"
            elif o is C.LITERAL:
                out += _esc(a)
            elif o is C.RANGE:
                out += _esc(a[0]) + "-" + _esc(a[1])
            elif o is C.CATEGORY and a in _CATS:
                out += _CATS[a]
            else:
                raise NotSimple(f"class item {o}")
        return out + "]"
    raise NotSimple(f"item {op}")


def class_ranges(op, av, flags) -> list[tuple[int, int]]:
    """code-point ranges the one-character item matches under `flags`, by complete enumeration on the real matcher"""
    pat = _item_pattern(op, av)
    fl = flags & (re.IGNORECASE | re.ASCII | re.DOTALL)
    key = (pat, fl)
    if key in _CLASS_CACHE:
        return _CLASS_CACHE[key]
    import sys

    h = hashlib.sha256(repr((pat, fl, sys.version)).encode()).hexdigest()[:24]
    path = os.path.join(_DISK, h + ".json")
    try:
        with open(path) as f:
            r = [tuple(x) for x in json.load(f)]
        _CLASS_CACHE[key] = r
        return r
    except Exception:  # noqa: BLE001
        pass
    rx = re.compile(pat, fl)
    fm = rx.fullmatch
    ranges, lo = [], None
    for cp in range(MAXCP + 1):
        if fm(chr(cp)) is not None:
            if lo is None:
                lo = cp
        elif lo is not None:
            ranges.append((lo, cp - 1))
            lo = None
    if lo is not None:
        ranges.append((lo, MAXCP))
    _CLASS_CACHE[key] = ranges
    try:
        os.makedirs(_DISK, exist_ok=True)
        tmp = path + f".{os.getpid()}"
        with open(tmp, "w") as f:
            json.dump(ranges, f)
        os.replace(tmp, path)
    except Exception:  # noqa: BLE001
        pass
    return ranges


def member(ranges, c):
    if not ranges:
        return z3.BoolVal(False)
    if ranges == [(0, MAXCP)]:
        return z3.BoolVal(True)
    return z3.Or([c == a if a == b else z3.And(c >= a, c <= b) for a, b in ranges])


_ONE = (C.LITERAL, C.NOT_LITERAL, C.ANY, C.IN)


class Model:
    """constraints of one match of `rx` against the symbolic string s (a VStr) starting at 0"""

    def __init__(self, rx: re.Pattern, s, full: bool):
        self.rx, self.s, self.full = rx, s, full
        self.tree = P.parse(rx.pattern, rx.flags)
        self.flags = rx.flags
        self.groups: dict[int, tuple] = {}
        self.structural = True
        data = list(self.tree.data)
        self.anchored = bool(data) and data[0] == (C.AT, C.AT_BEGINNING) and not (self.flags & re.MULTILINE)
        if self.anchored:
            data = data[1:]
        n = s.length()
        zero = z3.IntVal(0)
        self.end = fresh("rx_end")
        lo, hi = self.tree.getwidth()
        cs = [self.end >= lo, self.end <= n]
        if hi < C.MAXREPEAT:
            cs.append(self.end <= hi)
        try:
            c2, e = self.seq(data, zero, top=True)
            cs += c2 + [self.end == e]
        except NotSimple:
            self.structural = False
            self.groups = {}
        if full:
            cs.append(self.end == n)
        self.constraints = cs
        self.groups[0] = (zero, self.end)

    def cls(self, op, av, c):
        return member(class_ranges(op, av, self.flags), c)

    def seq(self, nodes, p, top=False):
        cs = []
        s, n = self.s, self.s.length()
        for op, av in nodes:
            if op in _ONE:
                cs += [p < n, self.cls(op, av, s.char(p))]
                p = p + 1
            elif op in (C.MAX_REPEAT, C.MIN_REPEAT):
                lo, hi, body = av
                body = list(body.data) if hasattr(body, "data") else list(body)
                if len(body) != 1 or body[0][0] not in _ONE:
                    raise NotSimple("repeat of a non-character item")
                r, k = fresh("rx_rep"), fresh("k")
                cs += [r >= lo, p + r <= n]
                if hi < C.MAXREPEAT:
                    cs.append(r <= hi)
                cs.append(z3.ForAll([k], z3.Implies(z3.And(p <= k, k < p + r), self.cls(body[0][0], body[0][1], s.char(k)))))
                p = p + r
            elif op is C.SUBPATTERN:
                gid, add_f, del_f, body = av
                if add_f or del_f:
                    raise NotSimple("inline flags")
                body = list(body.data) if hasattr(body, "data") else list(body)
                c2, e = self.seq(body, p, top=top)
                cs += c2
                if gid is not None and top:
                    self.groups[gid] = (p, e)
                p = e
            elif op is C.BRANCH:
                _, alts = av
                e = fresh("rx_alt")
                opts = []
                for alt in alts:
                    alt = list(alt.data) if hasattr(alt, "data") else list(alt)
                    c2, e2 = self.seq(alt, p, top=False)
                    opts.append(z3.And(c2 + [e == e2]))
                cs += [z3.Or(opts), e >= p, e <= n]
                p = e
            elif op is C.AT and av is C.AT_END:
                if self.flags & re.MULTILINE:
                    raise NotSimple("$ with MULTILINE")
                cs.append(z3.Or(p == n, z3.And(p == n - 1, s.char(p) == 10)))
            else:
                raise NotSimple(f"node {op}")
        return cs, p
