"""Run-time contract monitor: the *same* contract clauses that pyvc proves are evaluated natively on the real
functions (DESIGN.md 2.6).  Used by the replay tool, by the bounded stand-ins and by the 'contracts are not
stricter than the code' validation."""
from __future__ import annotations

import ast
import copy
import functools
import textwrap


class ContractViolation(Exception):
    def __init__(self, qualname, kind, label, detail=""):
        super().__init__(f"{qualname}: {kind} {label} {detail}")
        self.qualname, self.kind, self.label, self.detail = qualname, kind, label, detail


class _Rewrite(ast.NodeTransformer):
    def __init__(self, params):
        self.params = params

    def visit_Call(self, node):
        self.generic_visit(node)
        if isinstance(node.func, ast.Name):
            n = node.func.id
            if n in ("forall", "exists") and len(node.args) == 4:
                var, lo, hi, body = node.args
                gen = ast.GeneratorExp(
                    elt=body,
                    generators=[ast.comprehension(target=ast.Name(var.id, ast.Store()), iter=ast.Call(ast.Name("range", ast.Load()), [lo, hi], []), ifs=[], is_async=0)],
                )
                return ast.Call(ast.Name("all" if n == "forall" else "any", ast.Load()), [gen], [])
            if n == "forall_atoms" and len(node.args) == 2:
                var, body = node.args
                gen = ast.GeneratorExp(elt=body, generators=[ast.comprehension(target=ast.Name(var.id, ast.Store()), iter=ast.Name("__atoms", ast.Load()), ifs=[], is_async=0)])
                return ast.Call(ast.Name("all", ast.Load()), [gen], [])
            if n == "implies" and len(node.args) == 2:
                return ast.BoolOp(ast.Or(), [ast.UnaryOp(ast.Not(), node.args[0]), node.args[1]])
            if n == "iff" and len(node.args) == 2:
                return ast.Compare(ast.Call(ast.Name("bool", ast.Load()), [node.args[0]], []), [ast.Eq()], [ast.Call(ast.Name("bool", ast.Load()), [node.args[1]], [])])
            if n == "ite" and len(node.args) == 3:
                return ast.IfExp(node.args[0], node.args[1], node.args[2])
            if n == "old" and len(node.args) == 1:
                # evaluate the argument with the parameter names bound to their entry snapshots
                args = ast.arguments(posonlyargs=[], args=[ast.arg(p) for p in self.params], kwonlyargs=[], kw_defaults=[],
                                     defaults=[ast.Name("__old_" + p, ast.Load()) for p in self.params])
                lam = ast.Lambda(args=args, body=_InOld().visit(node.args[0]))
                return ast.Call(lam, [], [])
        return node


class _InOld(ast.NodeTransformer):
    """inside old(): ntokens/new_tokens refer to the snapshot"""

    def visit_Call(self, node):
        self.generic_visit(node)
        return node


@functools.lru_cache(maxsize=None)
def _compile(expr: str, params: tuple):
    tree = ast.parse(textwrap.dedent(expr).strip(), mode="eval")
    tree = _Rewrite(list(params)).visit(tree)
    ast.fix_missing_locations(tree)
    return compile(tree, f"<clause {expr[:40]}>", "eval")


def snapshot(v):
    """entry snapshot of an argument: scalars as is; lists copied; state objects copied one level deep"""
    if isinstance(v, (int, str, bool, type(None), float, tuple)):
        return v
    if isinstance(v, list):
        # records (Token, Delimiter, Rule ...) are mutated in place by the code under contract: copy them one level
        return [copy.copy(x) if hasattr(x, "__dataclass_fields__") else x for x in v]
    if isinstance(v, dict):
        return copy.deepcopy(v)
    try:
        c = copy.copy(v)
    except Exception:
        return v
    d = getattr(c, "__dict__", None)
    if d is not None:
        for k, x in list(d.items()):
            if isinstance(x, list):
                d[k] = [copy.copy(y) if hasattr(y, "__dataclass_fields__") else y for y in x]
            elif isinstance(x, dict) and k not in ("env",):
                d[k] = dict(x)
            elif k == "__rules__":
                d[k] = [copy.copy(r) for r in x]
    if hasattr(v, "__rules__"):
        try:
            c.__rules__ = [copy.copy(r) for r in v.__rules__]
            c.__cache__ = None if v.__cache__ is None else {k: list(x) for k, x in v.__cache__.items()}
        except Exception:
            pass
    return c


class Monitor:
    """native evaluation of one Contract"""

    def __init__(self, contract, specfuns, extra_env=None):
        self.c = contract
        self.specnative = {n: sf.native for n, sf in specfuns.items()}
        self.extra = extra_env or {}
        self.evaluations = 0

    def env(self, args: dict, olds: dict, result=None, have_result=False):
        e = dict(self.specnative)
        e.update(self.extra)
        e.update(args)
        for p, v in olds.items():
            e["__old_" + p] = v
        st = args.get("state", args.get("self"))
        old_st = olds.get("state", olds.get("self"))
        n0 = len(getattr(old_st, "tokens", []) or []) if old_st is not None else 0
        e["new_tokens"] = lambda s: s.tokens[n0:] if s is st else s.tokens[len(s.tokens):]
        e["ntokens"] = lambda s: len(s.tokens)
        e["strfun"] = lambda name, *a: st.getLines(*a) if name == "GetLines" else NotImplemented
        e["aslist"] = lambda x: [x] if isinstance(x, str) else list(x)
        e["cache_get"] = lambda cache, c: (cache.get(c, []) or []) if cache is not None else []
        atoms = {"", "zz"}
        for v in args.values():
            for rule in getattr(v, "__rules__", []) or []:
                atoms.update(rule.alt)
        e["__atoms"] = sorted(atoms)
        e["max"], e["min"], e["len"], e["range"], e["all"], e["any"], e["bool"] = max, min, len, range, all, any, bool
        if have_result:
            e["result"] = result
        return e

    def check(self, clauses, kind, args, olds, result=None, have_result=False):
        params = tuple(args)
        env = self.env(args, olds, result, have_result)
        failed = []
        for label, expr in clauses:
            code = _compile(expr, params)
            self.evaluations += 1
            try:
                env["__builtins__"] = {}
                ok = eval(code, env)
            except (IndexError, KeyError, TypeError, AttributeError, ValueError, NameError) as e:
                # a clause that cannot be evaluated natively (e.g. reads outside the specified domain):
                # underspecified in the logic, so not a failure
                continue
            if not ok:
                failed.append((kind, label))
        return failed

    def call(self, func, args: dict):
        """run func(**args) under the contract. Returns (outcome, value_or_exc, failed_clauses, pre_ok)"""
        olds = {p: snapshot(v) for p, v in args.items()}
        pre_failed = self.check(self.c.requires, "PRE", args, olds)
        if pre_failed:
            return "precondition-false", None, pre_failed, False
        try:
            res = func(**args)
        except Exception as e:  # noqa: BLE001
            name = type(e).__name__
            if name in self.c.raises:
                # parameters denote entry values in postconditions
                failed = self.check(self.c.raises[name], f"POST-raise[{name}]", {**args, **{k: v for k, v in olds.items() if isinstance(v, (int, str, bool, tuple, type(None)))}}, olds)
                return "raised", e, failed, True
            return "raised", e, [("SAFE", name)], True
        failed = self.check(self.c.ensures, "POST", args, olds, res, True)
        return "returned", res, failed, True
