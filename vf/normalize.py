"""C17 deductive part for line endings / NUL: side conditions of the substitution lemma on the real normalize rule.

Lemma (assumed, about re.sub): if the one-character string c matches pattern P and the replacement r does not contain c,
then P.sub(r, s) contains no c  (scanning is leftmost: an unconsumed c would itself be a match).
Obligations (decided with z3's regex solver on the regex literals read from the source, via Python's regex parser):
  LANG/normalize/matches-CR, matches-LF-CRLF, matches-NUL, replacement-clean, applied-in-order, result-stored
ORDER: normalize is the first core rule (reads.add_order_obligations)."""
from __future__ import annotations

import ast

import z3

from . import src as S
from .report import Ob
from .typestate import py_regex_to_z3


def obligations():
    obs = []
    q = "markdown_it.rules_core.normalize.normalize"
    try:
        mi, fn, canon = S.resolve_function(q)
    except S.SourceError as e:
        return [{"oid": f"{q}/LANG/exists", "verdict": "undecided", "func": q, "info": str(e)}]
    regs = {}
    for name, node in mi.globals.items():
        if isinstance(node, ast.Call) and isinstance(node.func, ast.Attribute) and node.func.attr == "compile" and node.args and isinstance(node.args[0], ast.Constant):
            try:
                regs[name] = (py_regex_to_z3(node.args[0].value), node.args[0].value)
            except ValueError as e:
                regs[name] = (e, node.args[0].value)
    subs = []  # (regex name, replacement, source var, target var)
    stored = False
    # conditional shapes: every path through if/elif/else must apply a chain that removes CR and NUL
    if any(isinstance(st, ast.If) for st in fn.body):
        def paths(stmts):
            out = [[]]
            for st in stmts:
                if isinstance(st, ast.If):
                    a, b = paths(st.body), paths(st.orelse)
                    out = [p + q for p in out for q in (a + b)]
                else:
                    out = [p + [st] for p in out]
            return out

        for k, path in enumerate(paths(fn.body)):
            names = []
            for st in path:
                for n in ast.walk(st):
                    if isinstance(n, ast.Call) and isinstance(n.func, ast.Attribute) and n.func.attr == "sub" and isinstance(n.func.value, ast.Name):
                        names.append(n.func.value.id)
            ok = {"CR": False, "NUL": False}
            for nm in names:
                r = regs.get(nm)
                if r is None or isinstance(r[0], Exception):
                    continue
                for label, ch in (("CR", "\r"), ("NUL", "\0")):
                    sv = z3.Solver()
                    sv.add(z3.InRe(z3.StringVal(ch), r[0][0]))
                    if sv.check() == z3.sat:
                        ok[label] = True
            for label in ok:
                obs.append({"oid": f"{canon}/LANG/path#{k}-removes-{label}", "verdict": "discharged" if ok[label] else "failed", "func": canon,
                            "info": f"path {k} through the conditionals applies substitutions {names}" + ("" if ok[label] else f": none of them matches {label}, so a {label} survives on this path (the conditions are not mutually exclusive facts about the input)")})
        return obs
    for st in fn.body:
        if isinstance(st, ast.Assign) and isinstance(st.value, ast.Call) and isinstance(st.value.func, ast.Attribute) and st.value.func.attr == "sub" and isinstance(st.value.func.value, ast.Name):
            c = st.value
            if len(c.args) == 2 and isinstance(c.args[0], ast.Constant) and isinstance(c.args[0].value, str):
                subs.append((c.func.value.id, c.args[0].value, ast.unparse(c.args[1]), ast.unparse(st.targets[0])))
        if isinstance(st, ast.Assign) and ast.unparse(st.targets[0]) == "state.src":
            stored = ast.unparse(st.value)
        if isinstance(st, (ast.If, ast.For, ast.While, ast.Try)):
            obs.append({"oid": f"{canon}/LANG/straight-line", "verdict": "undecided", "func": canon, "info": f"normalize contains a {type(st).__name__} statement at line {st.lineno}: outside the straight-line shape this back end decides"})
            return obs
    # dataflow: state.src -> sub1 -> sub2 -> state.src
    chain_ok = bool(subs) and subs[0][2] == "state.src" and all(subs[i][2] == subs[i - 1][3] for i in range(1, len(subs))) and stored == subs[-1][3]
    obs.append({"oid": f"{canon}/LANG/applied-in-order", "verdict": "discharged" if chain_ok else "failed", "func": canon,
                "info": f"state.src -> {' -> '.join(s[0] for s in subs)} -> state.src" if chain_ok else f"the substitutions do not form a chain from state.src back to state.src: {subs}, stored={stored}"})

    def matches(ch):
        for name, repl, _, _ in subs:
            r = regs.get(name)
            if r is None or isinstance(r[0], Exception):
                continue
            body, a, b = r[0]
            s = z3.Solver()
            s.add(z3.InRe(z3.StringVal(ch), body))
            if s.check() == z3.sat:
                return name, repl
        return None

    for label, ch in (("CR", "\r"), ("NUL", "\0")):
        m = matches(ch)
        ok = m is not None and ch not in m[1]
        # and no *later* substitution may reintroduce it
        later_clean = all(ch not in repl for _, repl, _, _ in subs)
        obs.append({"oid": f"{canon}/LANG/removes-{label}", "verdict": "discharged" if (ok and later_clean) else "failed", "func": canon,
                    "info": (f"the one-character string {ch!r} matches {m[0]} and no replacement contains it" if ok and later_clean else f"{ch!r} is not matched by any substitution pattern, or a replacement reintroduces it")})
    # CRLF is one line ending, not two: "\r\n" as a whole matches the newline pattern and is replaced by a single "\n"
    ok = False
    for name, repl, _, _ in subs:
        r = regs.get(name)
        if r is None or isinstance(r[0], Exception):
            continue
        s = z3.Solver()
        s.add(z3.InRe(z3.StringVal("\r\n"), r[0][0]))
        if s.check() == z3.sat and repl == "\n":
            ok = True
    obs.append({"oid": f"{canon}/LANG/CRLF-is-one-line-ending", "verdict": "discharged" if ok else "failed", "func": canon, "info": "'\\r\\n' matches the newline pattern as a whole and becomes one '\\n'"})
    nulrepl = next((repl for name, repl, _, _ in subs if regs.get(name) and not isinstance(regs[name][0], Exception) and matches("\0") and matches("\0")[0] == name), None)
    obs.append({"oid": f"{canon}/LANG/NUL-becomes-FFFD", "verdict": "discharged" if nulrepl == "�" else "failed", "func": canon, "info": f"NUL is replaced by {nulrepl!r}"})
    return obs


def add_obligations(rep, prop):
    for o in obligations():
        rep.obs.append(Ob(oid=f"{prop}/{o['oid']}", kind="LANG", func=o["func"], backend="lang", verdict=o["verdict"], info=o["info"], solver="z3-regex + literal dataflow"))
    rep.functions = sorted(set(rep.functions) | {"markdown_it.rules_core.normalize.normalize"})
