"""Calls: builtins, methods of builtin values, package functions (inlined or replaced by their contract)."""
from __future__ import annotations

import ast

import z3

from . import src as S
from .core import *  # noqa: F401,F403
from .vals import *  # noqa: F401,F403
from .vals import SEQ, ROWS, INTARR, StrSeqP, MapSeqP, SetP, VMapSlot, intern_atom

CHR_ATOM = z3.Function("ChrAtom", z3.IntSort(), z3.IntSort())


def _space_ranges():
    out, start, prev = [], None, None
    for c in range(0x110000):
        if chr(c).isspace():
            if start is None:
                start = c
            elif c != prev + 1:
                out.append((start, prev))
                start = c
            prev = c
    out.append((start, prev))
    return out


PY_SPACE = _space_ranges()  # the characters str.strip() / str.isspace() treat as whitespace, from this interpreter's tables


def py_isspace(c):
    return z3.Or([c == a if a == b else z3.And(c >= a, c <= b) for a, b in PY_SPACE])
from .ev_expr import UNBOUND, BoolishV, StrListP, MAXCP
from .ev_stmt import assigned_names, attr_path
from .schema import SCHEMA, CLASS_MODULE, class_of_annotation

TOKEN_DEFAULTS = {"map": NONE, "level": VInt(0), "children": NONE, "content": VStr.lit(""), "markup": VStr.lit(""),
                  "info": VStr.lit(""), "block": VBool(False), "hidden": VBool(False)}


class CallMixin:
    # ------------------------------------------------------------------ frames
    def make_frame(self, qualname, mi, fn, contract):
        from .engine import Frame

        fr = Frame(qualname, mi, fn, Ordinals(fn), contract)
        fr.assigned_names = assigned_names(fn.body) | {a.arg for a in fn.args.args + fn.args.kwonlyargs}
        return fr

    def param_type(self, contract, fn, arg: ast.arg, is_method_self_cls=None):
        name = arg.arg
        if contract and name in contract.params:
            return contract.params[name]
        if name == "self" and is_method_self_cls:
            return "obj:" + is_method_self_cls
        cls = class_of_annotation(arg.annotation)
        if cls in ("int",):
            return "int"
        if cls == "bool":
            return "bool"
        if cls == "str":
            return "str"
        if cls in SCHEMA:
            return "obj:" + cls
        return None

    def bind_params_symbolic(self, fr):
        fn, c = fr.fn, fr.contract
        fr.assigned_names = assigned_names(fn.body) | {a.arg for a in fn.args.args + fn.args.kwonlyargs}
        selfcls = None
        parts = fr.qualname.split(".")
        if len(parts) >= 2 and parts[-2] in SCHEMA:
            selfcls = parts[-2]
        for a in fn.args.args + fn.args.kwonlyargs:
            ty = self.param_type(c, fn, a, selfcls)
            if ty is None:
                raise ContractError(f"{fr.qualname}: parameter {a.arg} needs a type in the contract")
            if "|" in ty:  # union-typed parameter: one path per alternative
                alts = [t.strip() for t in ty.split("|")]
                ty = alts[self.dec.choose(len(alts))]
            if ty == "none":
                fr.locals[a.arg] = NONE
            elif ty == "emptydict":
                fr.locals[a.arg] = self.eval(ast.Dict(keys=[], values=[]), fr)
            else:
                fr.locals[a.arg] = self.sym_for_type(ty, a.arg)

    # ------------------------------------------------------------------ static resolution (for havoc sets)
    def static_callee(self, call: ast.Call, fr):
        f = call.func
        if isinstance(f, ast.Name):
            tgt = S.resolve_name(fr.mi, f.id)
            if tgt and tgt.startswith("markdown_it"):
                try:
                    return S.resolve_function(tgt)[2]
                except S.SourceError:
                    return None
            return None
        if isinstance(f, ast.Attribute):
            p = attr_path(f.value)
            if p is None:
                return None
            root = p.split(".")[0]
            v = fr.locals.get(root)
            try:
                for fld in p.split(".")[1:]:
                    if not isinstance(v, VObj):
                        return None
                    v = self.get_field(v, fld)
            except Unsupported:
                return None
            if isinstance(v, VObj) and v.cls in CLASS_MODULE:
                return self.method_qualname(v.cls, f.attr)
        return None

    def method_qualname(self, cls: str, meth: str):
        seen = set()
        while cls and cls not in seen:
            seen.add(cls)
            mi = S.load_module(CLASS_MODULE[cls])
            if f"{cls}.{meth}" in mi.functions:
                return f"{mi.name}.{cls}.{meth}"
            node = mi.classes.get(cls)
            nxt = None
            for b in (node.bases if node else []):
                bn = b.id if isinstance(b, ast.Name) else None
                if bn in CLASS_MODULE:
                    nxt = bn
            cls = nxt
        return None

    def callee_modifies_paths(self, callee: str, call: ast.Call, fr) -> set[str]:
        c = self.registry.get(callee)
        if c is None:
            return set()
        try:
            mi, fn, _ = S.resolve_function(callee)
        except S.SourceError:
            return set()
        params = [a.arg for a in fn.args.args]
        actual: dict[str, str | None] = {}
        args = list(call.args)
        if params and params[0] == "self" and isinstance(call.func, ast.Attribute):
            actual["self"] = attr_path(call.func.value)
            params = params[1:]
        for p, a in zip(params, args):
            actual[p] = attr_path(a)
        out = set()
        mods = list(c.modifies)
        if c.inline:
            # modifies of an inlined callee: what its body writes
            sub = self.make_frame(callee, mi, fn, c)
            for n in ast.walk(fn):
                if isinstance(n, (ast.Assign, ast.AugAssign)):
                    for t in (n.targets if isinstance(n, ast.Assign) else [n.target]):
                        if isinstance(t, (ast.Attribute, ast.Subscript)):
                            p = attr_path(t)
                            if p:
                                mods.append(p)
                if isinstance(n, ast.Call) and isinstance(n.func, ast.Attribute) and n.func.attr in ("append", "pop", "insert", "extend", "clear"):
                    p = attr_path(n.func.value)
                    if p:
                        mods.append(p)
        for m in mods:
            root, _, rest = m.partition(".")
            if root in actual and actual[root]:
                out.add(actual[root] + ("." + rest if rest else ""))
        return out

    # ------------------------------------------------------------------ the call expression
    def e_Call(self, node: ast.Call, fr):
        f = node.func
        # logging is dropped (DESIGN 2.4)
        if isinstance(f, ast.Attribute) and isinstance(f.value, ast.Name) and f.value.id == "LOGGER":
            return NONE
        if self.spec_mode:
            r = self.spec_call(node, fr)
            if r is not NotImplemented:
                return r
        fv = self.eval(f, fr)
        if node.keywords and any(k.arg is None for k in node.keywords):
            raise Unsupported("**kwargs")
        args = [self.eval(a, fr) for a in node.args]
        kwargs = {k.arg: self.eval(k.value, fr) for k in node.keywords}
        return self.call_value(fv, args, kwargs, node, fr)

    def call_value(self, fv, args, kwargs, node, fr):
        if not isinstance(fv, VFunc):
            return self.call_special(fv, args, kwargs, node, fr)
        if fv.kind == "builtin":
            return self.call_builtin(fv.name, args, kwargs, node, fr)
        if fv.kind == "method":
            recv = fv.recv
            if isinstance(recv, VObj) and recv.cls == "OptionsDict" and fv.name == "get" and args \
                    and isinstance(args[0], VStr) and args[0].kind == "lit" and args[0].a in SCHEMA["OptionsDict"]:
                # OptionsDict keeps one backing dict behind item and attribute access (C10(c) proves the routes);
                # every preset defines every documented key, so .get never falls back to the default
                self.assumption_log.add("OptionsDict.get(k) == OptionsDict.<k> for the documented option keys")
                return self.get_field(recv, args[0].a, self.use_old)
            if isinstance(recv, VObj) and recv.cls in CLASS_MODULE:
                q = self.method_qualname(recv.cls, fv.name)
                if q is None:
                    raise Unsupported(f"method {recv.cls}.{fv.name}")
                return self.call_pkg(q, [recv] + args, kwargs, node, fr)
            return self.call_method(recv, fv.name, args, kwargs, node, fr)
        if fv.kind == "pkg":
            _, _, canon = S.resolve_function(fv.name)
            return self.call_pkg(canon, args, kwargs, node, fr)
        if fv.kind == "class":
            return self.construct(fv.name, args, kwargs, node, fr)
        if fv.kind == "spec":
            return self.apply_specfun(fv.name, args)
        return self.call_special(fv, args, kwargs, node, fr)

    def call_special(self, fv, args, kwargs, node, fr):
        # dispatch through a rule list: a call to *some* function satisfying the generic rule contract
        if isinstance(fv, VAtom) and args and isinstance(args[0], VObj):
            key = {("StateBlock", 4): "<block_rule>", ("StateInline", 2): "<inline_rule>",
                   ("StateInline", 1): "<inline_rule2>", ("StateCore", 1): "<core_rule>"}.get((args[0].cls, len(args)))
            c = self.registry.get(key) if key else None
            if c is not None:
                from .engine import Frame

                sub = Frame(key, fr.mi, fr.fn, fr.ords, c)
                sub.assigned_names = set()
                names = list(c.params)
                for n, a in zip(names, args):
                    sub.locals[n] = a
                sub.locals["__fn__"] = fv
                sub.entry = dict(sub.locals)
                self.check_at(node, fr, "call:rule", fv)
                return self.apply_contract(c, sub, node, fr)
        if isinstance(fv, VObj) and fv.ref.startswith("global:") and fv.ref.split(".")[-1] in ("Scanned",):
            # module-level namedtuple class
            return self.construct(fv.ref[len("global:"):], args, kwargs, node, fr)
        raise Unsupported(f"call of {fv!r} at line {node.lineno}")

    # ------------------------------------------------------------------ builtins
    def call_builtin(self, name, args, kwargs, node, fr):
        if name == "len":
            (a,) = args
            if isinstance(a, VStr):
                return VInt(a.length())
            if isinstance(a, VList):
                return VInt(self.list_len(self.get_payload(a.ref, self.use_old)))
            if isinstance(a, VTuple):
                return VInt(len(a.items))
            if isinstance(a, VSeqZ):
                return VInt(z3.Length(a.t))
            return self.len_special(a, node, fr)
        if name == "ord":
            (a,) = args
            if isinstance(a, VStr):
                if a.kind == "chr":
                    return VInt(a.a)
                self.safe_or_raise(a.length() == 1, "TypeError", node, fr)
                return VInt(a.char(z3.IntVal(0)))
            raise Unsupported("ord")
        if name == "chr":
            (a,) = args
            c = self.as_int(a)
            self.safe_or_raise(z3.And(c >= 0, c <= MAXCP), "ValueError", node, fr, "call")
            return VStr.chr(c)
        if name == "bool":
            return VBool(self.truth(args[0]))
        if name == "str":
            (a,) = args
            if isinstance(a, VStr):
                return a
            if isinstance(a, VInt):
                return self.apply_strfun("str_of_int", [a])
            raise Unsupported("str()")
        if name == "int":
            a = args[0]
            if isinstance(a, (VInt, VBool)):
                return VInt(self.as_int(a))
            if isinstance(a, VStr):
                base = 10
                if len(args) > 1:
                    b = z3.simplify(self.as_int(args[1]))
                    base = b.as_long() if z3.is_int_value(b) else None
                ok = self.is_digit_string(a, base)
                self.safe_or_raise(ok, "ValueError", node, fr, "call")
                r = VInt(fresh("int_of_str"))
                self.assume_axiom(r.t >= 0)
                return r
            raise Unsupported("int()")
        if name == "isinstance":
            v, t = args
            tn = t.name if isinstance(t, VFunc) else None
            if isinstance(t, VFunc) and t.kind == "builtin" and tn == "str":
                if isinstance(v, (VStr, VAtom)):
                    return VBool(True)
                if isinstance(v, VOpt):
                    return VBool(z3.Not(v.isnone)) if isinstance(v.some, (VStr, VAtom)) else VBool(False)
                if isinstance(v, VStrOrList):
                    return VBool(v.is_str)
                return VBool(False)
            raise Unsupported(f"isinstance(_, {t!r})")
        if name == "range":
            if len(args) == 1:
                return VRange(z3.IntVal(0), self.as_int(args[0]))
            if len(args) == 2:
                return VRange(self.as_int(args[0]), self.as_int(args[1]))
            raise Unsupported("range step")
        if name == "enumerate":
            return VEnum(args[0])
        if name in ("min", "max"):
            if len(args) == 2:
                x, y = self.as_int(args[0]), self.as_int(args[1])
                return VInt(z3.If(x <= y, x, y) if name == "min" else z3.If(x >= y, x, y))
        if name == "list":
            if not args:
                return self.new_list(PyListP([]))
        raise Unsupported(f"builtin {name}")

    def regex_opted_in(self, ref, fr):
        c = getattr(fr, "contract", None)
        names = ((c.ghost or {}).get("regex_model") or []) if c is not None else []
        return ref.rsplit(".", 1)[-1] in names

    def len_special(self, a, node, fr):
        if isinstance(a, VObj) and a.cls == "<opaque>":
            ln = z3.Int(f"len({a.ref})")
            self.assume_axiom(ln >= 0)
            return VInt(ln)
        raise Unsupported(f"len of {a!r}")

    def is_digit_string(self, s: VStr, base):
        if base not in (10, 16):
            raise Unsupported("int base")
        k = fresh("k")
        c = s.char(k)
        if base == 10:
            dig = z3.And(c >= 48, c <= 57)
        else:
            dig = z3.Or(z3.And(c >= 48, c <= 57), z3.And(c >= 65, c <= 70), z3.And(c >= 97, c <= 102))
        # CPython also accepts surrounding whitespace, '_' separators, signs and non-ASCII digits; the package only
        # ever passes slices already scanned as ASCII digits, so the obligation is the sufficient condition.
        return z3.And(s.length() >= 1, z3.ForAll([k], z3.Implies(z3.And(0 <= k, k < s.length()), dig)))

    def apply_strfun(self, name, args):
        """uninterpreted string function (result is an opaque string determined by its arguments)"""
        key = name + "(" + ",".join(str(z3.simplify(a.t)) if hasattr(a, "t") else repr(a) for a in args) + ")"
        if key not in self.ghost:
            s = VStr.var(self.new_ref(name))
            self.assume_axiom(s.b >= 0)
            if name == "str_of_int":
                self.assume_axiom(s.b >= 1)
            self.ghost[key] = s
        return self.ghost[key]

    # ------------------------------------------------------------------ methods of builtin values
    def call_method(self, recv, name, args, kwargs, node, fr):
        if isinstance(recv, VList):
            return self.list_method(recv, name, args, node, fr)
        if isinstance(recv, VStr):
            return self.str_method(recv, name, args, node, fr)
        if isinstance(recv, VMapSlot) and name == "append":
            p = self.payload.get(recv.ref) or self.mut_payload(recv.ref)
            p.vals = z3.Store(p.vals, recv.key, z3.Concat(z3.Select(p.vals, recv.key), z3.Unit(self.atom_term(args[0]))))
            self.on_payload_write(recv.ref, node, fr)
            return NONE
        if isinstance(recv, VDict) and isinstance(self.get_payload(recv.ref), SetP) and name == "add":
            p = self.payload.get(recv.ref) or self.mut_payload(recv.ref)
            p.mem = z3.Store(p.mem, self.atom_term(args[0]), z3.BoolVal(True))
            return NONE
        if isinstance(recv, VAtom) and name in ("isascii", "isalnum", "isalpha", "isdigit", "isspace", "isupper", "islower") and not args:
            # a predicate of an opaque string value: a function of that value, otherwise unconstrained
            return VBool(z3.Function("atom_" + name, z3.IntSort(), z3.BoolSort())(recv.t))
        if isinstance(recv, VOpt) and isinstance(recv.some, VDict):
            self.safe_or_raise(z3.Not(recv.isnone), "AttributeError", node, fr, "call")
            recv = recv.some
        if isinstance(recv, VDict) and isinstance(self.get_payload(recv.ref), MapSeqP) and name == "get":
            p = self.get_payload(recv.ref)
            k = self.atom_term(args[0])
            dflt = args[1] if len(args) > 1 else NONE
            if isinstance(dflt, VList) and isinstance(self.get_payload(dflt.ref), PyListP) and not self.get_payload(dflt.ref).items:
                return VSeqZ(z3.If(z3.Select(p.keys, k), z3.Select(p.vals, k), z3.Empty(SEQ)))
            raise Unsupported("dict.get with a non-empty default")
        if isinstance(recv, VDict) and isinstance(self.get_payload(recv.ref), IntMapP) and name == "clear" and not args:
            p = self.payload.get(recv.ref) or self.mut_payload(recv.ref)
            p.keys = z3.K(z3.IntSort(), z3.BoolVal(False))
            self.on_payload_write(recv.ref, node, fr)
            return NONE
        if isinstance(recv, VDict) and isinstance(self.get_payload(recv.ref), IntMapP) and name == "get" and len(args) == 2:
            p = self.get_payload(recv.ref)
            k = self.as_int(args[0])
            return VInt(z3.If(z3.Select(p.keys, k), z3.Select(p.vals, k), self.as_int(args[1])))
        if isinstance(recv, VDict):
            p = self.get_payload(recv.ref)
            if name == "get" and isinstance(args[0], VStr) and args[0].kind == "lit":
                return p.items.get(args[0].a, args[1] if len(args) > 1 else NONE)
            if name == "items":
                return VTuple([VTuple([VStr.lit(k), v]) for k, v in p.items.items()])
        return self.method_special(recv, name, args, kwargs, node, fr)

    def method_special(self, recv, name, args, kwargs, node, fr):
        if isinstance(recv, VObj) and recv.cls == "<opaque>" and recv.ref.endswith(".helpers"):
            # MarkdownIt.helpers is the markdown_it.helpers module (main.py: `self.helpers = helpers`): a call through it is a
            # call of the re-exported function
            try:
                mi, fn, canon = S.resolve_function("markdown_it.helpers." + name)
            except S.SourceError:
                canon = None
            if canon and canon in self.registry:
                self.assumption_log.add("md.helpers is the markdown_it.helpers module (attribute never rebound)")
                return self.call_pkg(canon, args, kwargs, node, fr)
        if isinstance(recv, VObj) and recv.cls == "<charclass>" and name == "search" and 1 <= len(args) <= 2 and isinstance(args[0], VStr):
            # pattern.search(s, pos): None, or a match whose start() is the least index >= pos with s[i] in the class
            codes = self.ghost[("charclass", recv.ref)]
            s_ = args[0]
            n = s_.length()
            st = self.as_int(args[1]) if len(args) == 2 else z3.IntVal(0)
            st = z3.If(st < 0, z3.IntVal(0), z3.If(st > n, n, st))
            member = lambda c: z3.Or([c == x for x in sorted(codes)])  # noqa: E731
            found, r, k = fresh("found", "bool"), fresh("mstart"), fresh("k")
            self.assume_axiom(z3.Implies(found, z3.And(st <= r, r < n, member(s_.char(r)), z3.ForAll([k], z3.Implies(z3.And(st <= k, k < r), z3.Not(member(s_.char(k))))))))
            self.assume_axiom(z3.Implies(z3.Not(found), z3.ForAll([k], z3.Implies(z3.And(st <= k, k < n), z3.Not(member(s_.char(k)))))))
            m = VObj(self.new_ref("match"), "<match>")
            self.ghost[("match", m.ref)] = r
            return VOpt(z3.Not(found), m)
        if isinstance(recv, VObj) and recv.cls == "<opaque>" and recv.ref.startswith("global:") and name in ("search", "match", "fullmatch") \
                and len(args) == 1 and isinstance(args[0], VStr) and self.regex_opted_in(recv.ref, fr):
            # structural model of a compiled pattern of the package (vf/regexmodel.py): None, or a match at 0 whose text is
            # in the pattern's language; only necessary conditions of a match are assumed
            from . import regexmodel as RX

            rx = RX.native_pattern(recv.ref[len("global:"):])
            if rx is not None:
                mdl = RX.Model(rx, args[0], full=(name == "fullmatch"))
                if mdl.anchored or name != "search":
                    isnone = fresh("rx_none", "bool")
                    self.assume_axiom(z3.Implies(z3.Not(isnone), z3.And(mdl.constraints)))
                    m = VObj(self.new_ref("match"), "<match>")
                    self.ghost[("match", m.ref)] = z3.IntVal(0)
                    self.ghost[("rmatch", m.ref)] = mdl
                    self.assumption_log.add(f"re: {recv.ref[len('global:'):]}.{name}(s) returns None or a match at 0 whose text is in the language of "
                                            f"{rx.pattern!r} (flags {int(rx.flags)}; {'structure' if mdl.structural else 'width bounds only'})")
                    return VOpt(isnone, m)
        if isinstance(recv, VOpt) and isinstance(recv.some, VObj) and recv.some.cls == "<match>":
            self.safe_or_raise(z3.Not(recv.isnone), "AttributeError", node, fr, "call")
            recv = recv.some
        if isinstance(recv, VObj) and recv.cls == "<match>" and name == "start" and not args:
            return VInt(self.ghost[("match", recv.ref)])
        if isinstance(recv, VObj) and recv.cls == "<match>" and ("rmatch", recv.ref) in self.ghost and name in ("group", "end", "start") and len(args) <= 1:
            mdl = self.ghost[("rmatch", recv.ref)]
            g = 0
            if args:
                gv = z3.simplify(self.as_int(args[0]))
                if not z3.is_int_value(gv):
                    raise Unsupported("match.group with a symbolic index")
                g = gv.as_long()
            if g not in mdl.groups:
                raise Unsupported(f"group {g} of {mdl.rx.pattern!r} is not modelled")
            lo, hi = mdl.groups[g]
            if name == "group":
                return str_slice(mdl.s, lo, hi)
            return VInt(lo if name == "start" else hi)
        if isinstance(recv, VOpt) and isinstance(recv.some, VObj):
            self.safe_or_raise(z3.Not(recv.isnone), "AttributeError", node, fr, "call")
            recv = recv.some
        if isinstance(recv, VObj) and recv.cls == "<opaque>" and name in OPAQUE_PURE_METHODS:
            # assumed contract on a dependency (re / dict / match objects): pure, result opaque
            self.assumption_log.add(f"{name}() on opaque value assumed pure and non-raising")
            return VObj(self.new_ref(f"{recv.ref.split('#')[0]}.{name}"), "<opaque>")
        raise Unsupported(f"method {name} of {recv!r}")

    def list_method(self, recv, name, args, node, fr):
        p = self.get_payload(recv.ref)
        if name == "append":
            (x,) = args
            p = self.payload.get(recv.ref) or self.mut_payload(recv.ref)
            if isinstance(p, PyListP):
                p.items.append(x)
            elif isinstance(p, IntListP):
                xv = x.t if isinstance(x, (VInt, VAtom)) else (z3.IntVal(intern_atom(x.a)) if isinstance(x, VStr) and x.kind == "lit" and p.elem == "atom" else None)
                if xv is None:
                    raise Unsupported(f"append {x!r} to int list")
                p.arr = z3.Store(p.arr, p.len, xv)
                p.len = p.len + 1
            elif isinstance(p, GhostSeqP):
                p.append(x)
            elif isinstance(p, StrSeqP) and isinstance(x, VStr):
                k = fresh("k")
                p.chars = z3.Store(p.chars, p.len, z3.Lambda([k], x.char(k)))
                p.lens = z3.Store(p.lens, p.len, x.length())
                p.len = p.len + 1
            elif isinstance(p, RecListP):
                self.reclist_append(p, x)
            else:
                raise Unsupported(f"append to {type(p).__name__}")
            return NONE
        if name == "insert":
            i, x = args
            p = self.payload.get(recv.ref) or self.mut_payload(recv.ref)
            if isinstance(p, RecListP):
                # list.insert clamps the index
                iv = self.as_int(i)
                iv = z3.If(iv < 0, z3.If(iv + p.len < 0, 0, iv + p.len), z3.If(iv > p.len, p.len, iv))
                self.reclist_insert(recv, p, iv, x)
                return NONE
        if name == "pop" and isinstance(self.get_payload(recv.ref), StrSeqP) and len(args) <= 1:
            p = self.payload.get(recv.ref) or self.mut_payload(recv.ref)
            self.safe_or_raise(p.len > 0, "IndexError", node, fr, "call")
            if not args:
                p.len = p.len - 1
                return p.elem(p.len)
            iv = z3.simplify(self.as_int(args[0]))
            if not (z3.is_int_value(iv) and iv.as_long() == 0):
                raise Unsupported("pop(i) on a list of strings for i != 0")
            first = p.elem(z3.IntVal(0))
            j = fresh("j")
            p.chars = z3.Lambda([j], z3.Select(p.chars, j + 1))
            p.lens = z3.Lambda([j], z3.Select(p.lens, j + 1))
            p.len = p.len - 1
            return first
        if name == "pop" and not args:
            p = self.payload.get(recv.ref) or self.mut_payload(recv.ref)
            if isinstance(p, PyListP):
                if not p.items:
                    self.safe_or_raise(z3.BoolVal(False), "IndexError", node, fr, "call")
                    raise PathEnd()
                return p.items.pop()
            if isinstance(p, IntListP):
                self.safe_or_raise(p.len > 0, "IndexError", node, fr, "call")
                p.len = p.len - 1
                t = z3.Select(p.arr, p.len)
                return VInt(t) if p.elem == "int" else VAtom(t)
        raise Unsupported(f"list.{name}")

    def reclist_append(self, p, rec):
        if isinstance(rec, VElem) and rec.cls == p.cls:
            src_p = self.get_payload(rec.lst)
            vals = [z3.Select(src_p.fields[f], rec.idx) for f in SCHEMA[p.cls]]
        elif isinstance(rec, VTuple) and getattr(rec, "cls", None) == p.cls:
            vals = [v.t for v in rec.items]
        else:
            raise Unsupported("append of a non-record")
        for f, t in zip(SCHEMA[p.cls], vals):
            p.fields[f] = z3.Store(p.fields[f], p.len, t)
        p.len = p.len + 1

    def reclist_insert(self, recv, p, at, rec):
        if isinstance(rec, VElem) and rec.cls == p.cls:
            # a record taken from another list (value semantics: the fields are copied)
            src_p = self.get_payload(rec.lst)
            items = []
            for fname, fty in SCHEMA[p.cls].items():
                t = z3.Select(src_p.fields[fname], rec.idx)
                items.append(VBool(t) if fty == "bool" else (VInt(t) if fty == "int" else VAtom(t)))
            rec = VTuple(items)
            rec.cls = p.cls
        if not (isinstance(rec, VTuple) and getattr(rec, "cls", None) == p.cls):
            raise Unsupported("insert of a non-record")
        k = z3.Int("k!ins")
        names = list(SCHEMA[p.cls])
        for fname, val in zip(names, rec.items):
            old = p.fields[fname]
            tv = val.t
            p.fields[fname] = z3.Lambda([k], z3.If(k < at, old[k], z3.If(k == at, tv, old[k - 1])))
        p.len = p.len + 1

    def str_method(self, s, name, args, node, fr):
        one = lambda a: isinstance(a, VStr) and a.kind == "lit" and len(a.a) == 1  # noqa: E731
        if name == "replace" and len(args) == 2 and one(args[0]) and one(args[1]):
            # character-wise substitution: same length, every occurrence of the first character becomes the second
            f, t = ord(args[0].a), ord(args[1].a)
            return VStr("var", (lambda i, _b=s: z3.If(_b.char(i) == f, z3.IntVal(t), _b.char(i))), s.length(), f"map({s!r},{f},{t})")
        if name in ("strip", "lstrip", "rstrip") and (not args or one(args[0])):
            # result opaque except for what the code base asks of it: its length is at most the original's and it is
            # empty exactly when every character is in the stripped class (Python whitespace for the no-argument form)
            r = self.apply_strfun(f"str.{name}", [VAtom(z3.IntVal(intern_atom(repr(s)))), *[a for a in args if hasattr(a, "t")]] + ([VAtom(z3.IntVal(intern_atom(args[0].a)))] if args else []))
            key = ("stripax", name, repr(s), args[0].a if args else None)
            if key not in self.unfolded:
                self.unfolded.add(key)
                pred = (lambda c: c == ord(args[0].a)) if args else py_isspace
                w, k = fresh("strip_w"), fresh("k")
                n = s.length()
                self.assume_axiom(r.b <= n)
                self.assume_axiom(z3.Implies(r.b > 0, z3.And(0 <= w, w < n, z3.Not(pred(s.char(w))))))
                self.assume_axiom(z3.Implies(r.b <= 0, z3.ForAll([k], z3.Implies(z3.And(0 <= k, k < n), pred(s.char(k))))))
                # a non-empty result begins / ends with a character outside the stripped class
                if name in ("strip", "lstrip"):
                    self.assume_axiom(z3.Implies(r.b > 0, z3.Not(pred(r.char(z3.IntVal(0))))))
                if name in ("strip", "rstrip"):
                    self.assume_axiom(z3.Implies(r.b > 0, z3.Not(pred(r.char(r.b - 1)))))
            return r
        if name == "split" and len(args) == 1 and one(args[0]):
            # the cells of s split at a one-character separator: a list of at least one string (their contents are not
            # modelled beyond being strings of non-negative length)
            ref = self.new_ref("split")
            self.payload[ref] = self.fresh_strseq(ref, min_len=1)
            return VList(ref)
        if name == "endswith" and isinstance(args[0], VStr) and args[0].kind == "lit":
            lit = args[0].a
            n = s.length()
            return VBool(z3.And(n >= len(lit), *[s.char(n - len(lit) + j) == ord(ch) for j, ch in enumerate(lit)]))
        if name == "index" and args and one(args[0]) and len(args) <= 2:
            c = ord(args[0].a)
            n = s.length()
            st = self.as_int(args[1]) if len(args) == 2 else z3.IntVal(0)
            st = z3.If(st < 0, z3.If(st + n < 0, z3.IntVal(0), st + n), z3.If(st > n, n, st))
            found, r, k = fresh("found", "bool"), fresh("idx"), fresh("k")
            self.assume_axiom(z3.Implies(found, z3.And(st <= r, r < n, s.char(r) == c, z3.ForAll([k], z3.Implies(z3.And(st <= k, k < r), s.char(k) != c)))))
            self.assume_axiom(z3.Implies(z3.Not(found), z3.ForAll([k], z3.Implies(z3.And(st <= k, k < n), s.char(k) != c))))
            self.safe_or_raise(found, "ValueError", node, fr, "call")
            return VInt(r)
        if name in ("strip", "lstrip", "rstrip", "lower", "upper", "replace"):
            r = self.apply_strfun(f"str.{name}", [VAtom(z3.IntVal(intern_atom(repr(s)))), *[a for a in args if hasattr(a, "t")]])
            if name in ("strip", "lstrip", "rstrip"):
                self.assume_axiom(r.b <= s.length())
            if name in ("lower", "upper") and (s.kind == "chr" or (s.kind == "sub" and z3.is_int_value(z3.simplify(s.length())) and z3.simplify(s.length()).as_long() == 1)):
                # one character: exact on ASCII; a non-ASCII character never maps to a single ASCII character except for the
                # enumerated exceptions (str.lower: U+212A KELVIN SIGN -> 'k'; str.upper: U+0131 -> 'I', U+017F -> 'S')
                c = s.char(z3.IntVal(0))
                key = ("casemodel", name, str(z3.simplify(c)))
                if key not in self.unfolded:
                    self.unfolded.add(key)
                    r0 = r.char(z3.IntVal(0))
                    if name == "lower":
                        asc = z3.If(z3.And(c >= 65, c <= 90), c + 32, c)
                    else:
                        asc = z3.If(z3.And(c >= 97, c <= 122), c - 32, c)
                    exc = case_exceptions(name)
                    self.assume_axiom(z3.Implies(z3.And(c >= 0, c < 128), z3.And(r.b == 1, r0 == asc)))
                    self.assume_axiom(z3.Implies(z3.And(c >= 128, r.b == 1), z3.Or([r0 >= 128] + [z3.And(c == a, r0 == b) for a, b in exc.items()])))
                    self.assume_axiom(r.b >= 1)
            return r
        if name == "isascii":
            if s.kind == "chr":
                return VBool(z3.And(s.a >= 0, s.a < 128))
            k = fresh("k")
            return VBool(z3.ForAll([k], z3.Implies(z3.And(0 <= k, k < s.length()), s.char(k) < 128)))
        if name in ("isdigit", "isspace", "isalpha", "isalnum") and s.kind == "chr":
            # Unicode-aware character classes: uninterpreted predicates with the facts that matter - they contain the
            # ASCII class and are strictly larger (one witness each), so code that relies on them for ASCII-only input
            # cannot be proved
            f = z3.Function("str_" + name, z3.IntSort(), z3.BoolSort())
            key = ("strclass", name)
            if key not in self.unfolded:
                self.unfolded.add(key)
                c = z3.Int("q_c")
                if name == "isdigit":
                    self.assume(z3.ForAll([c], z3.Implies(z3.And(c >= 48, c <= 57), f(c)), patterns=[f(c)]))
                    self.assume(f(z3.IntVal(0xB2)))  # SUPERSCRIPT TWO is a digit for str.isdigit, not for int()
                elif name == "isspace":
                    self.assume(z3.And(f(z3.IntVal(32)), f(z3.IntVal(9)), f(z3.IntVal(0xA0)), f(z3.IntVal(0x2003))))
            return VBool(f(s.a))
        if name in ("isdigit", "isspace", "isalpha", "isalnum", "isupper", "islower") and not args:
            # a predicate of a string that is not a single character: a function of the string, otherwise unconstrained
            key = ("strpred", name, repr(s))
            if key not in self.ghost:
                self.ghost[key] = fresh("str_" + name, "bool")
            return VBool(self.ghost[key])
        if name == "startswith" and isinstance(args[0], VStr) and args[0].kind == "lit":
            lit = args[0].a
            return VBool(z3.And(s.length() >= len(lit), *[s.char(z3.IntVal(j)) == ord(ch) for j, ch in enumerate(lit)]))
        if name == "join":
            r = VStr.var(self.new_ref("join"))
            self.assume_axiom(r.b >= 0)
            return r
        raise Unsupported(f"str.{name}")

    # ------------------------------------------------------------------ constructors
    def construct(self, qual, args, kwargs, node, fr):
        cls = qual.split(".")[-1]
        if cls == "Token":
            ref = self.new_ref("token")
            obj = VObj(ref, "Token")
            names = ["type", "tag", "nesting"]
            for n, a in zip(names, args):
                self.set_field(obj, n, self.coerce("Token", n, a))
            for n, v in TOKEN_DEFAULTS.items():
                self.heap[(ref, n)] = v
            self.heap[(ref, "attrs")] = VObj(ref + ".attrs", "<opaque>")
            self.heap[(ref, "meta")] = VObj(ref + ".meta", "<opaque>")
            for n, v in kwargs.items():
                self.set_field(obj, n, self.coerce("Token", n, v))
            return obj
        if cls == "Rule":
            names = list(SCHEMA["Rule"])
            vals = [self.coerce("Rule", n, a) for n, a in zip(names, args)]
            t = VTuple(vals)
            t.cls = "Rule"
            return t
        if cls == "Delimiter":
            # dataclass record stored in a record list: value tuple in schema order (the unused `level` default is dropped)
            names = list(SCHEMA[cls])
            given = dict(zip(names, args))
            given.update({k: v for k, v in kwargs.items() if k in names})
            if set(given) != set(names):
                raise Unsupported("Delimiter(...) with missing fields")
            t = VTuple([self.coerce(cls, n, given[n]) for n in names])
            t.cls = cls
            return t
        if cls == "Scanned":
            names = list(SCHEMA[cls])
            given = dict(zip(names, args))
            given.update(kwargs)
            obj = VObj(self.new_ref("scanned"), cls)
            for n in names:
                self.heap[(obj.ref, n)] = self.coerce(cls, n, given[n])
            return obj
        if cls in SCHEMA and cls in CLASS_MODULE:
            q = self.method_qualname(cls, "__init__")
            if q and q in self.registry and self.registry[q].inline:
                obj = VObj(self.new_ref(cls.lower().strip("_")), cls)
                self.call_pkg(q, [obj] + list(args), kwargs, node, fr)
                return obj
        raise Unsupported(f"constructor {qual}")

    def str_atom(self, v):
        """a computed string stored into an opaque (atom) field: literals are interned, one-character strings and
        concatenations go through uninterpreted constructors (nothing is claimed about their relation to literals)"""
        from .ev_expr import CAT_ATOM

        if v.kind == "lit":
            return z3.IntVal(intern_atom(v.a))
        if v.kind == "chr":
            return CHR_ATOM(v.a)
        if v.kind == "cat":
            parts = [self.str_atom(x) for x in v.a]
            if not parts:
                return z3.IntVal(intern_atom(""))
            acc = parts[0]
            for x in parts[1:]:
                acc = CAT_ATOM(acc, x)
            return acc
        raise Unsupported(f"string of kind {v.kind} stored into an opaque field")

    def coerce(self, cls, fname, v):
        ty = SCHEMA[cls][fname]
        if ty == "atom":
            if isinstance(v, VStr) and v.kind == "lit":
                return VAtom(v.a)
            if isinstance(v, VFunc):
                return VAtom("fn:" + str(v.name))
            if isinstance(v, VAtom):
                return v
            if isinstance(v, VStr):
                return VAtom(self.str_atom(v))
            if isinstance(v, VObj) and v.cls.startswith("<"):
                return VAtom(z3.Int("atom:" + v.ref))
            if isinstance(v, VList):
                return VAtom(z3.Int("atom:" + v.ref))
            raise Unsupported(f"non-atomic value {v!r} for {cls}.{fname}")
        if ty == "bool" and isinstance(v, VBool):
            return v
        if ty == "int" and isinstance(v, (VInt, VBool)):
            return VInt(self.as_int(v))
        return v

    def set_field(self, obj, name, val):  # override: coerce by schema
        if isinstance(obj, VObj) and obj.cls in SCHEMA and name in SCHEMA[obj.cls]:
            val = self.coerce(obj.cls, name, val)
        return super().set_field(obj, name, val)

    # ------------------------------------------------------------------ package functions
    def call_pkg(self, qual, args, kwargs, node, fr):
        c = self.registry.get(qual)
        if c is None:
            # a helper without a contract (typically one a refactoring has just extracted): when it is loop-free and not
            # recursive it is verified in place, as part of its caller, with the actual arguments
            try:
                mi0, fn0, canon0 = S.resolve_function(qual)
            except S.SourceError:
                fn0 = None
            simple = fn0 is not None and not any(isinstance(n, (ast.For, ast.While, ast.Yield, ast.YieldFrom, ast.Lambda, ast.ListComp, ast.DictComp, ast.SetComp, ast.GeneratorExp, ast.Try, ast.With))
                                                 for n in ast.walk(fn0)) \
                and not any(isinstance(n, ast.Call) and isinstance(n.func, (ast.Name, ast.Attribute)) and (getattr(n.func, "id", None) == fn0.name or getattr(n.func, "attr", None) == fn0.name) for n in ast.walk(fn0))
            if not simple:
                raise Unsupported(f"call to {qual} which has no contract")
            from .core import Contract as _C

            c = _C(qual, inline=True)
            self.registry = dict(self.registry)
            self.registry[qual] = c
            self.assumption_log.add(f"{qual} has no contract: loop-free helper verified in place at its call sites")
        cc = (c.ghost or {}).get("returns_charclass")
        if cc:
            # a function that returns a compiled one-character class built from a module-level set literal: the set is read
            # from the real source; that the compiled pattern matches exactly that set is a separate ENUM obligation
            # (complete enumeration over all code points, vf/charclass.py)
            mi, fn, canon = S.resolve_function(qual)
            codes = S.set_literal_codes(mi, cc)
            self.assumption_log.add(f"{qual}() returns a pattern matching exactly one character of {cc} (checked by complete enumeration: ENUM obligation)")
            obj = VObj(self.new_ref("charclass"), "<charclass>")
            self.ghost[("charclass", obj.ref)] = codes
            return obj
        mi, fn, canon = S.resolve_function(qual)
        sub = self.make_frame(canon, mi, fn, c)
        # bind arguments
        params = fn.args.args
        defaults = fn.args.defaults
        nd = len(params) - len(defaults)
        for i, p in enumerate(params):
            if i < len(args):
                sub.locals[p.arg] = args[i]
            elif p.arg in kwargs:
                sub.locals[p.arg] = kwargs[p.arg]
            elif i >= nd:
                sub.locals[p.arg] = self.eval(defaults[i - nd], sub)
            else:
                raise Unsupported(f"missing argument {p.arg} calling {qual}")
        for pname, pty in (c.params or {}).items():
            v = sub.locals.get(pname)
            if isinstance(pty, str) and pty.startswith("reclist:") and isinstance(v, (VAtom, BoolishV)):
                sub.locals[pname + "__atom"] = v
        sub.entry = dict(sub.locals)
        if len(self.frames) > 12:
            raise Unsupported("inline depth")
        if c.inline:
            self.frames.append(sub)
            try:
                self.exec_block(fn.body, sub)
                return NONE
            except ReturnSig as r:
                return r.value
            finally:
                self.frames.pop()
        return self.apply_contract(c, sub, node, fr)

    def apply_contract(self, c, sub, node, fr):
        self.opaque_epoch += 1
        site = fr.ords.of(node, "call")
        short = c.qualname.split(".")[-1]
        # PRE obligations
        assumed_pre = ((fr.contract.ghost or {}).get("assume_pre") or {}).get(short, [])
        for label, expr in c.requires:
            g = self.spec_bool(expr, sub, label)
            if label in assumed_pre:
                # a precondition this caller cannot establish with the contracts at hand: assumed here, listed in evidence
                self.assumption_log.add(f"{fr.qualname}: precondition '{label}' of {short} is assumed at the call site (covered by the bounded no-exception monitor)")
            else:
                self.oblige("PRE", f"{site}:{short}/{label}", g, node)
            self.assume(g)
        # snapshot for old()
        saved_old = self.old_state
        self.old_state = (dict(self.heap), {k: v.copy() for k, v in self.payload.items()})
        try:
            for m in c.modifies:
                self.havoc_heap_path(m, sub, {})
            result = NONE
            rd = c.ghost.get("result_dict") if c.ghost else None
            if rd:
                ref = self.new_ref(f"ret_{short}")
                self.payload[ref] = PyDictP({k: self.sym_for_type(ty, f"{ref}[{k}]") for k, ty in rd.items()})
                result = VDict(ref)
            rf = c.ghost.get("result_fun") if c.ghost else None
            if rd:
                pass
            elif rf:
                result = self.apply_strfun(rf, [v for k, v in sub.locals.items() if isinstance(v, (VInt, VBool)) and k != "self"])
            elif c.result:
                result = self.sym_for_type(c.result, self.new_ref(f"ret_{short}"))
            # exceptional outcomes the callee's contract allows
            excs = list(c.raises)
            if excs:
                which = 0
                for exc in excs:
                    if self.handler_in_scope(exc) or True:
                        pass
                # fork: normal return or one of the declared exceptions
                which = self.dec.choose(1 + len(excs)) if not self.nofork else 0
                if which > 0:
                    exc = excs[which - 1]
                    for label, expr in c.raises[exc]:
                        self.assume(self.spec_bool(expr, sub, label))
                    if not self.feasible():
                        raise PathEnd()
                    raise RaiseSig(exc, f"{site}:{short}", False)
            call_ens = (c.ghost or {}).get("call_ensures")
            for label, expr in (call_ens if call_ens is not None else c.ensures):
                self.assume(self.spec_bool(expr, sub, label, result=result))
            if not self.feasible():
                self.oblige("COVER", f"{site}:{short}/ensures", False, node, "callee postcondition contradictory here")
                raise PathEnd()
            return result
        finally:
            self.old_state = saved_old


_CASE_EXC: dict = {}


def case_exceptions(name):
    """non-ASCII code points whose str.lower()/str.upper() is a single ASCII character (complete enumeration on this interpreter)"""
    if name not in _CASE_EXC:
        f = str.lower if name == "lower" else str.upper
        out = {}
        for cp in range(128, 0x110000):
            r = f(chr(cp))
            if len(r) == 1 and ord(r) < 128:
                out[cp] = ord(r)
        _CASE_EXC[name] = out
    return _CASE_EXC[name]


OPAQUE_PURE_METHODS = {"search", "match", "fullmatch", "group", "start", "end", "get", "lower", "upper", "strip", "sub", "append", "pop", "setdefault"}


class VStrOrList(V):
    """parameter typed `str | Iterable[str]` (Ruler.enable's names)"""

    def __init__(self, is_str, atom, lst):
        self.is_str, self.atom, self.lst = is_str, atom, lst
