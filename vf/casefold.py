"""C16 deductive pieces.

ENUM/casefold          for all 1 112 064 Unicode scalar values c, d:  casefold(c) == casefold(d)  =>
                       normalizeReference(c) == normalizeReference(d)   (a complete, loop-free enumeration of the finite
                       single-character statement; executed on the real normalizeReference)
GUARD/reference/...    dominance facts about the tail of rules_block.reference read from the real source: the store into
                       env["references"][label] is guarded by `label not in env["references"]` (first definition wins), the
                       other branch appends to duplicate_refs, both record map == [startLine, state.line]; the key is
                       normalizeReference(...) on both the defining and the looking-up side; lookups use .get only.
"""
from __future__ import annotations

import ast
import time

from . import src as S
from .report import Ob


def casefold_enumeration():
    from markdown_it.common.utils import normalizeReference

    t0 = time.time()
    classes: dict = {}
    n = 0
    bad = []
    for cp in range(0x110000):
        if 0xD800 <= cp <= 0xDFFF:
            continue
        c = chr(cp)
        n += 1
        if c.isspace():
            continue  # whitespace is collapsed, not case-folded (handled by the label oracle)
        key = c.casefold()
        nr = normalizeReference("x" + c + "x")
        prev = classes.get(key)
        if prev is None:
            classes[key] = (nr, c)
            # the fold string itself must normalise the same way
            if normalizeReference("x" + key + "x") != nr and len(bad) < 5:
                bad.append((c, key))
        elif prev[0] != nr and len(bad) < 5:
            bad.append((prev[1], c))
    return n, len(classes), bad, time.time() - t0


def reference_tail_obligations():
    obs = []
    q = "markdown_it.rules_block.reference.reference"
    try:
        mi, fn, canon = S.resolve_function(q)
    except S.SourceError as e:
        return [{"oid": f"{q}/GUARD/exists", "verdict": "undecided", "func": q, "info": str(e)}]
    stores = []
    for n in ast.walk(fn):
        if isinstance(n, ast.If):
            t = ast.unparse(n.test).replace("'", '"')
            if t == 'label not in state.env["references"]':
                body_txt = " ".join(ast.unparse(s) for s in n.body).replace("'", '"')
                else_txt = " ".join(ast.unparse(s) for s in n.orelse).replace("'", '"')
                ok_store = 'state.env["references"][label] = {' in body_txt and '"map": [startLine, state.line]' in body_txt and '"href": href' in body_txt and '"title": title' in body_txt
                ok_dup = "duplicate_refs" in else_txt and ".append(" in else_txt and '"map": [startLine, state.line]' in else_txt and '"label": label' in else_txt
                stores.append((n, ok_store, ok_dup))
    all_ref_stores = [n for n in ast.walk(fn) if isinstance(n, ast.Assign) and any('env["references"][' in ast.unparse(t).replace("'", '"') for t in n.targets)]
    if len(stores) == 1 and len(all_ref_stores) == 1:
        n, ok_store, ok_dup = stores[0]
        obs.append({"oid": f"{canon}/GUARD/first-wins", "verdict": "discharged" if ok_store else "failed", "func": canon, "line": n.lineno,
                    "info": "the only store into env['references'][label] is guarded by `label not in env['references']` and records title, href and map [startLine, state.line]"})
        obs.append({"oid": f"{canon}/GUARD/duplicates-recorded", "verdict": "discharged" if ok_dup else "failed", "func": canon, "line": n.lineno,
                    "info": "otherwise the definition is appended to duplicate_refs with its label and map [startLine, state.line]"})
    else:
        obs.append({"oid": f"{canon}/GUARD/first-wins", "verdict": "failed" if all_ref_stores else "undecided", "func": canon,
                    "info": f"{len(all_ref_stores)} stores into env['references'], {len(stores)} of them under the `label not in` guard"})
    # no setdefault / update / del on references (would overwrite or drop)
    txt = ast.unparse(fn).replace("'", '"')
    bad = [m for m in ('env["references"].setdefault', 'env["references"].update', 'del state.env["references"]', 'env["references"].pop') if m in txt]
    obs.append({"oid": f"{canon}/GUARD/no-overwrite", "verdict": "discharged" if not bad else "failed", "func": canon, "info": "references are never overwritten or dropped" if not bad else f"uses {bad}"})
    # key normalisation on the defining side
    ok = "label = normalizeReference(string[1:labelEnd])" in txt
    obs.append({"oid": f"{canon}/GUARD/key-normalised", "verdict": "discharged" if ok else "failed", "func": canon, "info": "the key is normalizeReference(string[1:labelEnd])"})
    # state.line advanced over exactly the definition's lines before the records are made
    ok = "state.line = startLine + lines + 1" in txt
    obs.append({"oid": f"{canon}/GUARD/map-own-lines", "verdict": "discharged" if ok else "failed", "func": canon, "info": "state.line = startLine + lines + 1 precedes the records"})
    for q2 in ("markdown_it.rules_inline.link.link", "markdown_it.rules_inline.image.image"):
        try:
            _, f2, c2 = S.resolve_function(q2)
            t2 = ast.unparse(f2).replace("'", '"')
            ok = "label = normalizeReference(label)" in t2 and 'state.env["references"].get(label, None)' in t2 and 'env["references"][' not in t2.replace('state.env["references"] = {}', "")
            obs.append({"oid": f"{c2}/GUARD/lookup-key", "verdict": "discharged" if ok else "failed", "func": c2,
                        "info": "looks the reference up with normalizeReference(label) through .get only (env otherwise untouched)" if ok else "lookup does not use the same normalisation / writes env"})
        except S.SourceError as e:
            obs.append({"oid": f"{q2}/GUARD/lookup-key", "verdict": "undecided", "func": q2, "info": str(e)})
    # env is passed through unchanged by the API
    try:
        mi = S.load_module("markdown_it.main")
        for meth in ("parse", "parseInline"):
            f3 = mi.functions["MarkdownIt." + meth]
            t3 = ast.unparse(f3)
            ok = "env = {} if env is None else env" in t3 and "StateCore(src, self, env)" in t3
            obs.append({"oid": f"markdown_it.main.MarkdownIt.{meth}/GUARD/env-passthrough", "verdict": "discharged" if ok else "failed", "func": f"markdown_it.main.MarkdownIt.{meth}",
                        "info": "the caller's env object itself is handed to StateCore (a fresh dict only when env is None)"})
    except Exception as e:  # noqa: BLE001
        obs.append({"oid": "markdown_it.main.MarkdownIt.parse/GUARD/env-passthrough", "verdict": "undecided", "func": "markdown_it.main.MarkdownIt.parse", "info": str(e)})
    return obs


def add_obligations(rep, prop, tier):
    n, ncls, bad, dt = casefold_enumeration()
    rep.obs.append(Ob(oid=f"{prop}/markdown_it.common.utils.normalizeReference/ENUM/casefold", kind="ENUM", func="markdown_it.common.utils.normalizeReference", backend="exhaustive-enumeration",
                      verdict="discharged" if not bad else "failed", seconds=dt, solver="complete enumeration on the real function",
                      info=f"{n} scalar values in {ncls} case-fold classes: equal fold => equal normalizeReference" if not bad else f"characters with equal case folding normalise differently: {bad}",
                      model=repr(bad)))
    if bad:
        rep.replays[f"{prop}/markdown_it.common.utils.normalizeReference/ENUM/casefold"] = {"lifted": {"arguments": {"pairs": bad}}, "observed": {"outcome": "normalizeReference differs within a case-fold class"}, "replayed": True}
    for o in reference_tail_obligations():
        rep.obs.append(Ob(oid=f"{prop}/{o['oid']}", kind="GUARD", func=o["func"], backend="vocab", verdict=o["verdict"], info=o["info"], line=o.get("line", 0), solver="dominance / literal analysis of the real source"))
    rep.extra["casefold"] = {"scalars": n, "classes": ncls, "exhaustive": True}
    rep.functions = sorted(set(rep.functions) | {"markdown_it.common.utils.normalizeReference", "markdown_it.rules_block.reference.reference"})


def whitespace_table_obligation():
    """ENUM/isWhiteSpace: the MD_WHITESPACE table read from the source (plus the Zs class the function adds) is exactly the
    Unicode whitespace of CommonMark: Zs, TAB, LF, VT?, FF, CR ... decided by complete enumeration over all scalar values
    against unicodedata on the real function."""
    import unicodedata

    from markdown_it.common.utils import isWhiteSpace

    bad = []
    n = 0
    for cp in range(0x110000):
        if 0xD800 <= cp <= 0xDFFF:
            continue
        n += 1
        want = unicodedata.category(chr(cp)) == "Zs" or cp in (0x09, 0x0A, 0x0B, 0x0C, 0x0D, 0x20, 0xA0, 0x1680, 0x202F, 0x205F, 0x3000)
        if bool(isWhiteSpace(cp)) != want and len(bad) < 6:
            bad.append(f"U+{cp:04X}")
    return n, bad
