"""Discharge of obligations: one query per obligation instance, z3 first, cvc5 on z3's unknowns."""
from __future__ import annotations

import os
import subprocess
import tempfile
import time
from concurrent.futures import ProcessPoolExecutor

Z3_TIMEOUT_MS = int(os.environ.get("VERIF_Z3_TIMEOUT_MS", "20000"))
CVC5_TIMEOUT_S = int(os.environ.get("VERIF_CVC5_TIMEOUT_S", "30"))


SCOPE = int(os.environ.get("VERIF_SCOPE", "12"))


def _expand(e, pos, z3, S):
    """polarity-aware bounded expansion of universally-acting quantifiers (small-scope refutation mode).
    Returns None when a quantifier has a shape that cannot be expanded."""
    if z3.is_quantifier(e):
        univ = e.is_forall() == pos  # acts as a universal in this polarity
        if not univ:
            return e  # existential in effect: the solver skolemises it
        if e.num_vars() != 1 or not z3.is_int(z3.Const("x", e.var_sort(0))):
            return None
        body = e.body()
        k = z3.Int(f"ssk!{e.get_id()}")
        body = z3.substitute_vars(body, k)
        guard = None
        if e.is_forall() and z3.is_implies(body):
            guard, inner = body.arg(0), body.arg(1)
        elif e.is_forall() and z3.is_or(body):
            # (not guard) or rest, with the guard anywhere among the disjuncts
            ch = body.children()
            gi = None
            for i, c in enumerate(ch):
                if z3.is_not(c) and z3.is_and(c.arg(0)) and any(k.eq(x) for cc in c.arg(0).children() for x in ([cc.arg(0), cc.arg(1)] if cc.num_args() == 2 else ([cc.arg(0).arg(0), cc.arg(0).arg(1)] if z3.is_not(cc) and cc.arg(0).num_args() == 2 else []))):
                    gi = i
                    break
            if gi is None:
                return None
            guard = ch[gi].arg(0)
            rest = [c for i, c in enumerate(ch) if i != gi]
            inner = z3.Or(*rest) if len(rest) > 1 else rest[0]
        elif (not e.is_forall()) and z3.is_and(body):
            guard, inner = body.arg(0), z3.And(*body.children()[1:]) if body.num_args() > 2 else body.arg(1)
        else:
            return None
        # guard must be  lo <= k  and  k < hi   (possibly nested Ands)
        los, his = [], []

        def scan(g):
            if z3.is_and(g):
                for c in g.children():
                    scan(c)
                return True
            if z3.is_le(g) and g.arg(1).eq(k):
                los.append(g.arg(0)); return True
            if z3.is_ge(g) and g.arg(0).eq(k):
                los.append(g.arg(1)); return True
            if z3.is_lt(g) and g.arg(0).eq(k):
                his.append(g.arg(1)); return True
            if z3.is_gt(g) and g.arg(1).eq(k):
                his.append(g.arg(0)); return True
            if z3.is_not(g):
                h = g.arg(0)
                if z3.is_le(h) and h.arg(0).eq(k):   # not (k <= a)  == k > a : lower bound a+1
                    los.append(h.arg(1) + 1); return True
                if z3.is_le(h) and h.arg(1).eq(k):   # not (a <= k) == k < a
                    his.append(h.arg(0)); return True
                if z3.is_ge(h) and h.arg(0).eq(k):   # not (k >= a) == k < a
                    his.append(h.arg(1)); return True
            return True  # other guard conjuncts stay part of the guard

        scan(guard)
        if not los or not his:
            return None
        inner2 = _expand(inner, pos if e.is_forall() else pos, z3, S)
        if inner2 is None:
            return None
        lo, hi = los[0], his[0]
        inscope = z3.Or(hi <= lo, z3.And(lo >= -2, hi <= S + 1))
        insts = []
        for c in range(-2, S + 1):
            g_c = z3.substitute(guard, (k, z3.IntVal(c)))
            b_c = z3.substitute(inner2, (k, z3.IntVal(c)))
            insts.append(z3.Implies(g_c, b_c) if e.is_forall() else z3.And(g_c, b_c))
        if e.is_forall():   # positive forall
            return z3.And(inscope, *insts)
        # negative exists  (not exists k. g and b)  appears as the exists node in negative polarity:
        return z3.And(z3.Not(z3.Not(inscope)) if False else inscope, z3.Or(*insts)) if False else z3.Or(z3.Not(inscope), *insts)
    if z3.is_not(e):
        c = _expand(e.arg(0), not pos, z3, S)
        return None if c is None else z3.Not(c)
    if z3.is_and(e) or z3.is_or(e):
        cs = [_expand(c, pos, z3, S) for c in e.children()]
        if any(c is None for c in cs):
            return None
        return z3.And(*cs) if z3.is_and(e) else z3.Or(*cs)
    if z3.is_implies(e):
        a = _expand(e.arg(0), not pos, z3, S)
        b = _expand(e.arg(1), pos, z3, S)
        return None if a is None or b is None else z3.Implies(a, b)
    if z3.is_eq(e) and e.num_args() == 2 and z3.is_bool(e.arg(0)):
        from .engine import has_quant
        if has_quant(e):
            a, b = e.arg(0), e.arg(1)
            return _expand(z3.And(z3.Implies(a, b), z3.Implies(b, a)), pos, z3, S)
        return e
    if z3.is_app(e) and e.num_args() and z3.is_bool(e):
        # ite / other boolean structure containing quantifiers: only safe when no quantifier inside
        from .engine import has_quant
        if has_quant(e):
            return None
    return e


def small_scope(smt2, timeout_ms=10000):
    """progressive scopes: a model found at any scope is a genuine model of the original query"""
    last = ("unknown", "")
    # 8 sits between 5 and the final scope: a delimiter-matching counterexample of size 3 was found at 8 in 250 s and not at
    # all at 12 within the budgets (DESIGN.md 8.9)
    steps = [(2, 8000), (5, 12000)] + ([(8, max(timeout_ms, 20000))] if SCOPE > 8 else []) + [(SCOPE, max(timeout_ms, 20000))]
    for S, tmo in steps:
        r = _small_scope(smt2, tmo, S)
        if r[0] in ("sat", "sat-candidate"):
            return r
        last = r
    return last


def _small_scope(smt2, timeout_ms, SCOPE):
    """Refutation mode (DESIGN 2.2): add the small-scope hypothesis and expand the universal quantifiers over it.
    'sat' is a genuine model of the original query (a small instance); anything else proves nothing."""
    import z3

    s0 = z3.Solver()
    s0.from_string(smt2)
    out = []
    defax = []
    approx = False
    # unguarded quantifiers over chain names (forall_atoms, variables named qa_*) are instantiated over the ground
    # integer constants of the query: an *approximation* (models found this way are candidates, flagged as such)
    consts = {}

    def collect_consts(e):
        if z3.is_quantifier(e):
            collect_consts(e.body())
            return
        if z3.is_app(e):
            if e.num_args() == 0 and z3.is_int(e) and (z3.is_int_value(e) or e.decl().kind() == z3.Z3_OP_UNINTERPRETED):
                consts[e.get_id()] = e
            for ch in e.children():
                collect_consts(ch)

    def inst_qa(e, pos):
        nonlocal approx
        if z3.is_quantifier(e) and e.num_vars() == 1 and e.var_name(0).startswith("qa_") and (e.is_forall() == pos):
            approx = True
            cands = list(consts.values())[:24] + [z3.IntVal(0)]
            insts = [inst_qa(z3.substitute_vars(e.body(), c), pos) for c in cands]
            return z3.And(*insts) if e.is_forall() else z3.Or(*insts)
        if z3.is_quantifier(e):
            return e
        if z3.is_not(e):
            return z3.Not(inst_qa(e.arg(0), not pos))
        if z3.is_and(e):
            return z3.And(*[inst_qa(c, pos) for c in e.children()])
        if z3.is_or(e):
            return z3.Or(*[inst_qa(c, pos) for c in e.children()])
        if z3.is_implies(e):
            return z3.Implies(inst_qa(e.arg(0), not pos), inst_qa(e.arg(1), pos))
        return e

    assertions = list(s0.assertions())
    for a in assertions:
        collect_consts(a)
    assertions = [inst_qa(a, True) for a in assertions]
    for a in assertions:
        if z3.is_quantifier(a) and a.is_forall() and a.num_patterns() == 1 and all(a.var_name(i).startswith("q_") for i in range(a.num_vars())):
            defax.append(a)  # definitional axiom of a spec function: instantiated at its ground applications below
            continue
        x = _expand(a, True, z3, SCOPE)
        if x is None:
            if z3.is_quantifier(a) and a.is_forall():
                approx = True  # a universally quantified hypothesis that cannot be expanded is dropped (weaker pc)
                continue
            return "unknown", ""
        out.append(x)
    for _ in range(2):  # instances may mention further applications
        apps = {}

        def collect(e, bound=False):
            if z3.is_quantifier(e):
                return
            if z3.is_app(e):
                if e.num_args() and e.decl().kind() == z3.Z3_OP_UNINTERPRETED:
                    apps.setdefault(e.decl().name(), {})[e.get_id()] = e
                for c in e.children():
                    collect(c)

        for x in out:
            collect(x)
        added = False
        for a in defax:
            pat = a.pattern(0)
            pat = pat.arg(0) if pat.num_args() == 1 and z3.is_app(pat) and pat.decl().name() == "pattern" else pat
            fname = pat.decl().name()
            nv = a.num_vars()
            for app in list(apps.get(fname, {}).values()):
                vals = [None] * nv
                ok = True
                for pa, aa in zip(pat.children(), app.children()):
                    if z3.is_var(pa):
                        vals[nv - 1 - z3.get_var_index(pa)] = aa
                    elif not pa.eq(aa):
                        ok = False
                if not ok or any(v is None for v in vals):
                    continue
                inst = z3.substitute_vars(a.body(), *reversed(vals))
                x = _expand(inst, True, z3, SCOPE)
                if x is None:
                    return "unknown", ""
                key = ("inst", fname, app.get_id())
                if key not in apps:
                    apps[key] = True
                    out.append(x)
                    added = True
        if not added:
            break
    s = z3.Solver()
    s.set("timeout", timeout_ms)
    s.add(*out)
    r = s.check()
    if r == z3.sat:
        import json

        return ("sat-candidate" if approx else "sat"), json.dumps(model_dict(s.model(), z3))
    return ("unsat-in-scope" if r == z3.unsat else "unknown"), ""


def model_dict(m, z3, rng=48):
    """JSON-able sample of a model: constants, arrays and unary int functions evaluated on a small index range"""
    out = {"consts": {}, "arrays": {}, "funcs": {}}
    for d in m.decls():
        name = d.name()
        if name.startswith("ssk!"):
            continue
        try:
            if d.arity() == 0:
                c = d()
                if z3.is_array(c):
                    vals = {}
                    for i in range(-2, rng):
                        v = m.eval(z3.Select(c, z3.IntVal(i)), model_completion=True)
                        vals[i] = _pyval(v, z3)
                    out["arrays"][name] = vals
                else:
                    out["consts"][name] = _pyval(m.eval(c, model_completion=True), z3)
            elif d.arity() == 1 and d.domain(0) == z3.IntSort():
                vals = {}
                for i in range(-2, rng):
                    vals[i] = _pyval(m.eval(d(z3.IntVal(i)), model_completion=True), z3)
                out["funcs"][name] = vals
            elif d.arity() == 2 and name == "Mem":
                vals = {}
                for i in range(-2, 24):
                    for j in range(-2, 24):
                        if z3.is_true(m.eval(d(z3.IntVal(i), z3.IntVal(j)), model_completion=True)):
                            vals.setdefault(i, []).append(j)
                out["funcs"]["Mem"] = vals
        except Exception:
            continue
    try:
        from .vals import _INTERN

        out["atoms"] = {str(v): k for k, v in _INTERN.items()}
    except Exception:  # noqa: BLE001
        pass
    return out


def _pyval(v, z3):
    if z3.is_int_value(v):
        return v.as_long()
    if z3.is_true(v):
        return True
    if z3.is_false(v):
        return False
    return str(v)


PORTFOLIO = [{"smt.mbqi": False}, {"smt.random_seed": 7}, {"smt.mbqi": False, "smt.random_seed": 3}, {"smt.random_seed": 11, "smt.qi.eager_threshold": 100.0}]
PORTFOLIO_MS = int(os.environ.get("VERIF_PORTFOLIO_MS", "5000"))


def solve_one(job):
    """job = (key, smt2 text). returns (key, verdict, solver, seconds, model)"""
    key, smt2 = job
    import z3

    t0 = time.time()
    s = z3.Solver()
    s.set("timeout", min(1500, Z3_TIMEOUT_MS))
    try:
        s.from_string(smt2)
        r = s.check()
        if r == z3.unknown:
            # refutation mode first (fast on genuine counterexamples), then the full budget
            try:
                rr, model = small_scope(smt2)
            except z3.Z3Exception:
                rr, model = "unknown", ""
            if rr == "sat":
                return key, "sat", "z3-smallscope", time.time() - t0, model
            cand = model if rr == "sat-candidate" else None
            # portfolio: quantifier instantiation is sensitive to term order and seeds; a few short differently
            # configured attempts decide most valid VCs that one long default run leaves open (any `unsat` is sound)
            r = z3.unknown
            for cfg in PORTFOLIO:
                s = z3.Solver()
                s.set("timeout", PORTFOLIO_MS)
                for pk, pv in cfg.items():
                    try:
                        s.set(pk, pv)
                    except z3.Z3Exception:
                        pass
                s.from_string(smt2)
                r = s.check()
                if r != z3.unknown:
                    break
            if r == z3.unknown:
                s = z3.Solver()
                s.set("timeout", Z3_TIMEOUT_MS)
                s.from_string(smt2)
                r = s.check()
            if r == z3.unknown and cand is not None:
                # only an approximate counterexample is available: a candidate, to be confirmed on the real code
                return key, "sat-candidate", "z3-smallscope(approx)", time.time() - t0, cand
    except z3.Z3Exception as e:  # pragma: no cover
        return key, "error", "z3", time.time() - t0, str(e)
    if r == z3.unsat:
        return key, "unsat", "z3", time.time() - t0, ""
    if r == z3.sat:
        try:
            import json

            model = json.dumps(model_dict(s.model(), z3))
        except Exception:
            model = ""
        return key, "sat", "z3", time.time() - t0, model
    # unknown -> cvc5
    t1 = time.time()
    try:
        with tempfile.NamedTemporaryFile("w", suffix=".smt2", delete=False) as f:
            f.write("(set-logic ALL)\n" + smt2 + "\n(check-sat)\n" if "(check-sat)" not in smt2 else "(set-logic ALL)\n" + smt2)
            path = f.name
        out = subprocess.run(["/usr/bin/cvc5", "--strings-exp", f"--tlimit={CVC5_TIMEOUT_S * 1000}", path],
                             capture_output=True, text=True, timeout=CVC5_TIMEOUT_S + 5).stdout.strip().splitlines()
        os.unlink(path)
        res = out[0] if out else "unknown"
    except Exception:
        res = "unknown"
    if res in ("unsat", "sat"):
        return key, res, "cvc5", time.time() - t0, ""
    return key, "unknown", "z3+cvc5", time.time() - t0, ""


def to_smt2(pc, goal_negated):
    import z3

    s = z3.Solver()
    for c in pc:
        s.add(c)
    s.add(goal_negated)
    return s.to_smt2()


def discharge(jobs, workers=None):
    """jobs: list of (key, smt2). Returns dict key -> (verdict, solver, seconds, model)."""
    out = {}
    if not jobs:
        return out
    workers = workers or min(14, os.cpu_count() or 4)
    if len(jobs) < 4 or workers <= 1:
        for j in jobs:
            k, *rest = solve_one(j)
            out[k] = tuple(rest)
        return out
    with ProcessPoolExecutor(max_workers=workers) as ex:
        for k, *rest in ex.map(solve_one, jobs, chunksize=4):
            out[k] = tuple(rest)
    return out


# ------------------------------------------------------------------------------------------------ in-memory discharge
_INSTANCES: list = []


def _fast_index(i):
    """phase 1 (forked child, inherited z3 objects): one short attempt; undecided queries are serialised for phase 2"""
    import z3

    key, pc, goal = _INSTANCES[i]
    t0 = time.time()
    s = z3.Solver()
    s.set("timeout", min(1500, Z3_TIMEOUT_MS))
    for c in pc:
        s.add(c)
    s.add(z3.Not(goal))
    r = s.check()
    if r == z3.unsat:
        return key, "unsat", "z3", time.time() - t0, "", ""
    smt2 = s.to_smt2()
    if r == z3.sat:
        try:
            import json

            model = json.dumps(model_dict(s.model(), z3))
        except Exception:
            model = ""
        return key, "sat", "z3", time.time() - t0, model, smt2
    return key, "unknown", "z3", time.time() - t0, "", smt2


def _hard_group(items):
    """phase 2: the undecided instances of ONE obligation, in turn; a definite counterexample for one instance settles
    the obligation (it failed), so the remaining instances are not attempted"""
    out = []
    budget_left = GROUP_BUDGET_S
    cands = 0
    for n, (key, smt2) in enumerate(items):
        t0 = time.time()
        if budget_left <= 0:
            out.append((key, "unknown", "budget", 0.0, "", smt2))
            continue
        k, verdict, solver, secs, model = solve_one((key, smt2))
        budget_left -= time.time() - t0
        out.append((key, verdict, solver, time.time() - t0, model, smt2))
        if verdict == "sat":
            for key2, smt22 in items[n + 1:]:
                out.append((key2, "skipped", "-", 0.0, "", ""))
            break
        if verdict == "sat-candidate":
            cands += 1
            if cands >= 2:
                for key2, smt22 in items[n + 1:]:
                    out.append((key2, "skipped", "-", 0.0, "", ""))
                break
    return out


GROUP_BUDGET_S = float(os.environ.get("VERIF_GROUP_BUDGET_S", "150"))


def _solve_index(i):
    """runs in a forked child: the z3 objects of the parent are inherited, nothing is serialised unless the fast
    attempt does not decide the query"""
    import z3

    key, pc, goal = _INSTANCES[i]
    t0 = time.time()
    s = z3.Solver()
    s.set("timeout", min(1500, Z3_TIMEOUT_MS))
    for c in pc:
        s.add(c)
    s.add(z3.Not(goal))
    r = s.check()
    if r == z3.unsat:
        return key, "unsat", "z3", time.time() - t0, "", ""
    smt2 = s.to_smt2()
    if r == z3.sat:
        try:
            import json

            model = json.dumps(model_dict(s.model(), z3))
        except Exception:
            model = ""
        return key, "sat", "z3", time.time() - t0, model, smt2
    k, verdict, solver, secs, model = solve_one((key, smt2))
    return key, verdict, solver, time.time() - t0, model, smt2


def discharge_objects(instances, workers=None):
    """instances: list of (key, pc list, goal). Returns dict key -> (verdict, solver, seconds, model, smt2)."""
    global _INSTANCES
    out = {}
    if not instances:
        return out
    workers = workers or min(14, os.cpu_count() or 4)
    _INSTANCES = instances
    try:
        if len(instances) < 8 or workers <= 1:
            for i in range(len(instances)):
                k, *rest = _solve_index(i)
                out[k] = tuple(rest)
            return out
        import multiprocessing as mp

        ctx = mp.get_context("fork")
        hard: dict = {}
        with ProcessPoolExecutor(max_workers=workers, mp_context=ctx) as ex:
            for k, verdict, solver, secs, model, smt2 in ex.map(_fast_index, range(len(instances)), chunksize=16):
                if verdict == "unknown":
                    hard.setdefault(k[1], []).append((k, smt2))
                else:
                    out[k] = (verdict, solver, secs, model, smt2)
            if hard:
                for res in ex.map(_hard_group, list(hard.values())):
                    for k, verdict, solver, secs, model, smt2 in res:
                        out[k] = (verdict, solver, secs, model, smt2)
        return out
    finally:
        _INSTANCES = []
