"""Discharge of obligations: one query per obligation instance, z3 first, cvc5 on z3's unknowns."""
from __future__ import annotations

import os
import subprocess
import tempfile
import time
from concurrent.futures import ProcessPoolExecutor

Z3_TIMEOUT_MS = int(os.environ.get("VERIF_Z3_TIMEOUT_MS", "20000"))
CVC5_TIMEOUT_S = int(os.environ.get("VERIF_CVC5_TIMEOUT_S", "30"))


def solve_one(job):
    """job = (key, smt2 text). returns (key, verdict, solver, seconds, model)"""
    key, smt2 = job
    import z3

    t0 = time.time()
    s = z3.Solver()
    s.set("timeout", Z3_TIMEOUT_MS)
    try:
        s.from_string(smt2)
        r = s.check()
    except z3.Z3Exception as e:  # pragma: no cover
        return key, "error", "z3", time.time() - t0, str(e)
    if r == z3.unsat:
        return key, "unsat", "z3", time.time() - t0, ""
    if r == z3.sat:
        try:
            m = s.model()
            model = "; ".join(f"{d.name()}={m[d]}" for d in sorted(m.decls(), key=lambda d: d.name()) if "!" not in d.name() or True)[:4000]
        except Exception:
            model = ""
        return key, "sat", "z3", time.time() - t0, model
    # unknown -> cvc5
    t1 = time.time()
    try:
        with tempfile.NamedTemporaryFile("w", suffix=".smt2", delete=False) as f:
            f.write("(set-logic ALL)\n" + smt2 + "\n(check-sat)\n" if "(check-sat)" not in smt2 else "(set-logic ALL)\n" + smt2)
            path = f.name
        out = subprocess.run(["/usr/bin/cvc5", "--strings-exp", f"--tlimit={CVC5_TIMEOUT_S * 1000}", path],
                             capture_output=True, text=True, timeout=CVC5_TIMEOUT_S + 5).stdout.strip().splitlines()
        os.unlink(path)
        res = out[0] if out else "unknown"
    except Exception:
        res = "unknown"
    if res in ("unsat", "sat"):
        return key, res, "cvc5", time.time() - t0, ""
    return key, "unknown", "z3+cvc5", time.time() - t0, ""


def to_smt2(pc, goal_negated):
    import z3

    s = z3.Solver()
    for c in pc:
        s.add(c)
    s.add(goal_negated)
    return s.to_smt2()


def discharge(jobs, workers=None):
    """jobs: list of (key, smt2). Returns dict key -> (verdict, solver, seconds, model)."""
    out = {}
    if not jobs:
        return out
    workers = workers or min(14, os.cpu_count() or 4)
    if len(jobs) < 4 or workers <= 1:
        for j in jobs:
            k, *rest = solve_one(j)
            out[k] = tuple(rest)
        return out
    with ProcessPoolExecutor(max_workers=workers) as ex:
        for k, *rest in ex.map(solve_one, jobs, chunksize=4):
            out[k] = tuple(rest)
    return out
