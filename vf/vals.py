"""Symbolic value model of pyvc (see DESIGN.md 2.2).

Python int -> SMT Int (exact), bool -> Bool, None, str -> code-point sequences represented as
terms over an uninterpreted char function + length (index-heavy code stays in LIA+UF),
opaque strings / callables that are only compared -> 'atoms' (Int-sorted, literals interned),
lists -> heap payloads (array + length, or concrete python lists of values), objects -> heap records.
"""
from __future__ import annotations

import itertools

import z3

_counter = itertools.count()


def fresh(prefix: str, sort=None):
    n = next(_counter)
    name = f"{prefix}!{n}"
    if sort is None or sort == "int":
        return z3.Int(name)
    if sort == "bool":
        return z3.Bool(name)
    return z3.Const(name, sort)


class Unsupported(Exception):
    """Construct outside the supported Python subset: the function is out of reach (never 'proved')."""


class V:
    pass


class VInt(V):
    __slots__ = ("t",)

    def __init__(self, t):
        self.t = z3.IntVal(t) if isinstance(t, int) else t

    def __repr__(self):
        return f"VInt({self.t})"


class VBool(V):
    __slots__ = ("t",)

    def __init__(self, t):
        self.t = z3.BoolVal(t) if isinstance(t, bool) else t

    def __repr__(self):
        return f"VBool({self.t})"


class VNone(V):
    def __repr__(self):
        return "NONE"


NONE = VNone()

# ---------------------------------------------------------------- atoms
_INTERN: dict[str, int] = {"": 0}


def intern_atom(s: str) -> int:
    if s not in _INTERN:
        _INTERN[s] = len(_INTERN)
    return _INTERN[s]


def atom_name(i: int) -> str | None:
    for k, v in _INTERN.items():
        if v == i:
            return k
    return None


class VAtom(V):
    """An opaque value that is only compared for equality / truthiness ('' is atom 0)."""

    __slots__ = ("t",)

    def __init__(self, t):
        if isinstance(t, str):
            t = z3.IntVal(intern_atom(t))
        self.t = t

    def __repr__(self):
        return f"VAtom({self.t})"


# ---------------------------------------------------------------- strings
class VStr(V):
    """kinds: lit(py) | var(fn,len,name) | sub(base(var),lo,hi) | chr(code) | cat(parts) | rep(part,n)"""

    __slots__ = ("kind", "a", "b", "c")

    def __init__(self, kind, a=None, b=None, c=None):
        self.kind, self.a, self.b, self.c = kind, a, b, c

    # constructors
    @staticmethod
    def lit(s: str) -> "VStr":
        return VStr("lit", s)

    @staticmethod
    def var(name: str) -> "VStr":
        fn = z3.Function(f"chr_{name}", z3.IntSort(), z3.IntSort())
        ln = z3.Int(f"len_{name}")
        return VStr("var", fn, ln, name)

    @staticmethod
    def chr(code) -> "VStr":
        return VStr("chr", code)

    def length(self):
        k = self.kind
        if k == "lit":
            return z3.IntVal(len(self.a))
        if k == "var":
            return self.b
        if k == "sub":
            return self.c - self.b
        if k == "chr":
            return z3.IntVal(1)
        if k == "cat":
            return z3.Sum([p.length() for p in self.a]) if self.a else z3.IntVal(0)
        if k == "rep":
            return z3.If(self.b > 0, self.b, 0) * self.a.length()
        raise Unsupported(f"len of {k}")

    def char(self, i):
        """code point at index i (caller guarantees 0 <= i < len)"""
        k = self.kind
        if k == "lit":
            s = self.a
            if isinstance(i, int) or z3.is_int_value(i):
                iv = i if isinstance(i, int) else i.as_long()
                if 0 <= iv < len(s):
                    return z3.IntVal(ord(s[iv]))
            # symbolic index into literal: ite chain
            res = z3.IntVal(0)
            for j in range(len(s) - 1, -1, -1):
                res = z3.If(i == j, z3.IntVal(ord(s[j])), res)
            return res
        if k == "var":
            return self.a(i)
        if k == "sub":
            return self.a.a(self.b + i)
        if k == "chr":
            return self.a
        if k == "rep" and self.a.kind in ("chr",):
            return self.a.a
        if k == "rep" and self.a.kind == "lit" and len(self.a.a) == 1:
            return z3.IntVal(ord(self.a.a))
        if k == "cat":
            # piecewise
            res = None
            offs = []
            off = z3.IntVal(0)
            for p in self.a:
                offs.append(off)
                off = off + p.length()
            res = z3.IntVal(0)
            for p, o in reversed(list(zip(self.a, offs))):
                res = z3.If(i < o + p.length(), p.char(i - o), res)
            return res
        raise Unsupported(f"char of {k}")

    def __repr__(self):
        return f"VStr[{self.kind}]({self.a!r},{self.b},{self.c})"


def str_concat(a: VStr, b: VStr) -> VStr:
    if a.kind == "lit" and b.kind == "lit":
        return VStr.lit(a.a + b.a)
    if a.kind == "lit" and a.a == "":
        return b
    if b.kind == "lit" and b.a == "":
        return a
    pa = a.a if a.kind == "cat" else [a]
    pb = b.a if b.kind == "cat" else [b]
    return VStr("cat", list(pa) + list(pb))


def str_slice(s: VStr, lo, hi) -> VStr:
    """s[lo:hi] with Python clamping; lo/hi are z3 Int terms or None (already non-negative-normalised by caller)."""
    n = s.length()
    lo = z3.IntVal(0) if lo is None else lo
    hi = n if hi is None else hi

    def norm(x):
        x = z3.If(x < 0, x + n, x)
        return z3.If(x < 0, 0, z3.If(x > n, n, x))

    lo2, hi2 = norm(lo), norm(hi)
    hi2 = z3.If(hi2 < lo2, lo2, hi2)
    lo2, hi2 = z3.simplify(lo2), z3.simplify(hi2)
    if s.kind == "lit" and z3.is_int_value(lo2) and z3.is_int_value(hi2):
        return VStr.lit(s.a[lo2.as_long(): hi2.as_long()])
    if s.kind == "var":
        return VStr("sub", s, lo2, hi2)
    if s.kind == "sub":
        return VStr("sub", s.a, s.b + lo2, s.b + hi2)
    if s.kind == "lit":
        # symbolic slice of a literal: a var-like wrapper whose char function is the literal's ite chain
        lit = s
        base = VStr("var", (lambda i, _l=lit: _l.char(i)), z3.IntVal(len(lit.a)), "lit:" + repr(lit.a))
        return VStr("sub", base, lo2, hi2)
    raise Unsupported(f"slice of {s.kind}")


def str_eq(a: VStr, b: VStr):
    """exact z3 Bool for a == b"""
    if a.kind == "lit" and b.kind == "lit":
        return z3.BoolVal(a.a == b.a)
    if b.kind == "lit" and a.kind != "lit":
        a, b = b, a
    if a.kind == "lit":
        s = a.a
        if b.kind == "chr":
            return z3.BoolVal(False) if len(s) != 1 else b.a == ord(s)
        conj = [b.length() == len(s)]
        for j, ch in enumerate(s):
            conj.append(b.char(z3.IntVal(j)) == ord(ch))
        return z3.And(conj)
    if a.kind == "chr" and b.kind == "chr":
        return a.a == b.a
    if a.kind == "chr" or b.kind == "chr":
        c, o = (a, b) if a.kind == "chr" else (b, a)
        return z3.And(o.length() == 1, o.char(z3.IntVal(0)) == c.a)
    k = fresh("k")
    return z3.And(
        a.length() == b.length(),
        z3.ForAll([k], z3.Implies(z3.And(0 <= k, k < a.length()), a.char(k) == b.char(k))),
    )


class VOpt(V):
    """Optional value: None when isnone holds, else `some` (VInt or one-char VStr)."""

    __slots__ = ("isnone", "some")

    def __init__(self, isnone, some):
        self.isnone, self.some = isnone, some

    def __repr__(self):
        return f"VOpt({self.isnone},{self.some})"


# ---------------------------------------------------------------- heap things
class VObj(V):
    __slots__ = ("ref", "cls")

    def __init__(self, ref: str, cls: str):
        self.ref, self.cls = ref, cls

    def __repr__(self):
        return f"VObj({self.ref}:{self.cls})"


class VElem(V):
    """Element of a record list (value semantics, identified by its index)."""

    __slots__ = ("lst", "idx", "cls")

    def __init__(self, lst: str, idx, cls: str):
        self.lst, self.idx, self.cls = lst, idx, cls

    def __repr__(self):
        return f"VElem({self.lst}[{self.idx}]:{self.cls})"


class VList(V):
    __slots__ = ("ref",)

    def __init__(self, ref: str):
        self.ref = ref

    def __repr__(self):
        return f"VList({self.ref})"


class VTuple(V):
    __slots__ = ("items",)

    def __init__(self, items):
        self.items = list(items)

    def __repr__(self):
        return f"VTuple({self.items})"


class VDict(V):
    __slots__ = ("ref",)

    def __init__(self, ref):
        self.ref = ref


class VFunc(V):
    """A callable: kind in {'pkg' (qualname), 'builtin', 'method' (obj, name), 'class' (qualname), 'opaque'}"""

    __slots__ = ("kind", "name", "recv")

    def __init__(self, kind, name, recv=None):
        self.kind, self.name, self.recv = kind, name, recv

    def __repr__(self):
        return f"VFunc({self.kind},{self.name})"


class VModule(V):
    __slots__ = ("name",)

    def __init__(self, name):
        self.name = name


class VRange(V):
    __slots__ = ("lo", "hi", "rev")

    def __init__(self, lo, hi, rev=False):
        self.lo, self.hi, self.rev = lo, hi, rev


class VEnum(V):
    __slots__ = ("seq",)

    def __init__(self, seq):
        self.seq = seq


class VSeqZ(V):
    """A z3 Seq(Int)-valued immutable list (used for lists of atoms returned as results)."""

    __slots__ = ("t",)

    def __init__(self, t):
        self.t = t


# heap payloads -------------------------------------------------------------
class IntListP:
    """list[int] (or list of atoms): z3 Array Int->Int plus length"""

    __slots__ = ("arr", "len", "elem")

    def __init__(self, arr, ln, elem="int"):
        self.arr, self.len, self.elem = arr, ln, elem

    def copy(self):
        return IntListP(self.arr, self.len, self.elem)


class PyListP:
    """list of concrete length holding arbitrary symbolic values"""

    __slots__ = ("items",)

    def __init__(self, items):
        self.items = list(items)

    def copy(self):
        return PyListP(self.items)


class RecListP:
    """list of records (value semantics): length + one z3 array per field"""

    __slots__ = ("len", "cls", "fields")

    def __init__(self, ln, cls, fields):
        self.len, self.cls, self.fields = ln, cls, dict(fields)

    def copy(self):
        return RecListP(self.len, self.cls, self.fields)


class GhostSeqP:
    """append-only sequence of objects appended during this path (e.g. state.tokens tail):
    base_len pre-existing tokens, then `items` (known prefix), then - once something unknown was appended by a callee or a
    loop (`gapped`) - tail_len further tokens of which the last ones `tail_items` are known again"""

    __slots__ = ("base_len", "items", "gapped", "tail_len", "tail_items")

    def __init__(self, base_len, items=(), gapped=False, tail_len=None, tail_items=()):
        self.base_len, self.items = base_len, list(items)
        self.gapped, self.tail_len, self.tail_items = gapped, (z3.IntVal(0) if tail_len is None else tail_len), list(tail_items)

    def copy(self):
        return GhostSeqP(self.base_len, self.items, self.gapped, self.tail_len, self.tail_items)

    def append(self, x):
        if self.gapped:
            self.tail_items.append(x)
            self.tail_len = self.tail_len + 1
        else:
            self.items.append(x)

    def total(self):
        return self.base_len + len(self.items) + self.tail_len


class VGapTuple(V):
    """new_tokens(state) when unknown tokens lie between the known first and last ones"""

    __slots__ = ("head", "tail")

    def __init__(self, head, tail):
        self.head, self.tail = list(head), list(tail)


class PyDictP:
    __slots__ = ("items",)

    def __init__(self, items):
        self.items = dict(items)

    def copy(self):
        return PyDictP(self.items)


class IntMapP:
    """dict[int, int]: key set + value array"""

    __slots__ = ("keys", "vals")

    def __init__(self, keys, vals):
        self.keys, self.vals = keys, vals

    def copy(self):
        return IntMapP(self.keys, self.vals)


class IntRowsP:
    """dict[int, list[int]] whose values are fixed-length rows mutated in place: key set + array key -> (array index -> int)"""

    __slots__ = ("keys", "vals", "rowlen")

    def __init__(self, keys, vals, rowlen):
        self.keys, self.vals, self.rowlen = keys, vals, rowlen

    def copy(self):
        return IntRowsP(self.keys, self.vals, self.rowlen)


ROWS = z3.ArraySort(z3.IntSort(), z3.ArraySort(z3.IntSort(), z3.IntSort()))
INTARR = z3.ArraySort(z3.IntSort(), z3.IntSort())


class StrSeqP:
    """list[str]: length + (index -> characters) + (index -> length); elements are read as strings over those arrays"""

    __slots__ = ("len", "chars", "lens", "name")

    def __init__(self, ln, chars, lens, name):
        self.len, self.chars, self.lens, self.name = ln, chars, lens, name

    def copy(self):
        return StrSeqP(self.len, self.chars, self.lens, self.name)

    def elem(self, i):
        row = z3.Select(self.chars, i)
        return VStr("var", (lambda k, _r=row: z3.Select(_r, k)), z3.Select(self.lens, i), f"{self.name}[{z3.simplify(i)}]")

SEQ = z3.SeqSort(z3.IntSort())


class MapSeqP:
    """dict[str, list[fn]] (the compiled rule chains): key set + array atom -> Seq(Int)"""

    __slots__ = ("keys", "vals")

    def __init__(self, keys, vals):
        self.keys, self.vals = keys, vals

    def copy(self):
        return MapSeqP(self.keys, self.vals)


class SetP:
    """set of atoms"""

    __slots__ = ("mem",)

    def __init__(self, mem):
        self.mem = mem

    def copy(self):
        return SetP(self.mem)


class VMapSlot(V):
    """`d[k]` of a dict of lists: a reference to the list stored under k (so .append mutates the dict's value)"""

    __slots__ = ("ref", "key")

    def __init__(self, ref, key):
        self.ref, self.key = ref, key
