"""./check <property-id> [--tier quick|thorough] [--replay <file>]"""
from __future__ import annotations

import argparse
import importlib
import os
import sys
import traceback

from . import VERIF

sys.path.insert(0, VERIF)


def main(argv=None):
    ap = argparse.ArgumentParser()
    ap.add_argument("prop")
    ap.add_argument("--tier", default=os.environ.get("VERIF_TIER", "quick"), choices=["quick", "thorough"])
    ap.add_argument("--replay", default=None)
    args = ap.parse_args(argv)
    seed = int(os.environ.get("VERIF_SEED", "0") or 0)
    os.environ["VERIF_TIER"] = args.tier
    prop = args.prop.upper()
    try:
        mod = importlib.import_module(f"vf.props.{prop.lower()}")
    except ModuleNotFoundError:
        print(f"no check for {prop}")
        return 3
    try:
        if args.replay:
            return mod.replay(args.replay) if hasattr(mod, "replay") else generic_replay(args.replay)
        from .report import finish

        rep = mod.run(args.tier, seed)
        rep.checker_cmd = f"./check {prop} --tier {args.tier}"
        return finish(rep)
    except Exception:
        traceback.print_exc()
        print("CHECKER-CRASH (exit 3; never a violation)")
        return 3


def generic_replay(path):
    import json

    from . import replay

    with open(path) as f:
        payload = json.load(f)
    return replay.rerun(payload)


if __name__ == "__main__":
    sys.exit(main())
