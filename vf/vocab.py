"""C10 (and C19 smartquotes) obligations decided on the real source by literal / dominance analysis:

VOCAB/<rule>          token types created by a rule function (type literals at push/Token sites and `.type =` stores)
                      are within the rule's declared vocabulary; rule functions are taken from the registry literals.
GUARD/html/<rule>     html tokens are pushed only after a falsy options.html made the rule return False.
ROUTE/<option>        OptionsDict property getter and setter use the backing-dict key of their own name.
GUARD/smartquotes/... every token.content store (and every stack push of a token index) in process_inlines is
                      dominated by the 'text token outside an autolink' test; the function stores nothing else.
"""
from __future__ import annotations

import ast

from . import src as S
from .report import Ob
from .oracles2 import VOCAB_BLOCK, VOCAB_INLINE

VOCAB_CORE = {"normalize": set(), "block": {"inline"}, "inline": set(), "linkify": {"link_open", "link_close", "text"}, "replacements": set(),
              "smartquotes": set(), "text_join": {"text"}}
VOCAB_INLINE2 = {"balance_pairs": set(), "strikethrough": {"s_open", "s_close", "text"}, "emphasis": {"em_open", "em_close", "strong_open", "strong_close", "text"}, "fragments_join": {"text"}}
EXTRA_INLINE = {"strikethrough": {"text"}, "emphasis": {"text"}, "image": {"image"}, "link": {"link_open", "link_close"}}


def registry(modname, var):
    mi = S.load_module(modname)
    node = mi.globals[var]
    out = []
    for elt in node.elts:
        name = elt.elts[0].value
        fn = ast.unparse(elt.elts[1])
        out.append((name, fn))
    return mi, out


def resolve_rule(mi, expr: str):
    """'rules_block.table' / 'rules_inline.emphasis.tokenize' / 'normalize' -> (module info, FunctionDef, qualname)"""
    parts = expr.split(".")
    head = parts[0]
    tgt = S.resolve_name(mi, head)
    if tgt is None:
        raise S.SourceError(f"cannot resolve {expr}")
    dotted = tgt + ("." + ".".join(parts[1:]) if len(parts) > 1 else "")
    return S.resolve_function(dotted)


def created_types(fn):
    """type literals of tokens a function creates or retypes; (types, dynamic_sites)"""
    types, dyn = set(), []
    for n in ast.walk(fn):
        if isinstance(n, ast.Call):
            f = n.func
            nm = f.attr if isinstance(f, ast.Attribute) else (f.id if isinstance(f, ast.Name) else None)
            if nm in ("push", "Token") and (len(n.args) >= 1):
                a0 = n.args[0]
                if nm == "push" and isinstance(f, ast.Attribute) and ast.unparse(f.value).endswith(("ruler", "ruler2", "append")):
                    continue
                if isinstance(a0, ast.Constant) and isinstance(a0.value, str):
                    types.add(a0.value)
                elif isinstance(a0, ast.BinOp) or isinstance(a0, ast.Name) or isinstance(a0, ast.IfExp):
                    # e.g. token_type + "_open" : enumerate the literal alternatives of the name
                    lits = literal_alternatives(fn, a0)
                    if lits is None:
                        dyn.append((n.lineno, ast.unparse(a0)))
                    else:
                        types |= lits
            for kw in n.keywords:
                if kw.arg == "type" and isinstance(kw.value, ast.Constant) and nm == "Token":
                    types.add(kw.value.value)
        if isinstance(n, ast.Assign):
            for t in n.targets:
                if isinstance(t, ast.Attribute) and t.attr == "type":
                    if isinstance(n.value, ast.Constant) and isinstance(n.value.value, str):
                        types.add(n.value.value)
                    else:
                        lits = literal_alternatives(fn, n.value)
                        if lits is None:
                            dyn.append((n.lineno, ast.unparse(n.value)))
                        else:
                            types |= lits
    types.discard("")
    return types, dyn


def literal_alternatives(fn, e):
    """all string values expression e can take, when it is built from literals, conditional expressions and local
    names that are only ever assigned such expressions; None if not determinable"""
    if isinstance(e, ast.Constant) and isinstance(e.value, str):
        return {e.value}
    if isinstance(e, ast.IfExp):
        a, b = literal_alternatives(fn, e.body), literal_alternatives(fn, e.orelse)
        return None if a is None or b is None else a | b
    if isinstance(e, ast.BinOp) and isinstance(e.op, ast.Add):
        a, b = literal_alternatives(fn, e.left), literal_alternatives(fn, e.right)
        return None if a is None or b is None else {x + y for x in a for y in b}
    if isinstance(e, ast.Name):
        vals = set()
        found = False
        for n in ast.walk(fn):
            if isinstance(n, ast.Assign) and any(isinstance(t, ast.Name) and t.id == e.id for t in n.targets):
                found = True
                if isinstance(n.value, ast.Name) and n.value.id == e.id:
                    continue
                v = literal_alternatives(fn, n.value) if not (isinstance(n.value, ast.Name)) else None
                if v is None:
                    return None
                vals |= v
        return vals if found else None
    return None


def _first_guard_returns_false(fn, option):
    """is there, before any token creation, a statement `if not <...options.get(option)/options.option>: return False`?"""
    for st in fn.body:
        if isinstance(st, ast.If) and isinstance(st.test, ast.UnaryOp) and isinstance(st.test.op, ast.Not) and option in ast.unparse(st.test.operand) and "options" in ast.unparse(st.test.operand):
            if len(st.body) == 1 and isinstance(st.body[0], ast.Return) and isinstance(st.body[0].value, ast.Constant) and st.body[0].value.value is False:
                return True
        for n in ast.walk(st):
            if isinstance(n, ast.Call) and isinstance(n.func, ast.Attribute) and n.func.attr == "push":
                return False
    return False


def obligations():
    obs = []
    chains = [("markdown_it.parser_block", "_rules", VOCAB_BLOCK, "block"), ("markdown_it.parser_inline", "_rules", {**VOCAB_INLINE}, "inline"),
              ("markdown_it.parser_inline", "_rules2", VOCAB_INLINE2, "inline2"), ("markdown_it.parser_core", "_rules", VOCAB_CORE, "core")]
    for modname, var, vocab, chain in chains:
        try:
            mi, regs = registry(modname, var)
        except Exception as e:  # noqa: BLE001
            obs.append({"oid": f"{modname}.{var}/VOCAB/registry", "verdict": "undecided", "func": modname, "info": f"registry literal not readable: {e}"})
            continue
        names = [n for n, _ in regs]
        if len(set(names)) != len(names):
            obs.append({"oid": f"{modname}.{var}/ORDER/unique-names", "verdict": "failed", "func": modname, "info": f"duplicate rule names in {names}"})
        else:
            obs.append({"oid": f"{modname}.{var}/ORDER/unique-names", "verdict": "discharged", "func": modname, "info": f"{len(names)} rule names, all distinct"})
        for name, expr in regs:
            allowed = set(vocab.get(name, set())) | EXTRA_INLINE.get(name, set()) if chain == "inline" else set(vocab.get(name, set()))
            if chain == "block":
                allowed |= {"inline"}  # the inline container of a leaf block
            try:
                m2, fn, canon = resolve_rule(mi, expr)
            except S.SourceError as e:
                obs.append({"oid": f"{modname}/VOCAB/{chain}:{name}", "verdict": "undecided", "func": modname, "info": str(e)})
                continue
            if name not in vocab:
                obs.append({"oid": f"{canon}/VOCAB/{chain}:{name}", "verdict": "undecided", "func": canon, "info": f"rule {name} has no declared vocabulary"})
                continue
            types, dyn = created_types(fn)
            # helpers called by the rule in the same module that take the state (e.g. emphasis._postProcess)
            for n in ast.walk(fn):
                if isinstance(n, ast.Call) and isinstance(n.func, ast.Name) and n.func.id in {q.split(".")[-1] for q in m2.functions} and n.func.id != fn.name:
                    sub = m2.functions.get(n.func.id)
                    if sub is not None:
                        t2, d2 = created_types(sub)
                        types |= t2
                        dyn += d2
            extra = types - allowed
            if dyn:
                obs.append({"oid": f"{canon}/VOCAB/{chain}:{name}", "verdict": "undecided", "func": canon, "info": f"token type computed at {dyn}"})
            else:
                obs.append({"oid": f"{canon}/VOCAB/{chain}:{name}", "verdict": "discharged" if not extra else "failed", "func": canon,
                            "info": f"creates token types {sorted(types)} (declared vocabulary {sorted(allowed)})" + ("" if not extra else f": {sorted(extra)} are outside the vocabulary of rule {name}")})
            if name in ("html_block", "html_inline"):
                ok = _first_guard_returns_false(fn, "html")
                obs.append({"oid": f"{canon}/GUARD/html-option", "verdict": "discharged" if ok else "failed", "func": canon,
                            "info": "returns False before creating any token unless options.html is truthy" if ok else "can create an html token without testing options.html"})
    # option routes
    try:
        mi = S.load_module("markdown_it.utils")
        cls = mi.classes["OptionsDict"]
        props: dict = {}
        for item in cls.body:
            if isinstance(item, ast.FunctionDef):
                kind = None
                for d in item.decorator_list:
                    if isinstance(d, ast.Name) and d.id == "property":
                        kind = "get"
                    if isinstance(d, ast.Attribute) and d.attr == "setter":
                        kind = "set"
                if kind:
                    keys = {n.slice.value for n in ast.walk(item) if isinstance(n, ast.Subscript) and isinstance(n.slice, ast.Constant) and isinstance(n.value, ast.Attribute) and n.value.attr == "_options"}
                    props.setdefault(item.name, {})[kind] = keys
        for name, ks in sorted(props.items()):
            ok = ks.get("get") == {name} and ks.get("set", {name}) == {name}
            obs.append({"oid": f"markdown_it.utils.OptionsDict.{name}/ROUTE/key", "verdict": "discharged" if ok else "failed", "func": f"markdown_it.utils.OptionsDict.{name}",
                        "info": f"getter reads and setter writes self._options[{name!r}]" if ok else f"attribute {name} is routed to keys {ks}"})
        for meth, pat in (("__getitem__", "self._options[key]"), ("__setitem__", "self._options[key] = value")):
            fn = mi.functions.get("OptionsDict." + meth)
            ok = fn is not None and pat in ast.unparse(fn)
            obs.append({"oid": f"markdown_it.utils.OptionsDict.{meth}/ROUTE/item", "verdict": "discharged" if ok else "failed", "func": f"markdown_it.utils.OptionsDict.{meth}",
                        "info": f"item access goes to the same backing dict ({pat})"})
    except Exception as e:  # noqa: BLE001
        obs.append({"oid": "markdown_it.utils.OptionsDict/ROUTE", "verdict": "undecided", "func": "markdown_it.utils.OptionsDict", "info": str(e)})
    # MarkdownIt.enable/disable fan out over the four rulers
    try:
        mi = S.load_module("markdown_it.main")
        for meth in ("enable", "disable"):
            fn = mi.functions["MarkdownIt." + meth]
            txt = ast.unparse(fn).replace("'", '"')
            ok = all(x in txt for x in ('"core"', '"block"', '"inline"', f"self.inline.ruler2.{meth}(names, True)", f".ruler.{meth}(names, True)"))
            obs.append({"oid": f"markdown_it.main.MarkdownIt.{meth}/ROUTE/four-rulers", "verdict": "discharged" if ok else "failed", "func": f"markdown_it.main.MarkdownIt.{meth}",
                        "info": "fans out to core, block, inline and inline.ruler2 with ignoreInvalid=True" if ok else "does not reach all four rulers"})
    except Exception as e:  # noqa: BLE001
        obs.append({"oid": "markdown_it.main.MarkdownIt/ROUTE", "verdict": "undecided", "func": "markdown_it.main.MarkdownIt", "info": str(e)})
    return obs


def _guard_returns(fn, is_guard, allow_before=lambda r: False):
    """(guard found?, offending returns): every `return <not False>` of fn must come after the top-level guard statement
    (an `if ...: return False`) selected by is_guard"""
    gi = None
    for i, st in enumerate(fn.body):
        if isinstance(st, ast.If) and len(st.body) == 1 and isinstance(st.body[0], ast.Return) and isinstance(st.body[0].value, ast.Constant) and st.body[0].value.value is False and is_guard(st, fn.body[:i]):
            gi = i
            break
    if gi is None:
        return False, []
    bad = []
    for st in fn.body[:gi]:
        for n in ast.walk(st):
            if isinstance(n, ast.Return) and not (isinstance(n.value, ast.Constant) and n.value.value is False) and not allow_before(n):
                bad.append(n)
    # and nothing before the guard creates tokens or writes the state
    for st in fn.body[:gi]:
        for n in ast.walk(st):
            if isinstance(n, ast.Call) and isinstance(n.func, ast.Attribute) and n.func.attr == "push" and not ast.unparse(n.func.value).endswith(("ruler", "ruler2")):
                bad.append(n)
            if isinstance(n, (ast.Assign, ast.AugAssign)):
                for t in (n.targets if isinstance(n, ast.Assign) else [n.target]):
                    if isinstance(t, (ast.Attribute, ast.Subscript)) and ast.unparse(t).startswith("state."):
                        bad.append(n)
    return True, bad


def conservativity_obligations():
    """C10(b): the optional extensions cannot succeed, create tokens or write the state before they have seen their
    trigger characters: table - the header line contains '|'; strikethrough - the character at pos is '~' and the run has
    length >= 2 (so without '|' resp. '~~' in the source they are no-ops)."""
    obs = []
    try:
        mi, fn, canon = S.resolve_function("markdown_it.rules_block.table.table")

        def is_pipe_guard(st, before):
            t = ast.unparse(st.test).replace("'", '"')
            if t != '"|" not in lineText':
                return False
            for b in reversed(before):
                if isinstance(b, ast.Assign) and ast.unparse(b.targets[0]) == "lineText":
                    return ast.unparse(b.value) == "getLine(state, startLine).strip()"
            return False

        found, bad = _guard_returns(fn, is_pipe_guard)
        ok = found and not bad
        obs.append({"oid": f"{canon}/GUARD/pipe-before-success", "verdict": "discharged" if ok else "failed", "func": canon,
                    "info": "every success, token and state write of table() comes after `if \"|\" not in <header line>: return False`" if ok else
                            ("the header-line '|' test was not found" if not found else f"table() can succeed or write before it has seen a '|' in the header line (line {bad[0].lineno})")})
    except S.SourceError as e:
        obs.append({"oid": "markdown_it.rules_block.table.table/GUARD/pipe-before-success", "verdict": "undecided", "func": "markdown_it.rules_block.table.table", "info": str(e)})
    try:
        mi, fn, canon = S.resolve_function("markdown_it.rules_inline.strikethrough.tokenize")
        found1, bad1 = _guard_returns(fn, lambda st, before: ast.unparse(st.test).replace("'", '"') == 'ch != "~"' and any(ast.unparse(b) == "ch = state.src[start]" for b in before))
        found2, bad2 = _guard_returns(fn, lambda st, before: ast.unparse(st.test) == "length < 2" and any(ast.unparse(b) == "length = scanned.length" for b in before))
        ok = found1 and found2 and not bad1 and not bad2
        obs.append({"oid": f"{canon}/GUARD/tilde-run-before-success", "verdict": "discharged" if ok else "failed", "func": canon,
                    "info": "strikethrough.tokenize succeeds and writes only after `ch != \"~\"` and `length < 2` returned False" if ok else "strikethrough.tokenize can succeed or write without a run of two '~'"})
        # its post-processing touches only '~' delimiters
        mi, pf, pc = S.resolve_function("markdown_it.rules_inline.strikethrough._postProcess")
        t = ast.unparse(pf)
        ok = "startDelim.marker != 126" in t or "startDelim.marker != 0x7E" in t
        obs.append({"oid": f"{pc}/GUARD/only-tilde-delimiters", "verdict": "discharged" if ok else "failed", "func": pc, "info": "delimiters with another marker are skipped"})
    except S.SourceError as e:
        obs.append({"oid": "markdown_it.rules_inline.strikethrough.tokenize/GUARD/tilde-run-before-success", "verdict": "undecided", "func": "markdown_it.rules_inline.strikethrough.tokenize", "info": str(e)})
    return obs


def env_option_independence():
    """GUARD: in the block rules that record into env (reference), no statement that touches env is control-dependent on a
    test that reads `options` - switching inline_definitions / store_labels can only add tokens and labels, never change
    what is recorded in env (C10).  Control dependence is syntactic: the statement lies in the body or the else-part of an
    `if` whose test mentions options."""
    import re

    obs = []
    for q in ("markdown_it.rules_block.reference.reference",):
        try:
            mi, fn, canon = S.resolve_function(q)
        except S.SourceError as e:
            obs.append({"oid": f"{q}/GUARD/exists", "verdict": "undecided", "func": q, "info": str(e)})
            continue
        parents = {}
        for n in ast.walk(fn):
            for ch in ast.iter_child_nodes(n):
                parents[ch] = n
        # names bound to something taken from env (e.g. references = state.env.setdefault(...)) count as env as well
        env_names = set()
        for n in ast.walk(fn):
            if isinstance(n, ast.Assign) and len(n.targets) == 1 and isinstance(n.targets[0], ast.Name) and ".env" in ast.unparse(n.value):
                env_names.add(n.targets[0].id)

        def touches_env(st):
            t = ast.unparse(st)
            return ".env" in t or any(re.search(r"\\b" + re.escape(x) + r"\\b", t) for x in env_names)

        bad = []
        k = 0
        for st in ast.walk(fn):
            if not isinstance(st, (ast.Assign, ast.AugAssign, ast.Expr)) or not touches_env(st):
                continue
            k += 1
            p_ = st
            while p_ in parents:
                par = parents[p_]
                if isinstance(par, ast.If) and p_ is not par.test and "options" in ast.unparse(par.test):
                    bad.append(f"line {st.lineno}: `{ast.unparse(st)[:60]}` depends on `{ast.unparse(par.test)[:50]}`")
                    break
                p_ = par
        obs.append({"oid": f"{canon}/GUARD/env-writes-independent-of-options", "verdict": "failed" if bad else ("discharged" if k else "undecided"), "func": canon,
                    "info": "; ".join(bad) if bad else f"{k} statements touching env, none control-dependent on an options test"})
    return obs


def add_obligations(rep, prop):
    obs = obligations() + conservativity_obligations() + env_option_independence()
    for o in obs:
        kind = o["oid"].split("/")[-2] if "/" in o["oid"] else "VOCAB"
        rep.obs.append(Ob(oid=f"{prop}/{o['oid']}", kind=kind, func=o["func"], backend="vocab", verdict=o["verdict"], info=o["info"], solver="literal / dominance analysis of the real source"))
    rep.functions = sorted(set(rep.functions) | {o["func"] for o in obs})


# ------------------------------------------------------------------------------------------------ smartquotes (C19)
def smartquotes_obligations():
    obs = []
    q = "markdown_it.rules_core.smartquotes.process_inlines"
    try:
        mi, fn, canon = S.resolve_function(q)
    except S.SourceError as e:
        return [{"oid": f"{q}/GUARD/exists", "verdict": "undecided", "func": q, "info": str(e)}]
    outer = next((n for n in fn.body if isinstance(n, ast.For)), None)
    if outer is None:
        return [{"oid": f"{canon}/GUARD/shape", "verdict": "undecided", "func": canon, "info": "no token loop"}]
    loopvar = outer.target.elts[1].id if isinstance(outer.target, ast.Tuple) else getattr(outer.target, "id", None)
    idxvar = outer.target.elts[0].id if isinstance(outer.target, ast.Tuple) else None
    # position of the dominating guard in the loop body
    guard_idx = None
    for i, st in enumerate(outer.body):
        if isinstance(st, ast.If) and len(st.body) == 1 and isinstance(st.body[0], ast.Continue):
            t = ast.unparse(st.test)
            if f'{loopvar}.type != "text"' in t.replace("'", '"') and "inside_autolink" in t and " or " in t:
                guard_idx = i
                break
    def after_guard(node):
        if guard_idx is None:
            return False
        for st in outer.body[guard_idx + 1:]:
            if any(n is node for n in ast.walk(st)):
                return True
        return False
    k = 0
    for n in ast.walk(fn):
        if isinstance(n, ast.Assign):
            for t in n.targets:
                if isinstance(t, ast.Attribute) and t.attr == "content":
                    direct = isinstance(t.value, ast.Name) and t.value.id == loopvar
                    via_stack = ast.unparse(t.value).startswith("tokens[item[")
                    ok = after_guard(n) and (direct or via_stack)
                    obs.append({"oid": f"{canon}/GUARD/content-store#{k}", "verdict": "discharged" if ok else "failed", "func": canon, "line": n.lineno,
                                "info": f"line {n.lineno}: `{ast.unparse(t)} = ...` " + ("is dominated by the 'text token outside an autolink' test" + (" (indexed through a stack entry, see stack-push)" if via_stack else "") if ok else "is not dominated by `if token.type != \"text\" or inside_autolink: continue`")})
                    k += 1
                elif isinstance(t, ast.Attribute) and t.attr in ("type", "nesting", "level", "children", "tag", "markup", "info", "attrs"):
                    obs.append({"oid": f"{canon}/FRAME/token-field:{t.attr}", "verdict": "failed", "func": canon, "line": n.lineno, "info": f"stores token.{t.attr} at line {n.lineno}"})
        if isinstance(n, ast.Call) and isinstance(n.func, ast.Attribute) and n.func.attr == "append" and isinstance(n.func.value, ast.Name) and n.func.value.id == "stack":
            d = n.args[0] if n.args else None
            tokval = None
            if isinstance(d, ast.Dict):
                for kk, vv in zip(d.keys, d.values):
                    if isinstance(kk, ast.Constant) and kk.value == "token":
                        tokval = vv
            ok = after_guard(n) and isinstance(tokval, ast.Name) and tokval.id == idxvar
            obs.append({"oid": f"{canon}/GUARD/stack-push", "verdict": "discharged" if ok else "failed", "func": canon, "line": n.lineno,
                        "info": "stack entries record the index of the current token and are pushed only past the text/autolink test, so every stack entry indexes a text token outside an autolink" if ok else "a stack entry may index a non-text token"})
        if isinstance(n, ast.Call) and isinstance(n.func, ast.Attribute) and n.func.attr in ("insert", "pop", "remove", "extend", "append", "clear") and isinstance(n.func.value, ast.Name) and n.func.value.id == "tokens":
            obs.append({"oid": f"{canon}/FRAME/token-list", "verdict": "failed", "func": canon, "line": n.lineno, "info": f"modifies the token list structurally at line {n.lineno}"})
    # autolink counter bookkeeping
    txt = ast.unparse(outer)
    ok = ('token.type == "link_open" and token.info == "auto"'.replace('"', "'") in txt.replace('"', "'") and "inside_autolink += 1" in txt
          and 'token.type == "link_close" and token.info == "auto"'.replace('"', "'") in txt.replace('"', "'") and "inside_autolink -= 1" in txt)
    obs.append({"oid": f"{canon}/GUARD/autolink-counter", "verdict": "discharged" if ok else "failed", "func": canon,
                "info": "inside_autolink is incremented at auto link_open and decremented at auto link_close" if ok else "autolink bookkeeping missing or asymmetric"})
    if guard_idx is None:
        obs.append({"oid": f"{canon}/GUARD/text-test", "verdict": "failed", "func": canon, "info": "no `if token.type != \"text\" or inside_autolink: continue` in the token loop"})
    return obs


def add_smartquotes_obligations(rep, prop):
    obs = smartquotes_obligations()
    for o in obs:
        kind = o["oid"].split("/")[-2]
        rep.obs.append(Ob(oid=f"{prop}/{o['oid']}", kind=kind, func=o["func"], backend="vocab", verdict=o["verdict"], info=o["info"], line=o.get("line", 0), solver="dominance analysis of the real source"))
    rep.functions = sorted(set(rep.functions) | {o["func"] for o in obs})
