"""Loading of the real source under verification (re-read from the working tree on every run)."""
from __future__ import annotations

import ast
import functools
import hashlib
import os

from . import REPO


class SourceError(Exception):
    """The function/class named by a contract does not exist (any more) in the working tree."""


def module_path(modname: str) -> str:
    rel = modname.replace(".", "/")
    for cand in (os.path.join(REPO, rel + ".py"), os.path.join(REPO, rel, "__init__.py")):
        if os.path.exists(cand):
            return cand
    raise SourceError(f"module {modname} not found under {REPO}")


TOUCHED: set = set()  # modules read since the set was last cleared (dependency tracking for the result cache)


def load_module(modname: str) -> "ModuleInfo":
    TOUCHED.add(modname)
    return _load_module(modname)


@functools.lru_cache(maxsize=None)
def _load_module(modname: str) -> "ModuleInfo":
    path = module_path(modname)
    with open(path, encoding="utf-8") as f:
        text = f.read()
    tree = ast.parse(text, filename=path)
    return ModuleInfo(modname, path, text, tree)


class ModuleInfo:
    def __init__(self, name: str, path: str, text: str, tree: ast.Module):
        self.name = name
        self.path = path
        self.text = text
        self.tree = tree
        self.is_pkg = path.endswith("__init__.py")
        self.sha = hashlib.sha256(text.encode()).hexdigest()[:16]
        self.imports: dict[str, str] = {}  # local name -> dotted target (module or module.attr)
        self.functions: dict[str, ast.FunctionDef] = {}  # qualname within module -> def
        self.classes: dict[str, ast.ClassDef] = {}
        self.globals: dict[str, ast.expr] = {}  # simple module-level assignments
        self._scan()

    def _resolve_rel(self, level: int, module: str | None) -> str:
        if level == 0:
            return module or ""
        parts = self.name.split(".")
        if not self.is_pkg:
            parts = parts[:-1]
        if level > 1:
            parts = parts[: len(parts) - (level - 1)]
        base = ".".join(parts)
        return base + ("." + module if module else "")

    def _scan(self) -> None:
        def scan_body(body, prefix=""):
            for node in body:
                if isinstance(node, (ast.FunctionDef, ast.AsyncFunctionDef)):
                    self.functions[prefix + node.name] = node
                elif isinstance(node, ast.ClassDef):
                    self.classes[prefix + node.name] = node
                    scan_body(node.body, prefix + node.name + ".")
                elif isinstance(node, ast.If):
                    # TYPE_CHECKING blocks etc: imports inside are still name bindings
                    scan_body(node.body, prefix)
                    scan_body(node.orelse, prefix)
                elif isinstance(node, ast.Import) and not prefix:
                    for a in node.names:
                        self.imports[a.asname or a.name.split(".")[0]] = a.name if a.asname else a.name.split(".")[0]
                elif isinstance(node, ast.ImportFrom) and not prefix:
                    base = self._resolve_rel(node.level, node.module)
                    for a in node.names:
                        self.imports[a.asname or a.name] = base + "." + a.name
                elif isinstance(node, ast.Assign) and not prefix:
                    for t in node.targets:
                        if isinstance(t, ast.Name):
                            self.globals[t.id] = node.value
                elif isinstance(node, ast.AnnAssign) and not prefix:
                    if isinstance(node.target, ast.Name) and node.value is not None:
                        self.globals[node.target.id] = node.value

        scan_body(self.tree.body)


def split_qualname(qualname: str) -> tuple[str, str]:
    """'markdown_it.ruler.Ruler.enable' -> ('markdown_it.ruler', 'Ruler.enable')"""
    parts = qualname.split(".")
    for k in range(len(parts), 0, -1):
        mod = ".".join(parts[:k])
        try:
            module_path(mod)
        except SourceError:
            continue
        # prefer the longest module prefix that is a plain module when the rest exists in it
        rest = ".".join(parts[k:])
        if rest:
            mi = load_module(mod)
            if rest in mi.functions or rest in mi.classes or rest.split(".")[0] in mi.imports or rest in mi.globals:
                return mod, rest
            continue
        return mod, rest
    raise SourceError(f"cannot resolve {qualname}")


def resolve_function(qualname: str) -> tuple[ModuleInfo, ast.FunctionDef, str]:
    """Follow re-exports (package __init__ imports) until a def is found. Returns (module, def, canonical qualname)."""
    seen = set()
    q = qualname
    while True:
        if q in seen:
            raise SourceError(f"import cycle resolving {qualname}")
        seen.add(q)
        mod, rest = split_qualname(q)
        mi = load_module(mod)
        if rest == "" and "." in mod:
            # the dotted path names a module, but a package may re-export a function of the same name
            # (rules_block/__init__ imports `table` the function from module `table`)
            parent, leaf = mod.rsplit(".", 1)
            pmi = load_module(parent)
            if leaf in pmi.imports and pmi.imports[leaf] != mod:
                q = pmi.imports[leaf]
                continue
            if leaf in mi.functions:
                return mi, mi.functions[leaf], mod + "." + leaf
        if rest in mi.functions:
            return mi, mi.functions[rest], mod + "." + rest
        head = rest.split(".")[0]
        if head in mi.imports:
            q = mi.imports[head] + rest[len(head):]
            continue
        raise SourceError(f"function {qualname} not found (looked in {mod})")


def resolve_name(mi: ModuleInfo, name: str) -> str | None:
    """Dotted target of a module-level name as seen from module mi (import, def, class or global)."""
    if name in mi.imports:
        return mi.imports[name]
    if name in mi.functions or name in mi.classes or name in mi.globals:
        return mi.name + "." + name
    return None


def func_source(mi: ModuleInfo, fn: ast.FunctionDef) -> str:
    return ast.get_source_segment(mi.text, fn) or ""


def literal_global(modname: str, name: str):
    """ast.literal_eval of a module-level assignment (e.g. tuples of strings)."""
    mi = load_module(modname)
    if name not in mi.globals:
        raise SourceError(f"{modname}.{name} not found")
    return ast.literal_eval(mi.globals[name])


def all_package_modules(pkg: str = "markdown_it") -> list[str]:
    out = []
    root = os.path.join(REPO, pkg)
    for dirpath, dirnames, filenames in os.walk(root):
        dirnames[:] = sorted(d for d in dirnames if d != "__pycache__")
        for fn in sorted(filenames):
            if fn.endswith(".py"):
                rel = os.path.relpath(os.path.join(dirpath, fn), REPO)[:-3].replace(os.sep, ".")
                if rel.endswith(".__init__"):
                    rel = rel[: -len(".__init__")]
                out.append(rel)
    return out


def set_literal_codes(mi, name: str) -> frozenset:
    """code points of the one-character strings in the module-level set literal `name`"""
    import ast as _ast

    for node in mi.tree.body:
        tgt = None
        if isinstance(node, _ast.Assign) and len(node.targets) == 1 and isinstance(node.targets[0], _ast.Name):
            tgt, val = node.targets[0].id, node.value
        elif isinstance(node, _ast.AnnAssign) and isinstance(node.target, _ast.Name) and node.value is not None:
            tgt, val = node.target.id, node.value
        if tgt == name:
            if isinstance(val, _ast.Set) and all(isinstance(e, _ast.Constant) and isinstance(e.value, str) and len(e.value) == 1 for e in val.elts):
                return frozenset(ord(e.value) for e in val.elts)
            raise SourceError(f"{name} in {mi.name} is not a set literal of one-character strings")
    raise SourceError(f"no module-level {name} in {mi.name}")
