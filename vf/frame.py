"""Frame / reads / ownership checker (DESIGN.md 2.3): region typing over the real source.

Every heap write site of every function in the package gets an obligation FRAME/<func>/<site>:
region(target) must be allowed for that function.  Regions:
  CALL  per-call objects (State*, Token, Delimiter, SyntaxTreeNode, locals holding fresh objects)
  ENV   the caller's env mapping
  MD    everything that outlives a call (MarkdownIt, parsers, Rulers and Rules, renderer, OptionsDict)
  MOD   module globals / class attributes / presets
  UNKNOWN  cannot be determined (obligation undecided, never silently accepted)
Functions are *strict* (may write CALL/ENV only) unless listed in CONFIG_WRITERS (may also write MD(self)).
The single permitted MD write on the parse path is Ruler.__cache__ (in getRules/__compile__).
"""
from __future__ import annotations

import ast
from dataclasses import dataclass

from . import src as S

MUTATING_METHODS = {"append", "extend", "insert", "pop", "clear", "update", "setdefault", "sort", "remove", "add",
                    "attrSet", "attrJoin", "attrPush", "popitem", "discard", "reverse", "__setitem__", "__delitem__"}

CALL_CLASSES = {"StateBlock", "StateInline", "StateCore", "StateBase", "Token", "Delimiter", "SyntaxTreeNode", "Scanned",
                "_Result", "_State", "_NesterTokens"}
MD_CLASSES = {"MarkdownIt", "ParserBlock", "ParserInline", "ParserCore", "Ruler", "Rule", "RendererHTML", "RendererProtocol", "OptionsDict"}
ENV_ANN = {"EnvType"}

# functions that are allowed to write their own instance (configuration API / constructors)
CONFIG_WRITERS = {
    "markdown_it.main.MarkdownIt.__init__", "markdown_it.main.MarkdownIt.set", "markdown_it.main.MarkdownIt.configure",
    "markdown_it.main.MarkdownIt.enable", "markdown_it.main.MarkdownIt.disable", "markdown_it.main.MarkdownIt.reset_rules",
    "markdown_it.main.MarkdownIt.add_render_rule", "markdown_it.main.MarkdownIt.use",
    "markdown_it.parser_block.ParserBlock.__init__", "markdown_it.parser_inline.ParserInline.__init__",
    "markdown_it.parser_core.ParserCore.__init__",
    "markdown_it.ruler.Ruler.__init__", "markdown_it.ruler.Ruler.at", "markdown_it.ruler.Ruler.before",
    "markdown_it.ruler.Ruler.after", "markdown_it.ruler.Ruler.push", "markdown_it.ruler.Ruler.enable",
    "markdown_it.ruler.Ruler.enableOnly", "markdown_it.ruler.Ruler.disable",
    "markdown_it.utils.OptionsDict.__init__", "markdown_it.utils.OptionsDict.__setitem__", "markdown_it.utils.OptionsDict.__delitem__",
    "markdown_it.renderer.RendererHTML.__init__",
}
OPTION_SETTERS_PREFIX = "markdown_it.utils.OptionsDict."  # property setters write self._options
# the only instance state written on the parse path
CACHE_WRITERS = {"markdown_it.ruler.Ruler.getRules": {"__cache__"}, "markdown_it.ruler.Ruler.__compile__": {"__cache__"}}
SKIP_MODULES = {"markdown_it.cli.parse", "markdown_it.cli", "markdown_it.port"}

FRESH_CALLS = {"list", "dict", "set", "tuple", "str", "int", "bool", "sorted", "reversed", "Token", "Delimiter", "Scanned",
               "_Result", "_State", "copy", "deepcopy", "StateBlock", "StateInline", "StateCore", "SyntaxTreeNode", "OptionsDict",
               "Ruler", "Rule", "ParserBlock", "ParserInline", "ParserCore", "len", "min", "max", "range", "enumerate", "zip",
               "repr", "chr", "ord", "getattr", "isinstance", "type", "splitlines", "split", "join", "replace", "strip",
               "lower", "upper", "format", "dataclass_replace", "dc_replace", "items", "keys", "values", "get_active_rules",
               "get_all_rules", "as_dict", "from_dict", "convert_attrs", "attrItems", "LinkifyIt", "getLines", "slice",
               "make", "dict_factory", "cls"}


@dataclass
class Site:
    func: str
    line: int
    kind: str  # store-attr | store-sub | mutate | del
    target: str  # source text of the target
    region: str
    field: str | None
    value_region: str | None = None
    note: str = ""


def ann_name(ann) -> str | None:
    if ann is None:
        return None
    if isinstance(ann, ast.Constant) and isinstance(ann.value, str):
        try:
            ann = ast.parse(ann.value, mode="eval").body
        except SyntaxError:
            return None
    if isinstance(ann, ast.Name):
        return ann.id
    if isinstance(ann, ast.Attribute):
        return ann.attr
    if isinstance(ann, ast.Subscript):
        outer = ann_name(ann.value)
        inner = ann_name(ann.slice if not isinstance(ann.slice, ast.Tuple) else ann.slice.elts[0])
        if outer in ("list", "List", "Sequence", "MutableSequence", "Iterable", "Optional"):
            return inner
        return outer
    if isinstance(ann, ast.BinOp) and isinstance(ann.op, ast.BitOr):
        return ann_name(ann.left) if ann_name(ann.left) not in (None, "None") else ann_name(ann.right)
    return None


def region_of_class(cls: str | None) -> str | None:
    if cls is None:
        return None
    if cls in CALL_CLASSES:
        return "CALL"
    if cls in MD_CLASSES:
        return "MD"
    if cls in ENV_ANN:
        return "ENV"
    if cls in ("str", "int", "bool", "float", "bytes", "None"):
        return "IMMUTABLE"
    if cls in ("OptionsType", "PresetType", "Mapping", "MutableMapping", "dict", "Any"):
        return None
    return None


class FuncFrame(ast.NodeVisitor):
    def __init__(self, mi: S.ModuleInfo, qual: str, fn: ast.FunctionDef, cls: str | None, module_globals: set[str]):
        self.mi, self.qual, self.fn, self.cls = mi, qual, fn, cls
        self.module_globals = module_globals
        self.sites: list[Site] = []
        self.problems: list[str] = []
        self.local_regions: dict[str, set[str]] = {}
        self.params: dict[str, str | None] = {}
        for a in fn.args.args + fn.args.kwonlyargs + ([fn.args.vararg] if fn.args.vararg else []) + ([fn.args.kwarg] if fn.args.kwarg else []):
            self.params[a.arg] = ann_name(a.annotation)
        for sub in ast.walk(fn):  # parameters of nested functions
            if isinstance(sub, (ast.FunctionDef, ast.Lambda)) and sub is not fn:
                for a in sub.args.args:
                    self.params.setdefault(a.arg, ann_name(getattr(a, "annotation", None)))
        # mutable defaults
        for d in fn.args.defaults + [k for k in fn.args.kw_defaults if k is not None]:
            if isinstance(d, (ast.List, ast.Dict, ast.Set, ast.ListComp, ast.DictComp)) or (isinstance(d, ast.Call) and isinstance(d.func, ast.Name) and d.func.id in ("list", "dict", "set")):
                self.problems.append(f"mutable default argument at line {d.lineno}")
        self._infer_locals()

    # ---- region of an expression
    def region(self, e) -> str:
        if isinstance(e, ast.Name):
            n = e.id
            if n in self.params:
                if n == "self" and self.cls:
                    return region_of_class(self.cls) or "UNKNOWN"
                if n == "cls":
                    return "MOD"
                if n == "env":
                    return "ENV"
                r = region_of_class(self.params[n])
                if r:
                    return r
                if n in ("tokens", "outTokens", "inlineTokens", "children", "token", "delimiters"):
                    return "CALL"
                if n in ("md",):
                    return "MD"
                if n in ("options", "options_update", "presets", "config"):
                    return "ARG"
                return "ARG"
            if n in self.local_regions:
                rs = self.local_regions[n]
                if len(rs) == 1:
                    return next(iter(rs))
                if rs <= {"CALL", "FRESH", "IMMUTABLE"}:
                    return "CALL"
                if "MOD" in rs:
                    return "MOD"
                if "MD" in rs:
                    return "MD"
                if rs <= {"ENV", "FRESH", "IMMUTABLE", "CALL"}:
                    return "ENV" if "ENV" in rs else "CALL"
                return "UNKNOWN"
            if n in self.module_globals or n in self.mi.imports:
                return "MOD"
            return "UNKNOWN"
        if isinstance(e, ast.Attribute):
            base = self.region(e.value)
            if e.attr == "md":
                return "MD"
            if e.attr == "env":
                return "ENV"
            if base in ("CALL", "FRESH") and e.attr in ("options",):
                return "MD"
            if isinstance(e.value, ast.Call) and isinstance(e.value.func, ast.Name) and e.value.func.id == "type":
                return "MOD"
            if e.attr == "__class__":
                return "MOD"
            return base
        if isinstance(e, ast.Subscript):
            return self.region(e.value)
        if isinstance(e, (ast.List, ast.Dict, ast.Set, ast.ListComp, ast.DictComp, ast.SetComp, ast.GeneratorExp, ast.Tuple, ast.JoinedStr)):
            return "FRESH"
        if isinstance(e, ast.Constant):
            return "IMMUTABLE"
        if isinstance(e, (ast.BinOp, ast.UnaryOp, ast.Compare, ast.BoolOp)) and not isinstance(e, ast.BoolOp):
            return "FRESH" if isinstance(e, ast.BinOp) and isinstance(e.op, (ast.Add, ast.Mult)) else "IMMUTABLE"
        if isinstance(e, ast.BoolOp):
            rs = {self.region(v) for v in e.values}
            rs.discard("IMMUTABLE")
            if len(rs) == 1:
                return next(iter(rs))
            if rs <= {"FRESH", "CALL"}:
                return "CALL"
            return "UNKNOWN" if rs else "IMMUTABLE"
        if isinstance(e, ast.IfExp):
            rs = {self.region(e.body), self.region(e.orelse)}
            rs.discard("IMMUTABLE")
            if len(rs) <= 1:
                return next(iter(rs)) if rs else "IMMUTABLE"
            if rs <= {"FRESH", "CALL"}:
                return "CALL"
            if rs <= {"FRESH", "ENV"}:
                return "ENV"
            return "UNKNOWN"
        if isinstance(e, ast.Call):
            f = e.func
            name = f.id if isinstance(f, ast.Name) else (f.attr if isinstance(f, ast.Attribute) else None)
            if isinstance(f, ast.Subscript):  # Rule[RuleFuncTv](...)
                name = f.value.id if isinstance(f.value, ast.Name) else None
            if isinstance(f, ast.Call) and isinstance(f.func, ast.Name) and f.func.id == "type":
                return "FRESH"  # type(self)(...) constructs a new object
            if name == "cast" and len(e.args) == 2:
                return self.region(e.args[1])  # typing.cast returns its argument itself
            if name in FRESH_CALLS:
                return "FRESH"
            if isinstance(f, ast.Attribute):
                recv = self.region(f.value)
                if name == "push" and recv == "CALL":
                    return "CALL"
                if name in ("getRules",):
                    return "MD"
                if name in ("get", "pop", "setdefault") and recv in ("ENV", "CALL"):
                    return recv
                if name in ("search", "match", "fullmatch", "group", "sub", "start", "end", "compile", "escape", "index", "find", "startswith", "endswith"):
                    return "IMMUTABLE"
                if recv in ("CALL", "FRESH"):
                    return "CALL"
                if recv == "MD":
                    return "MD"
            if isinstance(f, ast.Name):
                tgt = S.resolve_name(self.mi, f.id)
                if tgt and tgt.startswith("markdown_it"):
                    return "CALLRESULT"
            return "UNKNOWN"
        if isinstance(e, ast.NamedExpr):
            return self.region(e.value)
        if isinstance(e, ast.Starred):
            return self.region(e.value)
        if isinstance(e, ast.Lambda):
            return "IMMUTABLE"
        return "UNKNOWN"

    def _infer_locals(self):
        # flow-insensitive: a local's region is the union over everything assigned to it (two rounds for chains)
        for _ in range(3):
            for n in ast.walk(self.fn):
                pairs = []
                if isinstance(n, ast.Assign):
                    for t in n.targets:
                        pairs.append((t, n.value))
                elif isinstance(n, ast.AnnAssign) and n.value is not None:
                    pairs.append((n.target, n.value))
                elif isinstance(n, ast.NamedExpr):
                    pairs.append((n.target, n.value))
                elif isinstance(n, (ast.For, ast.comprehension)):
                    it = n.iter
                    r = self.region(it.args[0]) if isinstance(it, ast.Call) and isinstance(it.func, ast.Name) and it.func.id in ("enumerate", "reversed", "list") and it.args else self.region(it)
                    for t in ast.walk(n.target):
                        if isinstance(t, ast.Name):
                            self.local_regions.setdefault(t.id, set()).add("CALL" if r in ("FRESH", "CALLRESULT") else r)
                    continue
                elif isinstance(n, ast.With):
                    for item in n.items:
                        if item.optional_vars is not None and isinstance(item.optional_vars, ast.Name):
                            self.local_regions.setdefault(item.optional_vars.id, set()).add("CALL")
                    continue
                elif isinstance(n, ast.ExceptHandler) and n.name:
                    self.local_regions.setdefault(n.name, set()).add("CALL")
                    continue
                for t, v in pairs:
                    if isinstance(t, ast.Name) and t.id not in self.params:
                        r = self.region(v)
                        if r == "CALLRESULT":
                            r = "CALL"
                        self.local_regions.setdefault(t.id, set()).add(r)
                    elif isinstance(t, ast.Tuple):
                        for el in t.elts:
                            if isinstance(el, ast.Name):
                                self.local_regions.setdefault(el.id, set()).add("CALL")
            # parameters re-assigned (e.g. env = {} if env is None else env) keep their own region

    # ---- write sites
    def add(self, node, kind, target, field=None, value=None):
        reg = self.region(target)
        txt = ast.unparse(target)
        vr = self.region(value) if value is not None else None
        self.sites.append(Site(self.qual, node.lineno, kind, txt, reg, field, vr))

    def visit_FunctionDef(self, node):
        if node is self.fn:
            self.generic_visit(node)
        # nested defs are visited as part of the enclosing function (closures write the same objects)
        else:
            self.generic_visit(node)

    visit_AsyncFunctionDef = visit_FunctionDef

    def visit_Global(self, node):
        self.problems.append(f"global statement at line {node.lineno}")

    def visit_Nonlocal(self, node):
        pass  # closures over locals stay per-call

    def _store_target(self, t, node, value):
        if isinstance(t, ast.Attribute):
            self.add(node, "store-attr", t.value, t.attr, value)
        elif isinstance(t, ast.Subscript):
            fld = t.value.attr if isinstance(t.value, ast.Attribute) else None
            self.add(node, "store-sub", t.value, fld, value)
        elif isinstance(t, (ast.Tuple, ast.List)):
            for el in t.elts:
                self._store_target(el, node, None)

    def visit_Assign(self, node):
        for t in node.targets:
            self._store_target(t, node, node.value)
        self.generic_visit(node)

    def visit_AnnAssign(self, node):
        if node.value is not None:
            self._store_target(node.target, node, node.value)
        self.generic_visit(node)

    def visit_AugAssign(self, node):
        self._store_target(node.target, node, None)
        if isinstance(node.target, ast.Name) and self._maybe_container(node.target.id, node.value):
            # `x += y` extends a list IN PLACE: when the local denotes an object that outlives the call (e.g. a chain
            # returned by getRules, which is the ruler's cached list itself) this is a write to that object
            self.add(node, "mutate:inplace-op", node.target, None)
        self.generic_visit(node)

    _CONTAINER_CALLS = {"getRules", "get_active_rules", "get_all_rules", "copy", "split", "splitlines", "list", "dict", "set", "sorted", "escapedSplit"}
    _CONTAINER_FIELDS = {"tokens", "children", "delimiters", "attrs", "meta", "alt", "__rules__", "bMarks", "eMarks", "tShift", "sCount", "bsCount", "rules", "_prev_delimiters",
                         "backticks", "cache", "env", "__cache__"}

    def _container_expr(self, v):
        if isinstance(v, (ast.List, ast.Dict, ast.Set, ast.ListComp, ast.DictComp, ast.SetComp)):
            return True
        if isinstance(v, ast.Call):
            f = v.func
            nm = f.attr if isinstance(f, ast.Attribute) else (f.id if isinstance(f, ast.Name) else None)
            return nm in self._CONTAINER_CALLS
        if isinstance(v, ast.Attribute):
            return v.attr in self._CONTAINER_FIELDS
        if isinstance(v, ast.Subscript):
            return isinstance(v.slice, ast.Slice) and self._container_expr(v.value)
        if isinstance(v, ast.BinOp):
            return self._container_expr(v.left) or self._container_expr(v.right)
        return False

    def _maybe_container(self, name, aug_value):
        """may the local `name` denote a list / dict / set (so that an augmented assignment mutates it in place)?"""
        if self._container_expr(aug_value):
            return True
        fn = getattr(self, "fn", None)
        if fn is None:
            return True
        for n in ast.walk(fn):
            if isinstance(n, ast.Assign) and any(isinstance(t, ast.Name) and t.id == name for t in n.targets) and self._container_expr(n.value):
                return True
            if isinstance(n, ast.AnnAssign) and isinstance(n.target, ast.Name) and n.target.id == name and n.value is not None and self._container_expr(n.value):
                return True
        return False

    def visit_Delete(self, node):
        for t in node.targets:
            if isinstance(t, (ast.Attribute, ast.Subscript)):
                self.add(node, "del", t.value, getattr(t, "attr", None))
        self.generic_visit(node)

    def visit_Call(self, node):
        f = node.func
        if isinstance(f, ast.Attribute) and f.attr in MUTATING_METHODS:
            fld = f.value.attr if isinstance(f.value, ast.Attribute) else None
            self.add(node, "mutate:" + f.attr, f.value, fld)
        if isinstance(f, ast.Name) and f.id in ("setattr", "delattr", "globals", "vars", "exec", "eval"):
            self.problems.append(f"{f.id}() at line {node.lineno}")
        if isinstance(f, ast.Attribute) and f.attr == "__dict__":
            self.problems.append(f"__dict__ access at line {node.lineno}")
        self.generic_visit(node)

    def visit_Attribute(self, node):
        if node.attr == "__dict__":
            self.problems.append(f"__dict__ access at line {node.lineno}")
        self.generic_visit(node)


def analyse_package(pkg="markdown_it"):
    """returns (sites, problems, functions)"""
    sites: list[Site] = []
    problems: list[tuple[str, str]] = []
    functions: list[str] = []
    for modname in S.all_package_modules(pkg):
        if any(modname == m or modname.startswith(m + ".") for m in SKIP_MODULES):
            continue
        mi = S.load_module(modname)
        module_globals = set(mi.globals) | set(mi.functions) | set(mi.classes)
        for qn, fn in mi.functions.items():
            parts = qn.split(".")
            cls = parts[-2] if len(parts) >= 2 and ".".join(parts[:-1]) in mi.classes else None
            # nested function: analysed within its parent
            if len(parts) >= 2 and ".".join(parts[:-1]) not in mi.classes:
                continue
            qual = f"{modname}.{qn}"
            ff = FuncFrame(mi, qual, fn, cls, module_globals)
            ff.visit(fn)
            functions.append(qual)
            sites.extend(ff.sites)
            problems.extend((qual, p) for p in ff.problems)
        # module-level instances of mutable package classes: an object built at import time is shared by everything that
        # receives it (a rule table of Rule objects handed to every Ruler would make `enabled` flags global)
        for node in mi.tree.body:
            val = node.value if isinstance(node, (ast.Assign, ast.AnnAssign)) else None
            if val is None:
                continue
            for call in [n for n in ast.walk(val) if isinstance(n, ast.Call) and isinstance(n.func, ast.Name)]:
                cname = call.func.id
                target = mi.imports.get(cname, f"{modname}.{cname}" if cname in mi.classes else None)
                if not target or not target.startswith(pkg + "."):
                    continue
                try:
                    cmod, _, ccls = target.rpartition(".")
                    cnode2 = S.load_module(cmod).classes.get(ccls)
                except S.SourceError:
                    cnode2 = None
                if cnode2 is None:
                    continue
                if _is_frozen_dataclass(cnode2) or _is_namedtuple_like(cnode2):
                    continue
                tname = ast.unparse(node.targets[0]) if isinstance(node, ast.Assign) else ast.unparse(node.target)
                problems.append((f"{modname}.{tname}", f"module-level instance of mutable class {ccls} in `{tname}` at line {node.lineno}"))
        # class-level mutable attributes
        for cn, cnode in mi.classes.items():
            for item in cnode.body:
                tgt = None
                val = None
                if isinstance(item, ast.Assign) and len(item.targets) == 1 and isinstance(item.targets[0], ast.Name):
                    tgt, val = item.targets[0].id, item.value
                elif isinstance(item, ast.AnnAssign) and isinstance(item.target, ast.Name) and item.value is not None:
                    tgt, val = item.target.id, item.value
                if tgt and isinstance(val, (ast.List, ast.Dict, ast.Set)) and not _is_dataclass(cnode):
                    problems.append((f"{modname}.{cn}", f"class-level mutable attribute {tgt} at line {item.lineno}"))
    return sites, problems, functions


def _is_dataclass(cnode):
    for d in cnode.decorator_list:
        n = d.func if isinstance(d, ast.Call) else d
        name = n.id if isinstance(n, ast.Name) else getattr(n, "attr", "")
        if "dataclass" in name:
            return True
    return False


def _is_frozen_dataclass(cnode):
    for d in cnode.decorator_list:
        if isinstance(d, ast.Call):
            n = d.func
            name = n.id if isinstance(n, ast.Name) else getattr(n, "attr", "")
            if "dataclass" in name and any(k.arg == "frozen" and isinstance(k.value, ast.Constant) and k.value.value is True for k in d.keywords):
                return True
    return False


def _is_namedtuple_like(cnode):
    return any((isinstance(b, ast.Name) and b.id in ("NamedTuple", "Enum", "IntEnum", "Exception")) or (isinstance(b, ast.Attribute) and b.attr in ("NamedTuple", "Enum")) for b in cnode.bases)


def allowed_regions(func: str) -> set[str]:
    base = {"CALL", "ENV", "FRESH", "IMMUTABLE"}
    if func in CONFIG_WRITERS:
        return base | {"MD", "ARG"}
    if func.startswith(OPTION_SETTERS_PREFIX):
        return base | {"MD"}
    return base


def frame_obligations(prop_filter=None):
    """FRAME obligations for every write site.  Returns list of dicts {oid, verdict, info, func, line}."""
    sites, problems, functions = analyse_package()
    obs = []
    counts: dict = {}
    for s in sites:
        k = counts.get((s.func, s.kind), 0)
        counts[(s.func, s.kind)] = k + 1
        oid = f"{s.func}/FRAME/{s.kind}#{k}:{s.target[:40]}"
        allowed = allowed_regions(s.func)
        verdict = "discharged"
        info = f"writes {s.region} via `{s.target}` (line {s.line})"
        if s.region in ("UNKNOWN", "CALLRESULT", "ARG") and s.region not in allowed:
            verdict = "undecided"
        elif s.region not in allowed:
            # the one permitted instance write on the parse path
            if s.func in CACHE_WRITERS and s.region == "MD" and (s.field in CACHE_WRITERS[s.func] or s.target in ("self",) and s.field in CACHE_WRITERS[s.func]):
                verdict = "discharged"
                info += " [Ruler.__cache__: value determined by __rules__ (C11), unobservable]"
            else:
                verdict = "failed"
        obs.append({"oid": oid, "verdict": verdict, "info": info, "func": s.func, "line": s.line, "kind": "FRAME", "site": s})
    # ownership (DESIGN 2.3): a field of instance state that is ever written *through* (self._options[k] = v,
    # self.rules[name] = f, self.__rules__.insert(...)) may only be assigned an object created for this instance - otherwise a
    # preset dictionary or a caller's mapping becomes the live state of one or several instances
    through = {s.field for s in sites if s.region == "MD" and s.kind != "store-attr" and s.field}
    oc: dict = {}
    for s in sites:
        if s.kind == "store-attr" and s.region == "MD" and s.field in through and s.field != "__cache__":
            k = oc.get((s.func, s.field), 0)
            oc[(s.func, s.field)] = k + 1
            ok = s.value_region in ("FRESH", "IMMUTABLE")
            obs.append({"oid": f"{s.func}/FRAME/ownership:{s.field}#{k}", "verdict": "discharged" if ok else "failed", "func": s.func, "line": s.line, "kind": "FRAME", "site": s,
                        "info": f"line {s.line}: `{s.target}.{s.field}` (written through elsewhere) is assigned " + ("an object created here" if ok else f"an object of region {s.value_region} - not a private copy")})
    for func, p in problems:
        obs.append({"oid": f"{func}/FRAME/discipline:{p[:50]}", "verdict": "failed", "info": p, "func": func, "line": 0, "kind": "FRAME", "site": None})
    return obs, functions, sites


ENV_WRITERS = {"markdown_it.rules_block.reference.reference"}


def env_writer_obligations():
    """FRAME/env-writer: the caller's env is written by the reference rule only (a definition being recorded). So a block
    parse of a text without definitions leaves env exactly as an inline-only parse does (C18), and what env holds after a
    parse is the definitions and nothing else (C16)."""
    sites, _, _ = analyse_package()
    obs, cnt = [], {}
    for s in sites:
        if s.region != "ENV":
            continue
        k = cnt.get(s.func, 0)
        cnt[s.func] = k + 1
        ok = s.func in ENV_WRITERS
        obs.append({"oid": f"{s.func}/FRAME/env-writer#{k}", "verdict": "discharged" if ok else "failed", "func": s.func, "line": s.line, "kind": "FRAME",
                    "info": f"line {s.line}: `{s.target}` ({s.kind}) - " + ("the reference rule records a definition" if ok else "env is written outside the reference rule")})
    if not obs:
        obs.append({"oid": "markdown_it.rules_block.reference.reference/FRAME/env-writer", "verdict": "undecided", "func": "markdown_it.rules_block.reference.reference", "line": 0, "kind": "FRAME",
                    "info": "no write to env found at all (the analysis no longer recognises the reference rule's stores)"})
    return obs


def add_env_writer_obligations(rep, prop):
    from .report import Ob

    for o in env_writer_obligations():
        rep.obs.append(Ob(oid=f"{prop}/{o['oid']}", kind="FRAME", func=o["func"], backend="frame", verdict=o["verdict"], info=o["info"], line=o["line"], solver="region-typing"))
        if o["verdict"] == "failed":
            w = None
            try:
                from markdown_it import MarkdownIt

                for preset in ("commonmark", "js-default"):
                    md = MarkdownIt(preset)
                    for doc in ("[`a`][`", "[a][b]", "a", "[x]"):
                        e1, e2 = {}, {}
                        t1 = md.parse(doc, e1)
                        t2 = md.parseInline(doc, e2)
                        c1 = [c.as_dict() for t in t1 if t.type == "inline" for c in (t.children or [])]
                        c2 = [c.as_dict() for c in (t2[0].children or [])]
                        if e1 != e2 or c1 != c2:
                            w = {"preset": preset, "doc": doc, "env_after_parse": repr(e1), "env_after_parseInline": repr(e2), "children_equal": c1 == c2}
                            break
                    if w:
                        break
            except Exception:  # noqa: BLE001
                pass
            rep.replays[f"{prop}/{o['oid']}"] = {"lifted": {"arguments": w} if w else {}, "observed": {"outcome": "parse and parseInline leave different env / children" if w else "no distinguishing document among the candidates"}, "replayed": bool(w)}


# ------------------------------------------------------------------------------------------------ strong invariant (C13)
def si_obligations():
    """SI obligations for Ruler.getRules / __compile__ (DESIGN.md 4 C13): only None or the complete compiled table is
    ever published in self.__cache__, and nothing reachable from it is mutated after publication.
      SI/store#k   : a store `self.__cache__ = E` has E == None, or E is a local name that is not mutated by any
                     statement that can execute after the store (the store is the last effect on that object)
      SI/no-mutate : no statement mutates through the field (self.__cache__[..] = .., self.__cache__.append ...)
    Returns list of dicts like frame_obligations."""
    mi = S.load_module("markdown_it.ruler")
    obs = []
    for meth in ("getRules", "__compile__"):
        fn = mi.functions.get("Ruler." + meth)
        qual = "markdown_it.ruler.Ruler." + meth
        if fn is None:
            obs.append({"oid": f"{qual}/SI/exists", "verdict": "undecided", "info": "function not found", "func": qual, "line": 0, "kind": "SI"})
            continue
        # linearise statements in execution order (loops: a statement in a loop body can execute after any other in it)
        stmts = []

        def walk(body, loop_ids):
            for st in body:
                stmts.append((st, tuple(loop_ids)))
                for fld in ("body", "orelse", "finalbody"):
                    sub = getattr(st, fld, None)
                    if sub and isinstance(sub, list) and isinstance(st, (ast.For, ast.While, ast.If, ast.Try, ast.With)):
                        walk(sub, loop_ids + ([id(st)] if isinstance(st, (ast.For, ast.While)) else []))
                for h in getattr(st, "handlers", []) or []:
                    walk(h.body, loop_ids)

        walk(fn.body, [])

        def is_cache(e):
            return isinstance(e, ast.Attribute) and e.attr == "__cache__" and isinstance(e.value, ast.Name) and e.value.id == "self"

        def mutates_name(st, name):
            for n in ast.walk(st):
                if isinstance(n, (ast.Assign, ast.AugAssign)):
                    for t in (n.targets if isinstance(n, ast.Assign) else [n.target]):
                        if isinstance(t, ast.Subscript):
                            r = t.value
                            while isinstance(r, (ast.Subscript, ast.Attribute)):
                                r = r.value
                            if isinstance(r, ast.Name) and r.id == name:
                                return True
                if isinstance(n, ast.Call) and isinstance(n.func, ast.Attribute) and n.func.attr in MUTATING_METHODS:
                    r = n.func.value
                    while isinstance(r, (ast.Subscript, ast.Attribute)):
                        r = r.value
                    if isinstance(r, ast.Name) and r.id == name:
                        return True
            return False

        # aliases of the published table: locals bound to (parts of) self.__cache__
        aliases: set[str] = set()

        def rooted(e):
            while isinstance(e, (ast.Subscript, ast.Attribute, ast.Call)):
                if is_cache(e):
                    return True
                if isinstance(e, ast.Call):
                    e = e.func
                    continue
                e = e.value
            return is_cache(e) or (isinstance(e, ast.Name) and e.id in aliases)

        for _ in range(3):
            for st, _lp in stmts:
                if isinstance(st, ast.Assign):
                    if rooted(st.value) or any(rooted(t) for t in st.targets if not isinstance(t, ast.Name)):
                        for t in st.targets:
                            if isinstance(t, ast.Name):
                                aliases.add(t.id)
        for st, _lp in stmts:
            if isinstance(st, (ast.For, ast.While, ast.If, ast.Try, ast.With)):
                continue
            for a in sorted(aliases):
                if mutates_name(st, a):
                    obs.append({"oid": f"{qual}/SI/no-mutate@alias:{a}", "verdict": "failed", "func": qual, "line": st.lineno, "kind": "SI",
                                "info": f"`{a}` aliases the published table and is mutated at line {st.lineno}: `{ast.unparse(st)[:60]}`"})
                    break
        k = 0
        for idx, (st, loops) in enumerate(stmts):
            # mutation through the field
            for n in ast.walk(st) if not isinstance(st, (ast.For, ast.While, ast.If, ast.Try, ast.With)) else []:
                tgt = None
                if isinstance(n, (ast.Assign, ast.AugAssign)):
                    for t in (n.targets if isinstance(n, ast.Assign) else [n.target]):
                        if isinstance(t, ast.Subscript):
                            r = t.value
                            while isinstance(r, ast.Subscript):
                                r = r.value
                            if is_cache(r):
                                tgt = t
                if isinstance(n, ast.Call) and isinstance(n.func, ast.Attribute) and n.func.attr in MUTATING_METHODS:
                    r = n.func.value
                    while isinstance(r, ast.Subscript):
                        r = r.value
                    if is_cache(r):
                        tgt = n
                if tgt is not None:
                    obs.append({"oid": f"{qual}/SI/no-mutate@{ast.unparse(tgt)[:40]}", "verdict": "failed", "func": qual, "line": st.lineno, "kind": "SI",
                                "info": f"the published table is mutated in place: `{ast.unparse(tgt)[:60]}` (line {st.lineno})"})
            if isinstance(st, ast.Assign) and any(is_cache(t) for t in st.targets):
                v = st.value
                oid = f"{qual}/SI/store#{k}"
                k += 1
                if isinstance(v, ast.Constant) and v.value is None:
                    obs.append({"oid": oid, "verdict": "discharged", "func": qual, "line": st.lineno, "kind": "SI", "info": "publishes None"})
                elif isinstance(v, ast.Name):
                    later = [s for j, (s, lp) in enumerate(stmts) if (j > idx or (set(lp) & set(loops))) and s is not st
                             and not isinstance(s, (ast.For, ast.While, ast.If, ast.Try, ast.With))]
                    bad = [s for s in later if mutates_name(s, v.id)]
                    if bad:
                        obs.append({"oid": oid, "verdict": "failed", "func": qual, "line": st.lineno, "kind": "SI",
                                    "info": f"`{v.id}` is published at line {st.lineno} and still mutated at line {bad[0].lineno}"})
                    else:
                        obs.append({"oid": oid, "verdict": "discharged", "func": qual, "line": st.lineno, "kind": "SI",
                                    "info": f"publishes local `{v.id}`, which no later statement mutates"})
                else:
                    # a literal / call result: complete only if nothing mutates the field afterwards (covered by no-mutate)
                    empty = isinstance(v, (ast.Dict, ast.List)) and not (getattr(v, "keys", None) or getattr(v, "elts", None))
                    obs.append({"oid": oid, "verdict": "failed" if empty else "undecided", "func": qual, "line": st.lineno, "kind": "SI",
                                "info": f"publishes `{ast.unparse(v)[:40]}`" + (" (an empty table, filled afterwards)" if empty else "")})
        if not any(o["func"] == qual and "no-mutate" in o["oid"] for o in obs):
            obs.append({"oid": f"{qual}/SI/no-mutate", "verdict": "discharged", "func": qual, "line": fn.lineno, "kind": "SI",
                        "info": "no statement mutates through self.__cache__"})
    # readers of the cache lists never mutate them: the lists returned by getRules are only iterated
    sites, _, _ = analyse_package()
    for s in sites:
        pass
    return obs


# ------------------------------------------------------------------------------------------------ renderer ownership (C15)
def renderer_ownership_obligations():
    """The renderer may mutate only (a) the `alt` attribute of the image token it renders and (b) objects it created
    itself with their own attribute storage: a temporary Token must be constructed with `attrs=<...>.copy()` (or a
    literal) before attrJoin/attrSet/attrPush is applied to it."""
    obs = []
    mi = S.load_module("markdown_it.renderer")
    for qn, fn in mi.functions.items():
        if not qn.startswith("RendererHTML."):
            continue
        q = f"markdown_it.renderer.{qn}"
        for n in ast.walk(fn):
            if isinstance(n, ast.Call) and isinstance(n.func, ast.Attribute) and n.func.attr in ("attrJoin", "attrPush", "attrSet") and isinstance(n.func.value, ast.Name):
                var = n.func.value.id
                creation = None
                for m in ast.walk(fn):
                    if isinstance(m, ast.Assign) and m.lineno <= n.lineno and any(isinstance(t, ast.Name) and t.id == var for t in m.targets):
                        if creation is None or m.lineno >= creation.lineno:
                            creation = m
                ok = False
                why = "receiver of unknown origin"
                if creation is not None:
                    v = creation.value
                    if isinstance(v, ast.Call) and getattr(v.func, "id", "") == "Token":
                        kw = {k.arg: k.value for k in v.keywords}
                        a = kw.get("attrs")
                        ok = a is None or isinstance(a, ast.Dict) or (isinstance(a, ast.Call) and isinstance(a.func, ast.Attribute) and a.func.attr == "copy")
                        why = "a Token the function built with its own attrs" if ok else f"a Token built with attrs={ast.unparse(a)} (shared with the rendered token)"
                    elif isinstance(v, ast.Subscript) and n.func.attr == "attrSet" and n.args and isinstance(n.args[0], ast.Constant) and n.args[0].value == "alt" and qn.endswith(".image"):
                        ok, why = True, "the image token's alt attribute (idempotent: a function of the children)"
                    else:
                        why = f"`{ast.unparse(v)[:40]}`: not a freshly built Token with its own attrs"
                obs.append({"oid": f"{q}/FRAME/ownership:{var}.{n.func.attr}@L{n.lineno}", "verdict": "discharged" if ok else "failed", "func": q, "line": n.lineno, "kind": "FRAME",
                            "info": f"line {n.lineno}: {var}.{n.func.attr}(...) mutates {why}"})
    return obs
