"""Bounded oracles (DESIGN.md Appendix E): the property statements as executable relations on the real API.
Each check(state, cfg, doc) returns {"sig": ..., "fail": [{"what":..., "key":...}]}.  Stand-ins only."""
from __future__ import annotations

import re

from . import universe as U
from .checks import _md, tok_sig


def _norm_src(s: str) -> str:
    return re.sub(r"\r\n|\r", "\n", s).replace("\0", "�")


def _blank(line: str) -> bool:
    return line.strip(" \t") == ""


# ============================================================================ C02
def _check_stream(ts, block: bool, fails: list, where: str, is_wrapper=False):
    stack = []
    depth = 0
    prev_text = False
    for i, t in enumerate(ts):
        if t.nesting == -1:
            depth -= 1
            if depth < 0 or not stack:
                fails.append({"what": f"{where}: depth negative at token {i} ({t.type})", "key": "C02/balance"})
                return
            o = stack.pop()
            stem_o = o.type[:-5] if o.type.endswith("_open") else None
            stem_c = t.type[:-6] if t.type.endswith("_close") else None
            if stem_o is None or stem_o != stem_c or o.tag != t.tag or o.markup != t.markup:
                fails.append({"what": f"{where}: {o.type}<{o.tag}>[{o.markup!r}] closed by {t.type}<{t.tag}>[{t.markup!r}]", "key": "C02/pairing"})
        if t.level != depth:
            fails.append({"what": f"{where}: token {i} ({t.type}) has level {t.level} at depth {depth}", "key": "C02/level"})
        if t.nesting == 1:
            stack.append(t)
            depth += 1
        if block and not is_wrapper and not t.block:
            fails.append({"what": f"{where}: block-level token {t.type} not flagged block", "key": "C02/block-flag"})
        if not block and t.block:
            fails.append({"what": f"{where}: inline token {t.type} flagged block", "key": "C02/block-flag"})
        if t.type == "text_special":
            fails.append({"what": f"{where}: placeholder token text_special survived", "key": "C02/text_special"})
        if not block:
            if t.type == "text" and prev_text:
                fails.append({"what": f"{where}: adjacent text tokens not merged", "key": "C02/adjacent-text"})
            prev_text = t.type == "text"
        if t.children is not None and t.type not in ("inline", "image"):
            if t.children:
                fails.append({"what": f"{where}: {t.type} carries children", "key": "C02/children"})
        if t.type in ("inline", "image") and t.children:
            _check_stream(t.children, False, fails, where + "/" + t.type)
    if depth != 0:
        fails.append({"what": f"{where}: stream ends at depth {depth}", "key": "C02/balance"})


def c02_stream(state, cfg, doc):
    from markdown_it.tree import SyntaxTreeNode

    md = _md(state, cfg)
    fails: list = []
    toks = md.parse(doc)
    _check_stream(toks, True, fails, "parse")
    try:
        SyntaxTreeNode(toks)
    except Exception as e:  # noqa: BLE001
        fails.append({"what": f"SyntaxTreeNode(tokens) raised {type(e).__name__}: {e}", "key": "C02/tree"})
    if "\n" not in doc:
        it = md.parseInline(doc)
        _check_stream(it, True, fails, "parseInline", is_wrapper=True)
    return {"sig": tok_sig(toks) + tuple(c.type for t in toks if t.children for c in t.children), "fail": fails[:5]}


# ============================================================================ C03
LEAF_END_NONBLANK = {"paragraph_open", "heading_open", "hr", "code_block", "tr_open"}


def c03_maps(state, cfg, doc):
    md = _md(state, cfg)
    env: dict = {}
    toks = md.parse(doc, env)
    src = _norm_src(doc)
    lines = src.split("\n")
    if lines and lines[-1] == "":
        lines = lines[:-1]
    nl = len(lines)
    fails = []
    stack = []  # maps of open containers
    prev_end = [0]  # per depth: end of preceding sibling
    covered = [False] * nl
    for t in toks:
        if t.nesting == -1:
            if stack:
                stack.pop()
                prev_end.pop()
            continue
        m = t.map
        if m is not None:
            b, e = m
            if not (0 <= b < e <= nl):
                fails.append({"what": f"{t.type} map {m} out of range / empty (lines={nl})", "key": "C03/range"})
            else:
                if t.type != "inline" and _blank(lines[b]) :
                    fails.append({"what": f"{t.type} map {m} starts on a blank line", "key": "C03/start-blank"})
                if t.type in LEAF_END_NONBLANK and _blank(lines[e - 1]):
                    fails.append({"what": f"{t.type} map {m} ends on a blank line", "key": "C03/end-blank"})
                if stack and stack[-1] is not None:
                    pb, pe = stack[-1]
                    if not (pb <= b and e <= pe):
                        fails.append({"what": f"{t.type} map {m} not inside its container {stack[-1]}", "key": "C03/nesting"})
                if t.type != "inline":
                    if b < prev_end[-1]:
                        fails.append({"what": f"{t.type} map {m} starts before the end ({prev_end[-1]}) of the preceding sibling", "key": "C03/order"})
                    prev_end[-1] = e
                if t.level == 0:
                    for k in range(b, e):
                        covered[k] = True
                if t.type == "inline":
                    clines = t.content.split("\n")
                    if len(clines) != e - b:
                        fails.append({"what": f"inline map {m} spans {e - b} lines but content has {len(clines)}", "key": "C03/inline-span"})
                    else:
                        for i, cl in enumerate(clines):
                            s = cl.strip(" \t")
                            if s and s not in lines[b + i]:
                                fails.append({"what": f"inline content line {i} {s!r} does not occur in source line {b + i}", "key": "C03/inline-lines"})
                                break
        if t.nesting == 1:
            stack.append(tuple(m) if m is not None else (stack[-1] if stack else None))
            prev_end.append(m[0] if m is not None else (prev_end[-1]))
    for ref in list((env.get("references") or {}).values()) + list(env.get("duplicate_refs") or []):
        m = ref.get("map")
        if m:
            if not (0 <= m[0] < m[1] <= nl):
                fails.append({"what": f"reference map {m} out of range", "key": "C03/ref-range"})
            else:
                for k in range(m[0], m[1]):
                    covered[k] = True
    for k in range(nl):
        if not covered[k] and not _blank(lines[k]):
            fails.append({"what": f"non-blank source line {k} {lines[k]!r} is in no top-level map or reference map", "key": "C03/coverage"})
            break
    return {"sig": tok_sig(toks), "fail": fails[:5]}


# ============================================================================ C08
def c08_verbatim(state, cfg, doc):
    md = _md(state, cfg)
    toks = md.parse(doc)
    src = _norm_src(doc)
    lines = src.split("\n")
    fails = []
    allowed_prefix = set(" \t>-+*.)0123456789")
    for t in toks:
        if t.map is None:
            continue
        b, e = t.map
        own = lines[b:e]
        if t.type in ("code_block", "fence", "html_block"):
            clines = t.content.split("\n")
            if clines and clines[-1] == "":
                clines = clines[:-1]
            srcl = own[1:] if t.type == "fence" else own
            for i, c in enumerate(clines):
                if i >= len(srcl):
                    fails.append({"what": f"{t.type} content has more lines than its map {t.map}", "key": "C08/content-lines"})
                    break
                body = c.lstrip(" ")
                sl = srcl[i]
                if not sl.endswith(body):
                    fails.append({"what": f"{t.type} content line {c!r} is not a suffix of source line {sl!r}", "key": "C08/content-suffix"})
                    break
                removed = sl[: len(sl) - len(body)]
                if any(ch not in allowed_prefix for ch in removed):
                    fails.append({"what": f"{t.type}: removed prefix {removed!r} is not indentation/markers", "key": "C08/content-prefix"})
                    break
        if t.type in ("fence", "hr", "heading_open", "bullet_list_open", "ordered_list_open", "list_item_open", "blockquote_open") and t.markup:
            joined = "\n".join(own)
            if t.type != "hr" and t.markup not in joined:
                fails.append({"what": f"{t.type} markup {t.markup!r} does not occur in its source lines {own!r}", "key": f"C08/markup/{t.type}"})
            if t.type == "hr":
                line = own[0].strip(" \t>")
                mk = t.markup[0]
                # the hr's own line is the innermost part of the source line after container markers
                cands = [lines[b][k:] for k in range(len(lines[b]) + 1)]
                if len(set(t.markup)) != 1 or not any(c.strip(" \t").replace(" ", "").replace("\t", "") == t.markup for c in cands):
                    fails.append({"what": f"hr markup {t.markup!r} does not have the marker count of its line {lines[b]!r}", "key": "C08/markup/hr-count"})
        if t.type == "fence" and t.info:
            if t.info not in own[0]:
                fails.append({"what": f"fence info {t.info!r} not in its opening line", "key": "C08/info"})
        if t.type == "list_item_open" and (t.info or t.markup in ".)"):
            if not (t.info.isascii() and t.info.isdigit() and re.search(r"(^|[^0-9])" + re.escape(t.info) + r"[.)]", lines[b])):
                fails.append({"what": f"list item info {t.info!r} is not the digits written in {lines[b]!r}", "key": "C08/list-info"})
        if t.type == "ordered_list_open":
            start = t.attrs.get("start", 1)
            first = next((x for x in toks[toks.index(t):] if x.type == "list_item_open"), None)
            if first is not None and first.info and int(first.info) != int(start):
                fails.append({"what": f"ordered list start {start} != first item digits {first.info}", "key": "C08/list-start"})
    # code spans
    for t in toks:
        for c in t.children or []:
            if c.type == "code_inline":
                raw = c.content
                if ("`" + raw + "`") not in src.replace("\n", " ") and raw and False:
                    pass
    return {"sig": tok_sig(toks), "fail": fails[:5]}


def c08_codespan(state, cfg, case):
    """case = the text between the backtick strings (no backtick inside). Spec: line endings -> spaces; one
    padding space stripped from each side iff both present and the text is not all U+0020."""
    md = _md(state, cfg)
    inner = case
    toks = md.parseInline("`" + inner + "`")
    kids = toks[0].children or []
    if len(kids) != 1 or kids[0].type != "code_inline":
        return {"sig": ("notspan",), "fail": []}
    exp = inner.replace("\n", " ")
    if len(exp) >= 2 and exp[0] == " " and exp[-1] == " " and exp.strip(" ") != "":
        exp = exp[1:-1]
    fails = []
    if kids[0].content != exp:
        fails.append({"what": f"code span of {inner!r} has content {kids[0].content!r}, expected {exp!r}", "key": "C08/codespan"})
    return {"sig": (exp[:2], len(exp)), "fail": fails}


# ============================================================================ C15
def c15_roundtrip(state, cfg, doc):
    from markdown_it.token import Token
    from markdown_it.tree import SyntaxTreeNode

    md = _md(state, cfg)
    toks = md.parse(doc)
    fails = []
    opts = md.options
    html1 = md.renderer.render(toks, opts, {})
    snap = [t.as_dict() for t in toks]
    html2 = md.renderer.render(toks, opts, {})
    if html1 != html2:
        fails.append({"what": "rendering the same token stream twice gives different output", "key": "C15/repeat"})
    if [t.as_dict() for t in toks] != snap:
        # the renderer may write image alt; anything else is a change
        def strip_alt(d):
            d = dict(d)
            if d.get("type") == "image" and d.get("attrs"):
                d["attrs"] = {k: v for k, v in d["attrs"].items() if k != "alt"}
            if d.get("children"):
                d["children"] = [strip_alt(c) for c in d["children"]]
            return d
        if [strip_alt(t.as_dict()) for t in toks] != [strip_alt(s) for s in snap]:
            fails.append({"what": "rendering changed the tokens (beyond the image alt attribute)", "key": "C15/render-mutates"})
    for up in (False, True):
        back = [Token.from_dict(t.as_dict(as_upstream=up)) for t in toks]
        if back != toks:
            fails.append({"what": f"from_dict(as_dict(as_upstream={up})) != token", "key": "C15/dict-roundtrip"})
        elif md.renderer.render(back, opts, {}) != html1:
            fails.append({"what": f"round-tripped tokens (as_upstream={up}) render differently", "key": "C15/dict-render"})
    try:
        tree = SyntaxTreeNode(toks)
        if tree.to_tokens() != toks:
            fails.append({"what": "SyntaxTreeNode(tokens).to_tokens() != tokens", "key": "C15/tree-roundtrip"})
        order = []
        for n in tree.walk():
            if n.type == "root":
                continue
            order.append(n.token if n.token else n.nester_tokens.opening)
        flat = [t for t in toks if t.nesting != -1]
        # walk also descends into inline children
        def flat_all(ts):
            for t in ts:
                if t.nesting == -1:
                    continue
                yield t
                if t.children:
                    yield from flat_all(t.children)
        if [id(x) for x in order] != [id(x) for x in flat_all(toks)]:
            fails.append({"what": "depth-first walk does not follow stream order", "key": "C15/walk-order"})
        for n in tree.walk():
            for i, ch in enumerate(n.children):
                if ch.parent is not n:
                    fails.append({"what": "child.parent is not the node", "key": "C15/links"})
                    break
                sib = ch.siblings
                if sib[i] is not ch or (i > 0 and ch.previous_sibling is not sib[i - 1]) or (i + 1 < len(sib) and ch.next_sibling is not sib[i + 1]):
                    fails.append({"what": "sibling links inconsistent", "key": "C15/links"})
                    break
    except Exception as e:  # noqa: BLE001
        fails.append({"what": f"SyntaxTreeNode raised {type(e).__name__}: {e}", "key": "C15/tree"})
    return {"sig": tok_sig(toks), "fail": fails[:5]}
