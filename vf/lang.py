"""Language back end (DESIGN.md 2.3): LANG obligations.  A string-valued function of the real source is executed
symbolically into a regular-language term (literals, callee languages, unions for branches, stars for accumulating
loops); the obligation L(term) is-subset-of L(contract) is a regular-language inclusion decided by z3's regex solver.
escapeHtml (a chain of one-character str.replace) is handled by the homomorphism lemma."""
from __future__ import annotations

import ast
import html as _html
import time

import z3

from . import src as S
from .report import Ob

R = "markdown_it.renderer.RendererHTML."
SS = z3.StringSort()


def lit(s):
    return z3.Re(z3.StringVal(s)) if s else z3.Re(z3.StringVal(""))


def cat(*rs):
    rs = [r for r in rs if r is not None]
    if not rs:
        return lit("")
    if len(rs) == 1:
        return rs[0]
    return z3.Concat(*rs)


def union(*rs):
    rs = list(rs)
    if len(rs) == 1:
        return rs[0]
    return z3.Union(*rs)


ANY = z3.Full(z3.ReSort(SS))
NOSPECIAL = z3.Complement(z3.Concat(ANY, z3.Union(lit("<"), lit(">"), lit('"'), lit("&")), ANY))  # strings without < > " &
ESC_ATOM = z3.Union(z3.Intersect(z3.AllChar(z3.ReSort(SS)), NOSPECIAL), lit("&amp;"), lit("&lt;"), lit("&gt;"), lit("&quot;"))
ESC = z3.Star(ESC_ATOM)
ATTR = cat(lit(" "), ESC, lit('="'), ESC, lit('"'))
ATTRS = z3.Star(ATTR)


def tag_language(tags):
    return union(*[lit(t) for t in sorted(tags)])


def safe_language(tags):
    T = tag_language(tags)
    opn = cat(z3.Option(lit("\n")), lit("<"), T, ATTRS, z3.Option(lit(" /")), lit(">"), z3.Option(lit("\n")))
    # renderToken prints renderAttrs for every token; closing tokens carry no attributes (attr-site obligations),
    # so for them the ATTRS part is empty
    cls = cat(z3.Option(lit("\n")), lit("</"), T, ATTRS, lit(">"), z3.Option(lit("\n")))
    return z3.Star(z3.Union(opn, cls, ESC_ATOM, lit("\n"))), union(opn, cls, lit(""))


def included(sub, sup, timeout_ms=20000):
    """L(sub) subset of L(sup)?  returns (verdict, witness, seconds)"""
    x = z3.String("x")
    s = z3.Solver()
    s.set("timeout", timeout_ms)
    s.add(z3.InRe(x, sub), z3.Not(z3.InRe(x, sup)))
    t0 = time.time()
    r = s.check()
    dt = time.time() - t0
    if r == z3.unsat:
        return "discharged", "", dt
    if r == z3.sat:
        return "failed", s.model()[x].as_string(), dt
    return "undecided", "", dt


# ------------------------------------------------------------------------------------------------ escapeHtml
def escape_obligations():
    """homomorphism lemma for a chain of one-character str.replace: h(s) = h(c1)h(c2)...; so
       image(h) subset of ESC  iff  every special character is replaced and each h(c) is an escape that html.unescape
       maps back to c (rejects a missing and a double escape)."""
    obs = []
    mi, fn, canon = S.resolve_function("markdown_it.common.utils.escapeHtml")
    chain = []
    ok_shape = True
    param = fn.args.args[0].arg
    for st in fn.body:
        if isinstance(st, ast.Expr) and isinstance(st.value, ast.Constant):
            continue
        if isinstance(st, ast.Assign) and len(st.targets) == 1 and isinstance(st.targets[0], ast.Name) and st.targets[0].id == param:
            v = st.value
            calls = []
            while isinstance(v, ast.Call) and isinstance(v.func, ast.Attribute) and v.func.attr == "replace" and len(v.args) == 2 and all(isinstance(a, ast.Constant) and isinstance(a.value, str) for a in v.args):
                calls.append((v.args[0].value, v.args[1].value))
                v = v.func.value
            if not (isinstance(v, ast.Name) and v.id == param):
                ok_shape = False
            chain.extend(reversed(calls))
        elif isinstance(st, ast.Return):
            v = st.value
            calls = []
            while isinstance(v, ast.Call) and isinstance(v.func, ast.Attribute) and v.func.attr == "replace" and len(v.args) == 2 and all(isinstance(a, ast.Constant) and isinstance(a.value, str) for a in v.args):
                calls.append((v.args[0].value, v.args[1].value))
                v = v.func.value
            if not (isinstance(v, ast.Name) and v.id == param):
                ok_shape = False
            chain.extend(reversed(calls))
        else:
            ok_shape = False
    if not ok_shape or any(len(a) != 1 for a, _ in chain):
        obs.append({"oid": f"{canon}/LANG/shape", "verdict": "undecided", "info": "escapeHtml is not a chain of one-character str.replace", "func": canon})
        return obs

    def h(c):
        s = c
        for a, b in chain:
            s = s.replace(a, b)
        return s

    replaced = {a for a, _ in chain}
    for c in '<>"&':
        img = h(c)
        good = c in replaced and img in ("&amp;", "&lt;", "&gt;", "&quot;") and _html.unescape(img) == c
        obs.append({"oid": f"{canon}/LANG/h({c})", "verdict": "discharged" if good else "failed", "func": canon,
                    "info": f"h({c!r}) = {img!r}" + ("" if good else " is not the escape of that character (missing, wrong order or double escape)"), "witness": c})
    # a generic character is left alone: no replaced character outside the four specials changes meaning
    for a in sorted(replaced - set('<>"&')):
        img = h(a)
        good = _html.unescape(img) == a and not any(ch in img for ch in '<>"') and ("&" not in img or img.startswith("&"))
        obs.append({"oid": f"{canon}/LANG/h({a})", "verdict": "discharged" if good else "failed", "func": canon, "info": f"h({a!r}) = {img!r}", "witness": a})
    # interaction: the image of a string of specials (checks order effects the per-character view could miss)
    probe = '&<>"&amp;<'
    good = _html.unescape(h(probe)) == probe
    obs.append({"oid": f"{canon}/LANG/homomorphism-probe", "verdict": "discharged" if good else "failed", "func": canon, "info": f"h({probe!r}) = {h(probe)!r}", "witness": probe})
    return obs


# ------------------------------------------------------------------------------------------------ abstract interpreter
class LangInterp:
    """evaluates a renderer method into a regular language. Unknown string-valued things are ANY."""

    def __init__(self, mi, contracts, assume_no_highlight=True):
        self.mi, self.contracts = mi, contracts
        self.assume_no_highlight = assume_no_highlight
        self.notes = []

    def expr(self, e, env):
        if isinstance(e, ast.Constant) and isinstance(e.value, str):
            return lit(e.value)
        if isinstance(e, ast.Name):
            return env.get(e.id, ANY)
        if isinstance(e, ast.BinOp) and isinstance(e.op, ast.Add):
            return cat(self.expr(e.left, env), self.expr(e.right, env))
        if isinstance(e, ast.IfExp):
            d = self.decide(e.test)
            if d is True:
                return self.expr(e.body, env)
            if d is False:
                return self.expr(e.orelse, env)
            return union(self.expr(e.body, env), self.expr(e.orelse, env))
        if isinstance(e, ast.BoolOp) and isinstance(e.op, ast.Or):
            return union(*[self.expr(v, env) for v in e.values])
        if isinstance(e, ast.Call):
            f = e.func
            name = f.id if isinstance(f, ast.Name) else (f.attr if isinstance(f, ast.Attribute) else None)
            if name == "escapeHtml":
                return ESC
            if isinstance(f, ast.Attribute) and isinstance(f.value, ast.Name) and f.value.id == "self" and name in self.contracts:
                return self.contracts[name]
            if isinstance(f, ast.Subscript) and isinstance(f.value, ast.Attribute) and f.value.attr == "rules":
                return self.contracts["<rules>"]
            if isinstance(f, ast.Attribute) and name == "highlight" and self.assume_no_highlight:
                return ESC
            return ANY
        if isinstance(e, ast.Attribute):
            return ANY
        if isinstance(e, ast.JoinedStr):
            return ANY
        return ANY

    facts: dict = {}

    def decide(self, t):
        """decide a test from the current facts (token.nesting == k); None when unknown"""
        if isinstance(t, ast.Compare) and len(t.ops) == 1 and isinstance(t.left, ast.Attribute) and t.left.attr == "nesting" and "nesting" in self.facts:
            rhs = t.comparators[0]
            val = None
            if isinstance(rhs, ast.Constant):
                val = rhs.value
            elif isinstance(rhs, ast.UnaryOp) and isinstance(rhs.op, ast.USub) and isinstance(rhs.operand, ast.Constant):
                val = -rhs.operand.value
            if val is not None:
                k = self.facts["nesting"]
                if isinstance(t.ops[0], ast.Eq):
                    return k == val
                if isinstance(t.ops[0], ast.NotEq):
                    return k != val
        if isinstance(t, ast.BoolOp) and isinstance(t.op, ast.And):
            ds = [self.decide(v) for v in t.values]
            if any(d is False for d in ds):
                return False
            if all(d is True for d in ds):
                return True
        return None

    def is_highlight_test(self, t):
        return isinstance(t, ast.Attribute) and t.attr == "highlight"

    def block(self, stmts, env, returns):
        """returns env at fall-through or None"""
        for st in stmts:
            if env is None:
                return None
            if isinstance(st, ast.Expr):
                continue
            if isinstance(st, ast.Assign) and len(st.targets) == 1 and isinstance(st.targets[0], ast.Name):
                env = dict(env)
                env[st.targets[0].id] = self.expr(st.value, env)
            elif isinstance(st, ast.AnnAssign) and isinstance(st.target, ast.Name) and st.value is not None:
                env = dict(env)
                env[st.target.id] = self.expr(st.value, env)
            elif isinstance(st, ast.AugAssign) and isinstance(st.target, ast.Name) and isinstance(st.op, ast.Add):
                env = dict(env)
                env[st.target.id] = cat(env.get(st.target.id, ANY), self.expr(st.value, env))
            elif isinstance(st, ast.Return):
                returns.append(self.expr(st.value, env) if st.value is not None else lit(""))
                return None
            elif isinstance(st, ast.If):
                if self.assume_no_highlight and self.is_highlight_test(st.test):
                    self.notes.append("branch `if options.highlight` assumed not taken (highlight is None)")
                    env = self.block(st.orelse, env, returns)
                    continue
                d = self.decide(st.test)
                if d is True:
                    env = self.block(st.body, dict(env), returns)
                    continue
                if d is False:
                    env = self.block(st.orelse, dict(env), returns)
                    continue
                e1 = self.block(st.body, dict(env), returns)
                e2 = self.block(st.orelse, dict(env), returns)
                if e1 is None:
                    env = e2
                elif e2 is None:
                    env = e1
                else:
                    env = {k: (union(e1[k], e2[k]) if (k in e1 and k in e2 and not e1[k].eq(e2[k])) else e1.get(k, e2.get(k))) for k in set(e1) | set(e2)}
            elif isinstance(st, (ast.For, ast.While)):
                # accumulating loop: v += piece  ==>  v := v . (pieces)*
                pieces: dict[str, list] = {}
                body_env = dict(env)
                inner_returns: list = []
                self.loop_body(st.body, body_env, pieces, inner_returns)
                returns.extend(inner_returns)
                env = dict(env)
                for v, ps in pieces.items():
                    env[v] = cat(env.get(v, ANY), z3.Star(union(*ps)) if ps else lit(""))
            elif isinstance(st, (ast.Assign, ast.AugAssign, ast.AnnAssign, ast.Pass)):
                continue
            else:
                continue
        return env

    def loop_body(self, stmts, env, pieces, returns):
        for st in stmts:
            if isinstance(st, ast.AugAssign) and isinstance(st.target, ast.Name) and isinstance(st.op, ast.Add):
                pieces.setdefault(st.target.id, []).append(self.expr(st.value, env))
            elif isinstance(st, ast.Assign) and len(st.targets) == 1 and isinstance(st.targets[0], ast.Name):
                env[st.targets[0].id] = self.expr(st.value, env)
            elif isinstance(st, ast.If):
                self.loop_body(st.body, env, pieces, returns)
                self.loop_body(st.orelse, env, pieces, returns)
            elif isinstance(st, (ast.For, ast.While)):
                self.loop_body(st.body, env, pieces, returns)
            elif isinstance(st, ast.Return):
                returns.append(self.expr(st.value, env) if st.value is not None else lit(""))

    def function_language(self, fn, tag_lang):
        env = {}
        for a in fn.args.args:
            env[a.arg] = ANY
        env["__tag__"] = tag_lang
        returns: list = []
        self.block(fn.body, env, returns)
        return union(*returns) if returns else lit("")


def collect_tags():
    """literal tag arguments of every push()/Token() site of the package (the renderer's element vocabulary);
    returns (tags, problems, empty_tag_types)"""
    tags = set()
    problems = []
    empty_types = set()
    for modname in S.all_package_modules():
        if modname.startswith(("markdown_it.cli", "markdown_it.tree", "markdown_it.renderer")):
            continue
        mi = S.load_module(modname)
        for n in ast.walk(mi.tree):
            if isinstance(n, ast.Call):
                f = n.func
                nm = f.attr if isinstance(f, ast.Attribute) else (f.id if isinstance(f, ast.Name) else None)
                recv = ast.unparse(f.value) if isinstance(f, ast.Attribute) else ""
                if nm == "push" and recv.endswith(("ruler", "ruler2")):
                    continue  # Ruler.push(name, fn, options) is not a token constructor
                if nm in ("push", "Token") and len(n.args) == 3:
                    t = n.args[1]
                    ty = n.args[0]
                    tyv = ty.value if isinstance(ty, ast.Constant) else None
                    if isinstance(t, ast.Constant) and isinstance(t.value, str):
                        if t.value == "":
                            empty_types.add(tyv if tyv is not None else f"<dynamic type at {modname}:{n.lineno}>")
                        else:
                            tags.add(t.value)
                    elif isinstance(t, ast.BinOp) and isinstance(t.left, ast.Constant) and t.left.value == "h" and isinstance(t.right, ast.Call) and getattr(t.right.func, "id", "") == "str":
                        tags.update(f"h{i}" for i in range(1, 7))
                    elif isinstance(t, ast.Name) and nm == "push" and modname.endswith("state_block") or (isinstance(t, ast.Name) and t.id == "tag" and modname.endswith(("state_inline", "state_block"))):
                        continue  # the forwarding push(ttype, tag, nesting) inside State*.push itself
                    elif isinstance(t, ast.Name) and modname.endswith("list") and t.id in ("token_tag",):
                        continue
                    else:
                        problems.append((modname, n.lineno, ast.unparse(t)))
    return tags, problems, empty_types


def attr_site_obligations():
    """closing tokens carry no attributes and attribute *names* are literals: every attrs= / attrSet / attrPush /
    attrJoin site targets a token whose creating push()/Token() in the same function has a literal nesting of 0 or 1
    (or, in the renderer, an image token / a temporary token), and its keys are string literals."""
    obs = []
    for modname in S.all_package_modules():
        if modname.startswith(("markdown_it.cli", "markdown_it.token", "markdown_it.tree")):
            continue
        mi = S.load_module(modname)
        for qn, fn in mi.functions.items():
            sites = []
            for n in ast.walk(fn):
                if isinstance(n, ast.Assign) and any(isinstance(t, ast.Attribute) and t.attr == "attrs" for t in n.targets):
                    t = next(t for t in n.targets if isinstance(t, ast.Attribute) and t.attr == "attrs")
                    keys = [k.value if isinstance(k, ast.Constant) else None for k in n.value.keys] if isinstance(n.value, ast.Dict) else [None]
                    sites.append((n, t.value, keys))
                if isinstance(n, ast.Call) and isinstance(n.func, ast.Attribute) and n.func.attr in ("attrSet", "attrPush", "attrJoin"):
                    a0 = n.args[0] if n.args else None
                    if n.func.attr == "attrPush" and isinstance(a0, (ast.List, ast.Tuple)) and a0.elts:
                        a0 = a0.elts[0]
                    sites.append((n, n.func.value, [a0.value if isinstance(a0, ast.Constant) else None]))
            for k, (node, recv, keys) in enumerate(sites):
                q = f"{modname}.{qn}"
                oid = f"{q}/LANG/attr-site#{k}"
                if not isinstance(recv, ast.Name):
                    obs.append({"oid": oid, "verdict": "undecided", "func": q, "info": f"attribute write on `{ast.unparse(recv)}`"})
                    continue
                # nearest preceding creation of that variable
                creation = None
                for m in ast.walk(fn):
                    if isinstance(m, ast.Assign) and m.lineno <= node.lineno and any(isinstance(t, ast.Name) and t.id == recv.id for t in m.targets):
                        if creation is None or m.lineno >= creation.lineno:
                            creation = m
                nesting = None
                how = ""
                if creation is not None and isinstance(creation.value, ast.Call):
                    c = creation.value
                    nm = c.func.attr if isinstance(c.func, ast.Attribute) else getattr(c.func, "id", None)
                    if nm in ("push", "Token"):
                        arg = c.args[2] if len(c.args) >= 3 else next((kw.value for kw in c.keywords if kw.arg == "nesting"), None)
                        if isinstance(arg, ast.Constant):
                            nesting = arg.value
                            how = f"created by {ast.unparse(c)[:50]}"
                if nesting is None and creation is not None and isinstance(creation.value, ast.Subscript) and modname.endswith("renderer") and qn.endswith(".image"):
                    nesting, how = 0, "the image token being rendered (images are void tokens)"
                ok_n = nesting in (0, 1)
                ok_k = all(isinstance(x, str) for x in keys)
                verdict = "discharged" if (ok_n and ok_k) else ("failed" if nesting == -1 or (not ok_k and nesting is not None) else "undecided")
                obs.append({"oid": oid, "verdict": verdict, "func": q, "info": f"line {node.lineno}: attribute names {keys} on a token {how or 'of unknown origin'}" + ("" if verdict == "discharged" else " - not provably a literal name on an opening/void token")})
    return obs


def add_obligations(rep, prop):
    t0 = time.time()
    obs = []
    for o in escape_obligations():
        obs.append(o)
    obs.extend(attr_site_obligations())
    tags, problems, empty_types = collect_tags()
    # tag vocabulary: every tag argument is a literal (or "h"+str(level))
    mi = S.load_module("markdown_it.renderer")
    rules_methods = {qn.split(".")[-1] for qn in mi.functions if qn.startswith("RendererHTML.") and not qn.split(".")[-1].startswith(("render", "_"))}
    for modname, line, txt in problems:
        # list.py builds its tag from a two-way literal choice; accept conditional expressions over literals
        obs.append({"oid": f"{modname}/LANG/tag-literal@{txt[:30]}", "verdict": "undecided", "func": modname, "info": f"tag argument `{txt}` at line {line} is not a literal"})
    for ty in sorted(empty_types, key=str):
        # text_special never reaches the renderer: text_join (a core pipeline rule, C02) converts every one to text
        ok = ty in rules_methods or ty in ("inline", "", "text_special")  # never reaches renderToken
        obs.append({"oid": f"markdown_it.renderer/LANG/empty-tag:{ty}", "verdict": "discharged" if ok else "failed", "func": "markdown_it.renderer.RendererHTML.renderToken",
                    "info": f"tokens of type {ty!r} have an empty tag and " + ("are rendered by their own rule, never by renderToken" if ok else "fall through to renderToken, which prints `< />`"), "witness": str(ty)})
    # element vocabulary = token tags + the renderer's own literal elements (<pre>, <code>, <br>)
    own = {"pre", "code", "br"}
    tag_lang = tag_language(tags | {"ul", "ol"})
    SAFE, OPENCLOSE = safe_language(tags | {"ul", "ol"} | own)
    contracts = {"renderAttrs": ATTRS, "renderToken": OPENCLOSE, "renderInlineAsText": ANY, "renderInline": SAFE, "render": SAFE, "<rules>": SAFE, "fence": SAFE}
    interp = LangInterp(mi, contracts)
    targets = {
        "renderAttrs": ATTRS, "code_inline": SAFE, "code_block": SAFE, "fence": SAFE, "hardbreak": SAFE, "softbreak": SAFE, "text": SAFE,
        "renderInline": SAFE, "render": SAFE, "image": SAFE,
    }
    for extra in sorted(rules_methods - set(targets) - {"html_block", "html_inline"}):
        targets[extra] = SAFE
    for name, sup in targets.items():
        fn = mi.functions.get("RendererHTML." + name)
        q = R + name
        if fn is None:
            obs.append({"oid": f"{q}/LANG/exists", "verdict": "undecided", "func": q, "info": "function not found"})
            continue
        L = interp.function_language(fn, tag_lang)
        v, w, dt = included(L, sup)
        obs.append({"oid": f"{q}/LANG/result-in-{'Attrs' if name == 'renderAttrs' else 'Safe'}", "verdict": v, "func": q, "seconds": dt, "witness": w,
                    "info": ("result language included in the contract language" if v == "discharged" else f"a possible result outside the contract language: {w!r}")})
    # renderToken: its tag is token.tag, constrained to the literal vocabulary by the tag obligations above
    fn = mi.functions.get("RendererHTML.renderToken")
    if fn is not None:
        L = renderToken_language(fn, tag_lang)
        v, w, dt = included(L, OPENCLOSE)
        obs.append({"oid": f"{R}renderToken/LANG/result-in-OpenClose", "verdict": v, "func": R + "renderToken", "seconds": dt, "witness": w,
                    "info": "open/close tag over the fixed tag vocabulary with escaped attributes" if v == "discharged" else f"possible result outside Open|Close: {w!r}"})
    # raw pass-through rules exist only for html_block / html_inline
    for name in sorted(rules_methods):
        fn = mi.functions["RendererHTML." + name]
        raw = any(isinstance(n, ast.Return) and isinstance(n.value, ast.Attribute) and n.value.attr == "content" for n in ast.walk(fn))
        if raw:
            ok = name in ("html_block", "html_inline")
            obs.append({"oid": f"{R}{name}/LANG/raw-pass-through", "verdict": "discharged" if ok else "failed", "func": R + name,
                        "info": "raw content is returned only for html tokens (produced only under options.html: GUARD in html_block/html_inline rules)" if ok else "returns token.content unescaped", "witness": name})
    for o in obs:
        rep.obs.append(Ob(oid=f"{prop}/{o['oid']}", kind="LANG", func=o["func"], backend="lang", verdict=o["verdict"], info=o["info"], solver="z3-regex / homomorphism lemma",
                          seconds=o.get("seconds", 0.0), model=o.get("witness", "")))
    rep.functions = sorted(set(rep.functions) | {o["func"] for o in obs})
    if interp.notes:
        rep.assumptions.append("LANG: " + "; ".join(sorted(set(interp.notes))))
    rep.extra["tag_vocabulary"] = sorted(tags)
    rep.extra["lang_seconds"] = round(time.time() - t0, 2)


def renderToken_language(fn, tag_lang):
    """renderToken builds result by += ; token.tag stands for the tag vocabulary"""
    interp = LangInterp(None, {"renderAttrs": ATTRS})
    orig = interp.expr

    def expr(e, env):
        if isinstance(e, ast.Attribute) and e.attr == "tag":
            return tag_lang
        return orig(e, env)

    interp.expr = expr
    langs = []
    for k in (-1, 0, 1):  # Token.nesting is Literal[-1, 0, 1]: one evaluation per value
        interp.facts = {"nesting": k}
        langs.append(interp.function_language(fn, tag_lang))
    return union(*langs)
