"""ENUM obligation behind the `returns_charclass` contracts: the compiled one-character class a function returns matches
exactly the characters of the module-level set literal it is built from - decided by complete enumeration over all
code points on the real (compiled) pattern."""
from __future__ import annotations

import importlib
import time

from . import src as S
from .report import Ob


def charclass_obligation(rep, prop, qual, set_name):
    t0 = time.time()
    modname, fname = qual.rsplit(".", 1)
    oid = f"{prop}/{qual}/ENUM/pattern-matches-exactly-{set_name}"
    try:
        mi = S.load_module(modname)
        want = S.set_literal_codes(mi, set_name)
        rx = getattr(importlib.import_module(modname), fname)()
        bad = []
        for cp in range(0x110000):
            ch = chr(cp)
            if (rx.fullmatch(ch) is not None) != (cp in want) or (rx.search(ch) is not None) != (cp in want):
                bad.append(f"U+{cp:04X}")
                if len(bad) >= 6:
                    break
        # a class pattern consumes exactly one character: search on a two-character string finds the first member
        probe = "a" + chr(min(want)) if want else "a"
        m = rx.search(probe)
        if want and (m is None or m.start() != 1 or m.end() != 2):
            bad.append("search does not return the first member position")
        verdict, info = ("discharged", f"all 1114112 code points: pattern {rx.pattern!r} matches a character iff it is in {set_name} ({len(want)} members)") if not bad else \
                        ("failed", f"pattern {rx.pattern!r} and {set_name} disagree at {bad}")
    except Exception as e:  # noqa: BLE001
        verdict, info, bad = "undecided", f"{type(e).__name__}: {e}", []
    rep.obs.append(Ob(oid=oid, kind="ENUM", func=qual, backend="exhaustive-enumeration", verdict=verdict, seconds=time.time() - t0,
                      solver="complete enumeration on the real compiled pattern", info=info, model=repr(bad)))
    if verdict == "failed":
        rep.replays[oid] = {"lifted": {"arguments": {"code_points": bad}}, "observed": {"outcome": info}, "replayed": True}
