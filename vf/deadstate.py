"""'Dead state' obligations for StateBlock.parentType and StateBlock.tight (DESIGN.md 4 C07).

These two fields may be left changed by a rule (lheading/reference return early without restoring parentType), so
independence of top-level blocks needs them to be *dead* at every rule entry: every read must see a value written
by the function that is currently dispatching / running, never one that leaked from an earlier block.

  DEAD/parentType/dispatch#k  every call of a rule through a dispatch variable with silent=True is dominated (on
                              every path from the function's entry) by a store `state.parentType = ...`
  DEAD/parentType/read#k      every read of state.parentType is either the save of a save/restore pair, or guarded
                              by `silent` (so it only ever runs under a dispatcher that stored the field)
  DEAD/tight/read#k           every read of state.tight (other than the save of a save/restore pair) is preceded on
                              every path from the function's entry - and, inside a loop, from the start of the
                              current iteration - by a store `state.tight = ...`
A must-assign dataflow over the structured AST of the real source decides them.
"""
from __future__ import annotations

import ast

from . import src as S

BLOCK_MODULES = ["markdown_it.parser_block"] + [f"markdown_it.rules_block.{m}" for m in
                                                ("blockquote", "code", "fence", "heading", "hr", "html_block", "lheading", "list", "paragraph", "reference", "table")]


def _is_field(node, field):
    return isinstance(node, ast.Attribute) and node.attr == field and isinstance(node.value, ast.Name) and node.value.id == "state"


class MustAssign:
    """forward must-analysis: at each node of interest, was `state.<field>` stored on every path from the entry?"""

    def __init__(self, fn, field, interest):
        self.fn, self.field, self.interest = fn, field, interest
        self.results: dict[int, bool] = {}  # id(node) -> assigned on all paths reaching it

    def run(self):
        self.block(self.fn.body, False)
        return self.results

    def expr(self, e, a):
        for n in ast.walk(e):
            if self.interest(n):
                self.results[id(n)] = self.results.get(id(n), True) and a

    def block(self, stmts, a):
        """returns assigned-state at normal exit, or None when no path falls through"""
        for st in stmts:
            if a is None:
                return None
            a = self.stmt(st, a)
        return a

    def stmt(self, st, a):
        if isinstance(st, ast.Assign):
            self.expr(st.value, a)
            if any(_is_field(t, self.field) for t in st.targets):
                return True
            return a
        if isinstance(st, (ast.AugAssign, ast.AnnAssign, ast.Expr, ast.Assert, ast.Delete)):
            for ch in ast.iter_child_nodes(st):
                if isinstance(ch, ast.expr):
                    self.expr(ch, a)
            return a
        if isinstance(st, ast.Return):
            if st.value is not None:
                self.expr(st.value, a)
            return None
        if isinstance(st, (ast.Break, ast.Continue, ast.Raise)):
            return None
        if isinstance(st, ast.If):
            self.expr(st.test, a)
            b1 = self.block(st.body, a)
            b2 = self.block(st.orelse, a)
            if b1 is None:
                return b2
            if b2 is None:
                return b1
            return b1 and b2
        if isinstance(st, (ast.While, ast.For)):
            if isinstance(st, ast.While):
                self.expr(st.test, a)
            else:
                self.expr(st.iter, a)
            # the body may run zero times; inside the body a read must be covered by the state at loop entry
            # (first iteration) - later iterations start from the body's own exit, which is at least as assigned
            # only if the body assigns; we take the conservative meet: entry state
            self.block(st.body, a)
            self.block(st.orelse, a)
            return a
        if isinstance(st, ast.Try):
            b = self.block(st.body, a)
            outs = [b]
            for h in st.handlers:
                outs.append(self.block(h.body, a))
            outs = [o for o in outs if o is not None]
            r = all(outs) if outs else None
            if st.finalbody:
                r = self.block(st.finalbody, bool(r) if r is not None else a)
            return r
        if isinstance(st, ast.With):
            return self.block(st.body, a)
        return a


def _dispatch_calls(fn):
    """calls `v(state, x, y, True)` where v is the target of a for loop over a rule list"""
    loopvars = set()
    for n in ast.walk(fn):
        if isinstance(n, ast.For) and isinstance(n.target, ast.Name):
            loopvars.add(n.target.id)
    out = []
    for n in ast.walk(fn):
        is_disp = (isinstance(n.func, ast.Name) and n.func.id in loopvars) or isinstance(n.func, ast.Subscript) if isinstance(n, ast.Call) else False
        if is_disp and len(n.args) == 4 and isinstance(n.args[0], ast.Name) and n.args[0].id == "state":
            silent = n.args[3]
            if isinstance(silent, ast.Constant) and silent.value is True:
                out.append(n)
    return out


def _guarded_by_silent(fn, node):
    """is `node` inside an `if` test / body that requires the parameter `silent` to be truthy?"""
    parents = {}
    for p in ast.walk(fn):
        for c in ast.iter_child_nodes(p):
            parents[id(c)] = p
    cur = node
    while id(cur) in parents:
        p = parents[id(cur)]
        if isinstance(p, ast.BoolOp) and isinstance(p.op, ast.And):
            idx = next(i for i, v in enumerate(p.values) if v is cur or any(x is cur for x in ast.walk(v)))
            if any(isinstance(v, ast.Name) and v.id == "silent" for v in p.values[:idx]):
                return True
        if isinstance(p, ast.If) and cur in p.body:
            t = p.test
            if (isinstance(t, ast.Name) and t.id == "silent") or (isinstance(t, ast.BoolOp) and isinstance(t.op, ast.And) and any(isinstance(v, ast.Name) and v.id == "silent" for v in t.values)):
                return True
        cur = p
    return False


def obligations():
    obs = []
    for modname in BLOCK_MODULES:
        try:
            mi = S.load_module(modname)
        except S.SourceError:
            continue
        for qn, fn in mi.functions.items():
            qual = f"{modname}.{qn}"
            # ---- parentType: dispatch sites
            calls = _dispatch_calls(fn)
            if calls:
                res = MustAssign(fn, "parentType", lambda n: any(n is c for c in calls)).run()
                for k, c in enumerate(calls):
                    ok = res.get(id(c), False)
                    obs.append({"oid": f"{qual}/DEAD/parentType/dispatch#{k}", "verdict": "discharged" if ok else "failed", "func": qual, "line": c.lineno, "kind": "DEAD",
                                "info": f"silent rule dispatch at line {c.lineno} " + ("is dominated by a store to state.parentType" if ok else "can be reached without a store to state.parentType: a value leaked from an earlier block is observable")})
            # ---- reads of both fields
            for field in ("parentType", "tight"):
                saves = set()
                reads = []
                for n in ast.walk(fn):
                    if isinstance(n, ast.Assign) and len(n.targets) == 1 and isinstance(n.targets[0], ast.Name) and _is_field(n.value, field):
                        saves.add(id(n.value))
                for n in ast.walk(fn):
                    if _is_field(n, field) and isinstance(n.ctx, ast.Load) and id(n) not in saves:
                        reads.append(n)
                if not reads:
                    continue
                res = MustAssign(fn, field, lambda n: any(n is r for r in reads)).run()
                for k, r in enumerate(reads):
                    if field == "parentType":
                        ok = _guarded_by_silent(fn, r) or res.get(id(r), False)
                        why = "guarded by `silent` (runs only under a dispatcher that stored the field)" if _guarded_by_silent(fn, r) else "preceded by a store in this function"
                    else:
                        ok = res.get(id(r), False)
                        why = "preceded on every path by a store to state.tight in this function"
                    obs.append({"oid": f"{qual}/DEAD/{field}/read#{k}", "verdict": "discharged" if ok else "failed", "func": qual, "line": r.lineno, "kind": "DEAD",
                                "info": f"read of state.{field} at line {r.lineno} " + (why if ok else "may observe a value left by an earlier block (no dominating store)")})
    return obs
