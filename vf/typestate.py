"""C05: typestate of link destinations, and the language obligation on validateLink.

TYPESTATE/<func>/store#k : the value stored as href/src (or as env references' href) is "" or was returned by
normalizeLink and tested by validateLink on this path, or was read from env["references"][..]["href"]
(whose only writer stores a value with the same typestate).  Decided by a path-sensitive abstract interpretation
of the real source.
LANG/validateLink : accepted(u) and Dangerous(u) is unsatisfiable, with accepted() built from the function's own
structure and its regex literals (translated with Python's own regex parser) - z3 regex solver.
"""
from __future__ import annotations

import ast
import re
import time

import z3

from . import src as S
from .report import Ob
from .lang import ANY, lit, cat, union

PRODUCERS = ["markdown_it.rules_inline.link.link", "markdown_it.rules_inline.image.image", "markdown_it.rules_inline.autolink.autolink",
             "markdown_it.rules_inline.linkify.linkify", "markdown_it.rules_core.linkify.linkify", "markdown_it.rules_block.reference.reference"]
GOOD = {"EMPTY", "VALID", "REF"}


def _is_call(e, name):
    return isinstance(e, ast.Call) and isinstance(e.func, ast.Attribute) and e.func.attr == name


class TS:
    def __init__(self, fn):
        self.fn = fn
        self.sites = []  # (node, key, tags)

    def val(self, e, env):
        if isinstance(e, ast.Constant) and e.value == "":
            return {"EMPTY"}
        if _is_call(e, "normalizeLink"):
            return {"RAW"}
        if isinstance(e, ast.Subscript) and isinstance(e.slice, ast.Constant) and e.slice.value == "href" and isinstance(e.value, ast.Name) and e.value.id == "ref":
            return {"REF"}
        if isinstance(e, ast.Name):
            return set(env.get(e.id, {"OTHER"}))
        return {"OTHER"}

    def refine(self, test, env, truth):
        """environment after assuming test == truth"""
        env = {k: set(v) for k, v in env.items()}
        if isinstance(test, ast.UnaryOp) and isinstance(test.op, ast.Not):
            return self.refine(test.operand, env, not truth)
        if _is_call(test, "validateLink") and test.args and isinstance(test.args[0], ast.Name):
            v = test.args[0].id
            if truth and v in env:
                env[v] = {("VALID" if t == "RAW" else t) for t in env[v]}
        return env

    def join(self, a, b):
        if a is None:
            return b
        if b is None:
            return a
        return {k: set(a.get(k, {"OTHER"})) | set(b.get(k, {"OTHER"})) for k in set(a) | set(b)}

    def scan_stores(self, node, env):
        for n in ast.walk(node):
            if isinstance(n, ast.Dict):
                for k, v in zip(n.keys, n.values):
                    if isinstance(k, ast.Constant) and k.value in ("href", "src"):
                        self.sites.append((n, k.value, self.val(v, env)))
            if isinstance(n, ast.Call) and isinstance(n.func, ast.Attribute) and n.func.attr in ("attrSet", "attrPush") and n.args:
                a0 = n.args[0]
                if isinstance(a0, ast.Constant) and a0.value in ("href", "src") and len(n.args) > 1:
                    self.sites.append((n, a0.value, self.val(n.args[1], env)))

    def block(self, stmts, env):
        for st in stmts:
            if env is None:
                return None
            env = self.stmt(st, env)
        return env

    def stmt(self, st, env):
        if isinstance(st, (ast.Assign, ast.AnnAssign)):
            value = st.value
            targets = st.targets if isinstance(st, ast.Assign) else [st.target]
            if value is not None:
                self.scan_stores(value, env)
                for t in targets:
                    if isinstance(t, ast.Name):
                        env = dict(env)
                        env[t.id] = self.val(value, env)
            return env
        if isinstance(st, ast.Expr):
            self.scan_stores(st.value, env)
            return env
        if isinstance(st, (ast.Return, ast.Raise, ast.Break, ast.Continue)):
            if isinstance(st, ast.Return) and st.value is not None:
                self.scan_stores(st.value, env)
            return None
        if isinstance(st, ast.If):
            a = self.block(st.body, self.refine(st.test, env, True))
            b = self.block(st.orelse, self.refine(st.test, env, False))
            return self.join(a, b)
        if isinstance(st, (ast.For, ast.While)):
            e = env
            for _ in range(3):
                out = self.block(st.body, e)
                e = self.join(e, out)
            return e
        if isinstance(st, ast.Try):
            a = self.block(st.body, env)
            for h in st.handlers:
                a = self.join(a, self.block(h.body, env))
            return a
        if isinstance(st, ast.With):
            return self.block(st.body, env)
        return env


def typestate_obligations():
    obs = []
    for q in PRODUCERS:
        try:
            mi, fn, canon = S.resolve_function(q)
        except S.SourceError as e:
            obs.append({"oid": f"{q}/TYPESTATE/exists", "verdict": "undecided", "func": q, "info": str(e)})
            continue
        ts = TS(fn)
        ts.block(fn.body, {})
        if not ts.sites:
            obs.append({"oid": f"{canon}/TYPESTATE/sites", "verdict": "undecided", "func": canon, "info": "no href/src store site found (the producer changed shape)"})
        for k, (node, key, tags) in enumerate(ts.sites):
            ok = tags <= GOOD
            obs.append({"oid": f"{canon}/TYPESTATE/store#{k}:{key}", "verdict": "discharged" if ok else "failed", "func": canon, "line": node.lineno,
                        "info": f"line {node.lineno}: {key} value has typestate {sorted(tags)}" + ("" if ok else " - it can reach the output without normalizeLink + a successful validateLink")})
    return obs


# ------------------------------------------------------------------------------------------------ regex translation
def py_regex_to_z3(pattern: str, flags=0):
    """(re_body, anchored_start, anchored_end) for the subset of Python regexes used by validateLink"""
    import re._parser as sp
    import re._constants as sc

    parsed = sp.parse(pattern, flags)
    items = list(parsed)
    a_start = a_end = False
    if items and items[0][0] == sc.AT and items[0][1] == sc.AT_BEGINNING:
        a_start = True
        items = items[1:]
    if items and items[-1][0] == sc.AT and items[-1][1] in (sc.AT_END, sc.AT_END_STRING):
        a_end = True
        items = items[:-1]
    ignorecase = bool(flags & re.IGNORECASE)

    def ch(c):
        s = chr(c)
        if ignorecase and s.lower() != s.upper():
            return z3.Union(lit(s.lower()), lit(s.upper()))
        return lit(s)

    def conv(seq):
        parts = []
        for op, av in seq:
            if op == sc.LITERAL:
                parts.append(ch(av))
            elif op == sc.ANY:
                parts.append(z3.AllChar(z3.ReSort(z3.StringSort())))
            elif op == sc.BRANCH:
                parts.append(union(*[conv(b) for b in av[1]]))
            elif op == sc.SUBPATTERN:
                parts.append(conv(av[3]))
            elif op == sc.IN:
                alts = []
                neg = False
                for o2, a2 in av:
                    if o2 == sc.NEGATE:
                        neg = True
                    elif o2 == sc.LITERAL:
                        alts.append(ch(a2))
                    elif o2 == sc.RANGE:
                        alts.append(z3.Range(chr(a2[0]), chr(a2[1])))
                    else:
                        raise ValueError(f"regex class item {o2}")
                u = union(*alts)
                parts.append(z3.Intersect(z3.AllChar(z3.ReSort(z3.StringSort())), z3.Complement(u)) if neg else u)
            elif op in (sc.MAX_REPEAT, sc.MIN_REPEAT):
                lo, hi, sub = av
                r = conv(sub)
                if hi == sc.MAXREPEAT:
                    parts.append(cat(*([r] * lo), z3.Star(r)) if lo else z3.Star(r))
                else:
                    parts.append(z3.Loop(r, lo, hi))
            elif op == sc.AT:
                raise ValueError("anchor inside the pattern")
            else:
                raise ValueError(f"regex op {op}")
        return cat(*parts) if parts else lit("")

    return conv(items), a_start, a_end


def search_lang(body, a_start, a_end, method):
    """language of strings on which RE.<method>(s) finds a match"""
    pre = lit("") if (a_start or method in ("match", "fullmatch")) else ANY
    post = lit("") if (a_end or method == "fullmatch") else ANY
    return cat(pre, body, post)


DANGEROUS = None


def dangerous_language():
    """the property's language, over the lower-cased, stripped URL: (javascript|vbscript|file|data): ...
    except data:image/(gif|png|jpeg|webp);..."""
    bad = cat(union(lit("javascript"), lit("vbscript"), lit("file"), lit("data")), lit(":"), ANY)
    good = cat(lit("data:image/"), union(lit("gif"), lit("png"), lit("jpeg"), lit("webp")), lit(";"), ANY)
    return z3.Intersect(bad, z3.Complement(good))


def validate_obligations():
    obs = []
    q = "markdown_it.common.normalize_url.validateLink"
    t0 = time.time()
    try:
        mi, fn, canon = S.resolve_function(q)
    except S.SourceError as e:
        return [{"oid": f"{q}/LANG/exists", "verdict": "undecided", "func": q, "info": str(e)}]
    x = z3.String("u")
    regexes = {}
    for name, node in mi.globals.items():
        if isinstance(node, ast.Call) and isinstance(node.func, ast.Attribute) and node.func.attr == "compile" and node.args and isinstance(node.args[0], ast.Constant):
            flags = 0
            for a in node.args[1:]:
                if "IGNORECASE" in ast.unparse(a):
                    flags |= re.IGNORECASE
            for kw in node.keywords:
                if "IGNORECASE" in ast.unparse(kw.value):
                    flags |= re.IGNORECASE
            try:
                regexes[name] = py_regex_to_z3(node.args[0].value, flags)
            except ValueError as e:
                regexes[name] = e
    state = {"stripped": False, "lowered": False}
    param = fn.args.args[0].arg

    def cond(e):
        """z3 Bool for the truthiness of expression e"""
        if isinstance(e, ast.Call) and isinstance(e.func, ast.Name) and e.func.id == "bool" and e.args:
            return cond(e.args[0])
        if isinstance(e, ast.Call) and isinstance(e.func, ast.Attribute) and e.func.attr in ("search", "match", "fullmatch") and isinstance(e.func.value, ast.Name):
            r = regexes.get(e.func.value.id)
            if r is None or isinstance(r, Exception):
                raise ValueError(f"regex {e.func.value.id}: {r}")
            if not (e.args and isinstance(e.args[0], ast.Name) and e.args[0].id == param):
                raise ValueError("regex applied to something other than the url")
            return z3.InRe(x, search_lang(r[0], r[1], r[2], e.func.attr))
        if isinstance(e, ast.UnaryOp) and isinstance(e.op, ast.Not):
            return z3.Not(cond(e.operand))
        if isinstance(e, ast.BoolOp):
            cs = [cond(v) for v in e.values]
            return z3.And(*cs) if isinstance(e.op, ast.And) else z3.Or(*cs)
        if isinstance(e, ast.Constant) and isinstance(e.value, bool):
            return z3.BoolVal(e.value)
        if isinstance(e, ast.IfExp):
            return z3.If(cond(e.test), cond(e.body), cond(e.orelse))
        if isinstance(e, ast.Compare) and len(e.ops) == 1 and isinstance(e.comparators[0], ast.Constant) and e.comparators[0].value is None:
            inner = cond(e.left)
            return inner if isinstance(e.ops[0], ast.IsNot) else z3.Not(inner)
        raise ValueError(f"unsupported condition {ast.unparse(e)[:60]}")

    def run(stmts):
        """z3 Bool: the function returns a truthy value (None = falls through)"""
        for i, st in enumerate(stmts):
            if isinstance(st, ast.Expr) and isinstance(st.value, ast.Constant):
                continue
            if isinstance(st, ast.If) and "validator" in ast.unparse(st.test):
                continue  # the optional user-supplied validator is outside the property (default None)
            if isinstance(st, ast.Assign) and len(st.targets) == 1 and isinstance(st.targets[0], ast.Name) and st.targets[0].id == param:
                txt = ast.unparse(st.value)
                if ".strip()" in txt:
                    state["stripped"] = True
                if ".lower()" in txt:
                    state["lowered"] = True
                continue
            if isinstance(st, ast.Return):
                return cond(st.value)
            if isinstance(st, ast.If):
                c = cond(st.test)
                a = run(st.body)
                rest = run(list(st.orelse) + stmts[i + 1:]) if True else None
                a = a if a is not None else run(stmts[i + 1:])
                return z3.If(c, a, rest)
            raise ValueError(f"unsupported statement {ast.unparse(st)[:60]}")
        return None

    try:
        accepted = run(fn.body)
        if accepted is None:
            raise ValueError("no return value")
    except ValueError as e:
        return [{"oid": f"{canon}/LANG/shape", "verdict": "undecided", "func": canon, "info": f"validateLink is outside the supported shape: {e}"}]
    s = z3.Solver()
    s.set("timeout", 20000)
    s.add(accepted, z3.InRe(x, dangerous_language()))
    r = s.check()
    dt = time.time() - t0
    if r == z3.unsat:
        obs.append({"oid": f"{canon}/LANG/accepted-excludes-dangerous", "verdict": "discharged", "func": canon, "seconds": dt,
                    "info": "no URL accepted by validateLink (after strip+lower) is in the dangerous-scheme language"})
    elif r == z3.sat:
        w = s.model()[x].as_string()
        obs.append({"oid": f"{canon}/LANG/accepted-excludes-dangerous", "verdict": "failed", "func": canon, "seconds": dt, "witness": w,
                    "info": f"validateLink accepts the dangerous URL {w!r}"})
    else:
        obs.append({"oid": f"{canon}/LANG/accepted-excludes-dangerous", "verdict": "undecided", "func": canon, "seconds": dt, "info": "z3 unknown"})
    for flag in ("stripped", "lowered"):
        obs.append({"oid": f"{canon}/LANG/{flag}", "verdict": "discharged" if state[flag] else "failed", "func": canon,
                    "info": f"the url is {'.strip()' if flag == 'stripped' else '.lower()'}-ed before the scheme test" if state[flag] else f"the scheme test runs on a url that was not {flag}",
                    "witness": " JaVaScRiPt:x"})
    return obs


def encode_obligations():
    """LANG/normalizeLink/returns-encoded: every return of normalizeLink is mdurl.encode(...) - so, with the assumed
    contract on mdurl.encode (URL-safe ASCII output), every emitted destination is percent-encoded"""
    q = "markdown_it.common.normalize_url.normalizeLink"
    try:
        mi, fn, canon = S.resolve_function(q)
    except S.SourceError as e:
        return [{"oid": f"{q}/LANG/exists", "verdict": "undecided", "func": q, "info": str(e)}]
    rets = [n for n in ast.walk(fn) if isinstance(n, ast.Return)]
    bad = [r for r in rets if not (isinstance(r.value, ast.Call) and ast.unparse(r.value.func) == "mdurl.encode")]
    return [{"oid": f"{canon}/LANG/returns-encoded", "verdict": "discharged" if rets and not bad else "failed", "func": canon,
             "info": f"all {len(rets)} return statements are mdurl.encode(...)" if rets and not bad else f"returns without encoding at line(s) {[r.lineno for r in bad]}", "witness": ""}]


def facade_obligations():
    """LANG/<MarkdownIt method>/delegates: the typestate argument treats `state.md.normalizeLink` / `validateLink` as the
    functions of common.normalize_url; so every return of the three MarkdownIt methods must be exactly that call on the
    method's own argument (a fast path that returns the url untouched would bypass the encoder)"""
    obs = []
    for meth, arg in (("normalizeLink", "url"), ("validateLink", "url"), ("normalizeLinkText", "link")):
        q = f"markdown_it.main.MarkdownIt.{meth}"
        try:
            mi, fn, canon = S.resolve_function(q)
        except S.SourceError as e:
            obs.append({"oid": f"{q}/LANG/delegates", "verdict": "undecided", "func": q, "info": str(e)})
            continue
        rets = [n for n in ast.walk(fn) if isinstance(n, ast.Return)]
        want = f"normalize_url.{meth}({fn.args.args[1].arg})" if len(fn.args.args) == 2 else None
        stores = [n for n in ast.walk(fn) if isinstance(n, (ast.Assign, ast.AugAssign, ast.AnnAssign, ast.NamedExpr))]
        bad = [r for r in rets if r.value is None or ast.unparse(r.value) != want]
        ok = bool(rets) and not bad and not stores and want is not None
        witness = ""
        if not ok and meth != "normalizeLinkText":
            try:
                from markdown_it import MarkdownIt
                from markdown_it.common import normalize_url as NU

                md = MarkdownIt()
                for w in ("\x01javascript:alert(1)", "javascript:x", "\x0bvbscript:x", "a b", "http://a/\x7f", "JaVaScRiPt:x", "\x1fdata:text/html,x", "http://ä.b/ü"):
                    if getattr(md, meth)(w) != getattr(NU, meth)(w):
                        witness = w
                        break
            except Exception:  # noqa: BLE001
                pass
        obs.append({"oid": f"{canon}/LANG/delegates", "verdict": "discharged" if ok else "failed", "func": canon,
                    "info": f"every return is {want}" if ok else f"not a plain delegation to normalize_url.{meth}: returns {[ast.unparse(r.value) if r.value else None for r in bad][:3]}",
                    "witness": witness})
    return obs


def add_url_obligations(rep, prop):
    allobs = typestate_obligations() + validate_obligations() + encode_obligations() + facade_obligations()
    for o in allobs:
        kind = "TYPESTATE" if "/TYPESTATE/" in o["oid"] else "LANG"
        rep.obs.append(Ob(oid=f"{prop}/{o['oid']}", kind=kind, func=o["func"], backend="typestate" if kind == "TYPESTATE" else "lang", verdict=o["verdict"], info=o["info"],
                          line=o.get("line", 0), seconds=o.get("seconds", 0.0), model=o.get("witness", ""), solver="path-sensitive abstract interpretation" if kind == "TYPESTATE" else "z3-regex"))
        if o["verdict"] == "failed" and kind == "LANG" and "/LANG/delegates" in o["oid"]:
            w = o.get("witness")
            rep.replays[f"{prop}/{o['oid']}"] = {"lifted": {"constructor": "candidate url", "arguments": {"url": w}} if w else {},
                                                 "observed": {"outcome": "returned", "note": "MarkdownIt method and normalize_url function disagree on this url" if w else "no disagreeing url among the candidates"},
                                                 "replayed": bool(w)}
        elif o["verdict"] == "failed" and kind == "LANG" and o.get("witness") and "validateLink" in o["oid"]:
            # replay the solver's witness on the real function
            try:
                from markdown_it.common.normalize_url import validateLink

                got = validateLink(o["witness"])
                rep.replays[f"{prop}/{o['oid']}"] = {"lifted": {"constructor": "witness string from the regex solver", "arguments": {"url": o["witness"]}},
                                                     "observed": {"outcome": "returned", "value": repr(got), "note": "validateLink accepts a URL of the dangerous-scheme language" if got else "not accepted natively"},
                                                     "replayed": bool(got)}
            except Exception as e:  # noqa: BLE001
                rep.replays[f"{prop}/{o['oid']}"] = {"observed": {"outcome": "replay-error", "value": str(e)}, "replayed": False}
    rep.functions = sorted(set(rep.functions) | {o["func"] for o in allobs})
