"""Verification machinery for markdown-it-py (contract-based deductive verification of the real code).

pyvc      - verification-condition generator: symbolic execution of the real source (ast) against
            sidecar contracts, obligations discharged with z3 / cvc5
frame     - frame / reads / ownership checker (region typing over the real source)
lang      - regular-language inclusion checker for string-valued functions
bounded   - bounded stand-ins (run-time contract monitors over bounded-exhaustive universes)
"""
import os

REPO = os.environ.get("VERIF_REPO", "/repo")
VERIF = os.path.dirname(os.path.dirname(os.path.abspath(__file__)))
