"""pyvc core: contracts, obligations, per-path state, decision-replay exploration."""
from __future__ import annotations

import ast
from dataclasses import dataclass, field

import z3

from .vals import *  # noqa: F401,F403


class ContractError(Exception):
    """The contract does not fit the code (names a vanished local, wrong type...). Checker error, never a violation."""


class PathEnd(Exception):
    """The current path is finished (cut at a loop back edge, infeasible, or exited)."""


class ReturnSig(Exception):
    def __init__(self, value):
        self.value = value


class BreakSig(Exception):
    pass


class ContinueSig(Exception):
    pass


class RaiseSig(Exception):
    """A Python exception propagating in the analysed code."""

    def __init__(self, exc: str, site: str, implicit: bool, payload=None):
        self.exc, self.site, self.implicit, self.payload = exc, site, implicit, payload


EXC_PARENTS = {
    "IndexError": ["LookupError", "Exception"],
    "KeyError": ["LookupError", "Exception"],
    "ValueError": ["Exception"],
    "TypeError": ["Exception"],
    "AssertionError": ["Exception"],
    "UnboundLocalError": ["NameError", "Exception"],
    "ZeroDivisionError": ["ArithmeticError", "Exception"],
    "AttributeError": ["Exception"],
    "ModuleNotFoundError": ["ImportError", "Exception"],
    "UserError": ["Exception"],  # any exception raised by user-supplied code
}


def exc_matches(exc: str, handler_names: list[str]) -> bool:
    if not handler_names:  # bare except
        return True
    for h in handler_names:
        if h == exc or h in EXC_PARENTS.get(exc, ["Exception"]) or h == "BaseException":
            return True
    return False


@dataclass
class Contract:
    """Sidecar contract of one function (DESIGN.md 2.5). Clause = (label, python-expression string)."""

    qualname: str
    params: dict = field(default_factory=dict)  # name -> type string
    requires: list = field(default_factory=list)
    ensures: list = field(default_factory=list)
    raises: dict = field(default_factory=dict)  # exc -> [clauses]
    modifies: list = field(default_factory=list)  # heap paths "state.line", "state.tokens", "self.__rules__"
    loops: dict = field(default_factory=dict)  # ordinal -> {"inv": [clauses], "dec": expr, "types": {..}}
    at: list = field(default_factory=list)  # [(pattern, ordinal, label, expr)] asserted at matching sites
    inline: bool = False
    result: str | None = None  # result type for use at call sites
    props: list = field(default_factory=list)  # property ids served
    assume_only: bool = False  # trusted contract (listed in evidence as an assumption)
    locals: dict = field(default_factory=dict)  # declared local types
    ghost: dict = field(default_factory=dict)
    notes: str = ""


@dataclass
class Obligation:
    oid: str  # Cxx/qualname/KIND/site
    kind: str
    func: str
    site: str
    smt2: str  # query: pc and not goal ; unsat = discharged
    want: str = "unsat"  # COVER obligations want "sat"
    line: int = 0
    info: str = ""
    props: tuple = ()
    syms: dict = field(default_factory=dict)  # names of entry symbols for lifting
    # filled by discharge
    verdict: str = ""
    solver: str = ""
    seconds: float = 0.0
    model: str = ""


class Decisions:
    def __init__(self, prefix):
        self.prefix = list(prefix)
        self.trace: list[tuple[int, int]] = []

    def choose(self, n: int) -> int:
        k = len(self.trace)
        c = self.prefix[k] if k < len(self.prefix) else 0
        self.trace.append((c, n))
        return c


def explore(run_path, max_paths=20000):
    """Depth-first enumeration of decision sequences. run_path(decisions) runs one path to its end."""
    stack = [[]]
    n = 0
    while stack:
        prefix = stack.pop()
        dec = Decisions(prefix)
        n += 1
        if n > max_paths:
            raise Unsupported(f"more than {max_paths} paths")
        run_path(dec)
        for k in range(len(prefix), len(dec.trace)):
            c, m = dec.trace[k]
            for alt in range(c + 1, m):
                stack.append([x for x, _ in dec.trace[:k]] + [alt])
    return n


def site_label(node: ast.AST, what: str) -> str:
    return f"{what}@L{getattr(node, 'lineno', 0)}"


class Ordinals:
    """Ordinal numbering of loops / subscripts / calls / stores inside one function (contracts are keyed by
    ordinal, never by line number)."""

    def __init__(self, fn: ast.FunctionDef):
        self.loop: dict[int, int] = {}
        self.site: dict[int, str] = {}
        counts: dict[str, int] = {}
        lk = 0
        for node in ast.walk(fn):
            pass
        # deterministic source order
        nodes = sorted(
            (n for n in ast.walk(fn) if hasattr(n, "lineno")),
            key=lambda n: (n.lineno, n.col_offset, -getattr(n, "end_lineno", 0), -getattr(n, "end_col_offset", 0)),
        )
        for n in nodes:
            if isinstance(n, (ast.While, ast.For)):
                self.loop[id(n)] = lk
                lk += 1
            kind = None
            if isinstance(n, ast.Subscript):
                kind = "subscript"
            elif isinstance(n, ast.Call):
                kind = "call"
            elif isinstance(n, ast.Assert):
                kind = "assert"
            elif isinstance(n, ast.Raise):
                kind = "raise"
            elif isinstance(n, (ast.Assign, ast.AugAssign, ast.AnnAssign)):
                kind = "store"
            elif isinstance(n, ast.Return):
                kind = "return"
            elif isinstance(n, ast.BinOp) and isinstance(n.op, (ast.Mod, ast.FloorDiv, ast.Div)):
                kind = "div"
            elif isinstance(n, ast.Name) and isinstance(n.ctx, ast.Load):
                kind = None
            if kind:
                k = counts.get(kind, 0)
                counts[kind] = k + 1
                self.site[id(n)] = f"{kind}#{k}"

    def of(self, node: ast.AST, default: str = "site") -> str:
        return self.site.get(id(node), default)


class NeedFork(Exception):
    """Raised in no-fork mode when evaluation would have to split the path."""
