"""pyvc engine: symbolic execution of one function of the real source against its contract."""
from __future__ import annotations

import ast
import copy

import z3

from . import src as S
from .core import *  # noqa: F401,F403
from .vals import *  # noqa: F401,F403
from .schema import CLASS_MODULE, SCHEMA, class_of_annotation
from .ev_expr import ExprMixin, UNBOUND
from .ev_stmt import StmtMixin
from .ev_call import CallMixin
from .ev_spec import SpecMixin


def has_quant(e, memo=None) -> bool:
    memo = {} if memo is None else memo
    k = e.get_id()
    if k in memo:
        return memo[k]
    r = True if z3.is_quantifier(e) else any(has_quant(c, memo) for c in e.children())
    memo[k] = r
    return r


class Frame:
    def __init__(self, qualname, mi, fn, ords, contract):
        self.qualname, self.mi, self.fn, self.ords, self.contract = qualname, mi, fn, ords, contract
        self.locals: dict[str, V] = {}
        self.entry: dict[str, V] = {}


class Engine(ExprMixin, StmtMixin, CallMixin, SpecMixin):
    """One Engine verifies one function (all its paths)."""

    def __init__(self, qualname: str, registry: dict, specfuns: dict, feas_timeout_ms=2000, props=()):
        self.qualname = qualname
        self.registry = registry  # qualname -> Contract
        self.specfuns = specfuns  # name -> SpecFun
        self.contract: Contract = registry[qualname]
        self.mi, self.fn, self.canon = S.resolve_function(qualname)
        self.ords = Ordinals(self.fn)
        self.obligations: dict[str, list] = {}  # oid -> [(pc list, goal, info)]
        self.ob_meta: dict[str, dict] = {}
        self.paths = 0
        self.feas_timeout_ms = feas_timeout_ms
        self.props = tuple(props or self.contract.props)
        self.assumption_log: set[str] = set()
        self.loops_explored: dict = {}
        self._cover_seen: set = set()
        self._cover_sites: dict = {}
        self._cover_nodes: dict = {}
        self.covered_sites: set[str] = set()
        self.path_log: list = []

    # ------------------------------------------------------------------ per-path state
    def _reset_path(self, dec: Decisions):
        self.dec = dec
        self.pc: list = []
        self.solver = z3.Solver()
        self.solver.set("timeout", self.feas_timeout_ms)
        self.heap: dict = {}
        self.heap0: dict = {}
        self.payload: dict = {}
        self.payload0: dict = {}
        self.frames: list[Frame] = []
        self.alloc = 0
        self.spec_mode = 0
        self.nofork = 0
        self.unfolded: set = set()
        self._lemmas_done: set = set()
        self.ghost: dict = {}
        self.opaque_epoch = 0  # bumped by every contracted call and every store into an opaque mapping (membership memo)
        self.user_exc_sites = 0
        self.old_state = ({}, {})
        self.def_axioms = []
        self.try_stack = []
        self.spec_bind = {}
        self.unfold_depth = 0
        self._use_old = False

    def assume(self, c):
        if z3.is_true(c):
            return
        self.pc.append(c)
        # path-feasibility checks use only the quantifier-free part of the path condition (an
        # over-approximation: more paths are explored, none is lost); obligations get the full pc
        if not has_quant(c):
            self.solver.add(c)

    def feasible(self, c=None) -> bool:
        r = self.solver.check() if c is None else self.solver.check(c)
        return r != z3.unsat

    def branch(self, cond) -> bool:
        """Decide a symbolic condition on this path; forks when both outcomes are feasible."""
        cond = z3.simplify(cond)
        if z3.is_true(cond):
            return True
        if z3.is_false(cond):
            return False
        t = self.feasible(cond)
        f = self.feasible(z3.Not(cond))
        if t and f:
            if self.nofork:
                raise NeedFork()
            c = self.dec.choose(2)
            val = c == 0
        elif t:
            val = True
        elif f:
            val = False
        else:
            raise PathEnd()
        self.assume(cond if val else z3.Not(cond))
        return val

    def new_ref(self, hint: str) -> str:
        self.alloc += 1
        return f"{hint}#{self.alloc}"

    # ------------------------------------------------------------------ obligations
    def oblige(self, kind: str, site: str, goal, node=None, info: str = "", func=None):
        """Record `pc => goal` for obligation id kind/site of the function being verified."""
        func = func or self.qualname
        oid = f"{func}/{kind}/{site}"
        goal = z3.simplify(goal) if not isinstance(goal, bool) else z3.BoolVal(goal)
        self.ob_meta.setdefault(oid, {"kind": kind, "site": site, "func": func, "line": getattr(node, "lineno", 0), "info": info})
        lst = self.obligations.setdefault(oid, [])
        if z3.is_true(goal):
            lst.append(None)  # trivially discharged instance (still counts as generated)
            return
        lst.append((list(self.pc), goal))

    # ------------------------------------------------------------------ driver
    def run(self):
        def one(dec):
            self._reset_path(dec)
            self.paths += 1
            try:
                self.run_function_top()
            except PathEnd:
                pass

        explore(one)
        for site, ok in self._cover_sites.items():
            if not ok:
                self.pc = []
                self.oblige("COVER", site, False, self._cover_nodes.get(site), "every path reaching this point has an unsatisfiable path condition: assumed contracts/invariants contradict each other")
        return self

    def run_function_top(self):
        c = self.contract
        fr = Frame(self.canon, self.mi, self.fn, self.ords, c)
        self.frames.append(fr)
        self.bind_params_symbolic(fr)
        # snapshot entry
        fr.entry = dict(fr.locals)
        for label, expr in c.requires:
            self.assume(self.spec_bool(expr, fr, label))
        self.apply_lemmas(fr)
        self.base_pc = list(self.pc)
        # vacuity guard: the precondition must be satisfiable
        if not self.feasible():
            self.oblige("COVER", "requires", False, self.fn, "precondition unsatisfiable")
            raise PathEnd()
        try:
            self.exec_block(self.fn.body, fr)
            self.exit_normal(NONE, fr, self.fn)
        except ReturnSig as r:
            self.exit_normal(r.value, fr, r.__dict__.get("node", self.fn))
        except RaiseSig as e:
            self.exit_raise(e, fr)

    def apply_lemmas(self, fr):
        """ghost["lemmas"] = [{"name", "vars": {v: "int"|"atom"}, "induct": v, "stmt": expr}]: facts that need induction.
        LEMMA-base: stmt[induct := 0]; LEMMA-step: induct >= 0 and stmt => stmt[induct := induct + 1] (for fresh values of
        the variables); the universally quantified lemma is then available to every obligation of the function."""
        for lem in (self.contract.ghost or {}).get("lemmas", []):
            needs = lem.get("needs") or []
            if any(fr.locals.get(n, UNBOUND) is UNBOUND for n in needs):
                continue  # stated once the locals it talks about exist (see lemma_hook)
            if lem["name"] in self._lemmas_done:
                continue
            self._lemmas_done.add(lem["name"])
            assume = self.assume_axiom if needs else self.assume

            def inst(kterm, tag):
                extra = {}
                for v, ty in lem["vars"].items():
                    if v == lem["induct"]:
                        extra[v] = VInt(kterm)
                    else:
                        t = z3.Int(f"{tag}_{v}")
                        extra[v] = VAtom(t) if ty == "atom" else VInt(t)
                return self.truth(self.spec_eval(lem["stmt"], fr, extra=extra)), extra
            k = z3.Int("lem_k")
            base, _ = inst(z3.IntVal(0), "lem")
            hyp, _ = inst(k, "lem")
            step, _ = inst(k + 1, "lem")
            if self.paths <= 1 or needs:
                self.oblige("LEMMA-base", lem["name"], base, self.fn)
                self.oblige("LEMMA-step", lem["name"], z3.Implies(z3.And(k >= 0, hyp), step), self.fn)
            qk = z3.Int("q_k")
            extra = {}
            qs = []
            for v, ty in lem["vars"].items():
                t = qk if v == lem["induct"] else z3.Int("q_" + v)
                qs.append(t)
                extra[v] = VInt(t) if (v == lem["induct"] or ty != "atom") else VAtom(t)
            saved_depth = self.unfold_depth
            self.unfold_depth = 5  # do not instantiate definitions at the bound variables
            try:
                body = self.truth(self.spec_eval(lem["stmt"], fr, extra=extra))
            finally:
                self.unfold_depth = saved_depth
            assume(z3.ForAll(qs, z3.Implies(qk >= 0, body)))

    def lemma_hook(self, fr, name):
        """a local a lemma `needs` has just been bound"""
        if fr is self.frames[0] and any(name in (l.get("needs") or []) for l in (self.contract.ghost or {}).get("lemmas", [])):
            self.apply_lemmas(fr)

    def cover_check(self, site, node=None):
        """vacuity guard (DESIGN 2.8): the *full* path condition (with the quantified hypotheses) must be satisfiable
        wherever obligations are about to be generated; an unsatisfiable one would discharge everything. 'unknown'
        is accepted (the guard is a refuter, not a prover)."""
        if self._cover_sites.get(site):
            return  # some path reaching this site is already known to be satisfiable
        key = tuple(c.get_id() for c in self.pc)
        if key in self._cover_seen:
            return
        self._cover_seen.add(key)
        s = z3.Solver()
        s.set("timeout", 1500)
        s.add(*self.pc)
        sat_or_unknown = s.check() != z3.unsat
        # an individual infeasible path is normal (the quantifier-free feasibility filter cannot prune it); the guard
        # fires when *every* path reaching a site has an unsatisfiable path condition
        self._cover_sites[site] = self._cover_sites.get(site, False) or sat_or_unknown
        self._cover_nodes[site] = node

    def exit_normal(self, value, fr, node):
        c = self.contract
        self.covered_sites.add("exit-normal")
        self.cover_check("exit-normal", node)
        # in postconditions parameter names denote the entry values (parameters are mutable locals in Python)
        saved = dict(fr.locals)
        fr.locals.update(fr.entry)
        try:
            for label, expr in c.ensures:
                g = self.spec_bool(expr, fr, label, result=value)
                self.oblige("POST", label, g, node)
        finally:
            fr.locals = saved
        self.check_frame_exit(fr)

    def exit_raise(self, e: RaiseSig, fr):
        c = self.contract
        if e.exc in c.raises:
            self.covered_sites.add("exit-raise-" + e.exc)
            saved = dict(fr.locals)
            fr.locals.update(fr.entry)
            try:
                for label, expr in c.raises[e.exc]:
                    g = self.spec_bool(expr, fr, label)
                    self.oblige(f"POST-raise[{e.exc}]", label, g)
            finally:
                fr.locals = saved
            self.check_frame_exit(fr)
        else:
            # an exception the contract does not allow
            self.oblige("SAFE", e.site, False, None, f"may raise {e.exc}")

    # ------------------------------------------------------------------ frame condition at function exit
    def effective_modifies(self):
        """what a caller of this function may see changed. Declared `modifies`, else - for a function of rule shape, which is
        only ever called through a dispatch loop - the modifies clause of the generic rule contract its callers use, else
        nothing (the function is used as a pure callee)."""
        c = self.contract
        g = (c.ghost or {}).get("frame")
        if g == "off":
            return None
        mods = list(c.modifies or [])
        if self.qualname.endswith(".__init__"):
            mods.append("self")  # the object under construction: every field is being initialised
        keys = list((c.params or {}).keys())
        generic = None
        if keys[:2] == ["state", "silent"] and (c.params or {}).get("state") == "obj:StateInline":
            generic = "<inline_rule>"
        elif len(keys) == 4 and keys[0] == "state" and keys[3] == "silent" and (c.params or {}).get("state") == "obj:StateBlock":
            generic = "<block_rule>"
        if generic and generic in self.registry:
            mods += [m for m in self.registry[generic].modifies if m not in mods]
            if generic == "<inline_rule>":
                mods += ["state.tokens", "state.tokens_meta", "state._prev_delimiters"]
            else:
                mods += ["state.tokens", "state.env"]
        return mods

    def frame_same(self, a, b):
        """z3 Bool: the two values are the same; None when the model cannot compare them"""
        if a is b:
            return z3.BoolVal(True)
        if isinstance(a, (VInt, VBool)) and isinstance(b, (VInt, VBool)):
            return self.as_int(a) == self.as_int(b) if isinstance(a, VInt) or isinstance(b, VInt) else a.t == b.t
        if isinstance(a, VAtom) and isinstance(b, VAtom):
            return a.t == b.t
        if isinstance(a, VStr) and isinstance(b, VStr):
            return str_eq(a, b)
        if isinstance(a, VNone) and isinstance(b, VNone):
            return z3.BoolVal(True)
        if isinstance(a, VOpt) and isinstance(b, VOpt):
            inner = self.frame_same(a.some, b.some)
            if inner is None:
                return None
            return z3.And(a.isnone == b.isnone, z3.Implies(z3.Not(a.isnone), inner))
        if isinstance(a, (VObj, VList, VDict)) and isinstance(b, (VObj, VList, VDict)) and type(a) is type(b):
            return z3.BoolVal(a.ref == b.ref)
        return None

    def check_frame_exit(self, fr):
        """FRAME obligations (deductive frame condition): every field of an entry-state object that this path has written -
        directly, through an inlined helper, or by the havoc of a callee's modifies clause - and that the (effective) modifies
        clause does not list must hold its entry value again. Callers rely on exactly this when they keep what they know
        about everything a callee's modifies clause does not name."""
        if fr is not self.frames[0]:
            return
        mods = self.effective_modifies()
        if mods is None:
            return
        roots = {v.ref: k for k, v in fr.entry.items() if isinstance(v, VObj)}
        cls_of_ref = {v.ref: v.cls for v in fr.entry.values() if isinstance(v, VObj)}
        for hv in list(self.heap0.values()) + list(self.heap.values()):
            if isinstance(hv, VObj):
                cls_of_ref.setdefault(hv.ref, hv.cls)

        def covered(path):
            if path.endswith(".__cache__"):
                return True  # Ruler's chain memo: its value is determined by the rules (C11 RI), writing it is unobservable
            return any(path == m or path.startswith(m + ".") or path.startswith(m + "[") for m in mods)

        for (ref, name), val in list(self.heap.items()):
            if "#" in ref or ref.split(".")[0] not in roots:
                continue  # an object created during the call
            if (ref, name) not in self.heap0:
                try:
                    self.get_field(VObj(ref, cls_of_ref.get(ref, "?")), name, old=True)
                except Exception:  # noqa: BLE001
                    continue
            entry = self.heap0.get((ref, name))
            if entry is None or entry is val:
                continue
            path = f"{ref}.{name}"
            if covered(path):
                continue
            same = self.frame_same(val, entry)
            if same is None:
                self.assumption_log.add(f"frame of {path} not comparable in the heap model ({type(val).__name__})")
                continue
            self.oblige("FRAME", f"exit/{path}", same, None, f"{path} is written on this path, is not in the modifies clause, and must hold its entry value at exit")
        # list / map payloads of entry objects mutated in place
        for ref, p in list(self.payload.items()):
            if "#" in ref or ref not in self.payload0 or p is self.payload0[ref]:
                continue
            if ref.split(".")[0] not in roots:
                continue
            if covered(ref):
                continue
            if any(("old(" + ref + "[") in e or ("old(" + ref + ")") in e for _, e in self.contract.ensures):
                continue  # the contents are pinned element-wise by an explicit postcondition of the contract
            p0 = self.payload0[ref]
            if isinstance(p, IntListP) and isinstance(p0, IntListP):
                same = z3.And(p.len == p0.len, p.arr == p0.arr) if not (p.len is p0.len and p.arr is p0.arr) else z3.BoolVal(True)
            elif isinstance(p, IntMapP) and isinstance(p0, IntMapP):
                same = z3.And(p.keys == p0.keys, p.vals == p0.vals) if not (p.keys is p0.keys and p.vals is p0.vals) else z3.BoolVal(True)
            else:
                continue
            self.oblige("FRAME", f"exit/{ref}[]", same, None, f"the contents of {ref} are written on this path, are not in the modifies clause, and must be the entry contents at exit")

    def check_at(self, st, fr, what, val, index=None, node=None):
        """`at` clauses of the contract: assertions attached to store / call sites (GUARD obligations).
        pattern 'store:attr', 'store[]:attr' (optionally '@k,l': only the k-th, l-th such site in source order), 'call:rule'"""
        if fr is not self.frames[0]:
            return
        for pattern, label, expr in self.contract.at:
            pat, _, ords = pattern.partition("@")
            if pat != what:
                continue
            if ords:
                k = self.site_ordinal(fr, what, node if node is not None else st)
                if str(k) not in ords.split(","):
                    continue
            self.covered_sites.add("at:" + label)
            extra = {"value": val}
            if index is not None:
                extra["index"] = index
            g = self.spec_eval(expr, fr, extra=extra)
            self.oblige("GUARD", f"{fr.ords.of(st, 'site')}/{label}", self.truth(g), st)

    def site_ordinal(self, fr, what, node):
        """ordinal of `node` among the sites of kind `what` in the function, in source order"""
        import ast as _ast

        kind, _, attr = what.partition(":")
        sites = []
        for n in _ast.walk(fr.fn):
            if isinstance(n, (_ast.Assign, _ast.AugAssign)):
                for t in (n.targets if isinstance(n, _ast.Assign) else [n.target]):
                    if kind == "store[]" and isinstance(t, _ast.Subscript) and isinstance(t.value, _ast.Attribute) and t.value.attr == attr:
                        sites.append(t)
                    if kind == "store[]" and isinstance(t, _ast.Subscript) and isinstance(t.value, _ast.Name) and t.value.id == attr:
                        sites.append(t)
                    if kind == "store" and isinstance(t, _ast.Attribute) and t.attr == attr:
                        sites.append(t)
        sites.sort(key=lambda t: (t.lineno, t.col_offset))
        for k, t in enumerate(sites):
            if t is node or (hasattr(node, "targets") and t in getattr(node, "targets", [])) or t is getattr(node, "target", None):
                return k
        return -1
