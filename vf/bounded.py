"""Bounded stand-in driver: runs a check function over a bounded universe of documents on all cores.

Always labelled *bounded* in evidence and never counted as proved (DESIGN.md 2.6)."""
from __future__ import annotations

import importlib
import itertools
import os
import signal
import time
import zlib
from concurrent.futures import ProcessPoolExecutor

from . import universe as U
from .report import Bounded


class DocTimeout(Exception):
    pass


def _alarm(signum, frame):
    raise DocTimeout()


def _resolve(spec: str):
    mod, fn = spec.split(":")
    return getattr(importlib.import_module(mod), fn)


def _task(args):
    """one partition of a universe: returns dict(evals, sigs, failures, skipped, samples)"""
    check_spec, kind, part, k, cfgs, timeout_s, opts = args
    check = _resolve(check_spec)
    # CPU-time timer (ITIMER_VIRTUAL): a document is judged by the processor time it consumes, so verdicts do not
    # flip when all cores are busy
    signal.signal(signal.SIGVTALRM, _alarm)
    if kind == "lines":
        first = U.V[part]
        def gen():
            for n in range(1, k + 1):
                for rest in itertools.product(U.V, repeat=n - 1):
                    body = "\n".join((first,) + rest)
                    for d in (body, body + "\n"):
                        if opts.get("wrapped"):
                            yield from U.wrappers(d)
                        else:
                            yield d
    elif kind == "inline":
        first = U.INLINE_FRAGS[part]
        def gen():
            for n in range(1, k + 1):
                for rest in itertools.product(U.INLINE_FRAGS, repeat=n - 1):
                    yield first + "".join(rest)
    elif kind == "random":
        def gen():
            yield from U.random_docs(k, opts.get("seed", 0) * 1000 + part, opts.get("max_lines", 8))
    elif kind == "list":
        items = opts["items"]
        def gen():
            yield from items[part::opts["nparts"]]
    elif kind == "gen":
        g = _resolve(opts["gen"])
        def gen():
            for i, x in enumerate(g(*opts.get("gen_args", ()))):
                if i % opts["nparts"] == part:
                    yield x
    else:
        raise ValueError(kind)
    state: dict = {}
    evals = 0
    skipped = 0
    sigs: set = set()
    failures = []
    samples = []
    for doc in gen():
        for cfg in cfgs:
            evals += 1
            signal.setitimer(signal.ITIMER_VIRTUAL, timeout_s)
            try:
                res = check(state, cfg, doc)
            except DocTimeout:
                res = {"fail": [{"what": "timeout", "key": "timeout"}]} if opts.get("timeout_is_failure") else {"skip": True}
            except Exception as e:  # target failed: only C01 judges this
                if opts.get("exception_is_failure"):
                    import traceback

                    tb = traceback.extract_tb(e.__traceback__)
                    loc = next((f"{os.path.basename(f.filename)}:{f.name}" for f in reversed(tb) if "markdown_it" in f.filename), "?")
                    res = {"fail": [{"what": f"{type(e).__name__} at {loc}", "key": f"{type(e).__name__}@{loc}"}]}
                else:
                    res = {"skip": True}
            finally:
                signal.setitimer(signal.ITIMER_VIRTUAL, 0)
            if not res:
                continue
            if res.get("skip"):
                skipped += 1
                continue
            sig = res.get("sig")
            if sig is not None and len(sigs) < 400000:
                sigs.add(zlib.crc32(repr(sig).encode()) if not isinstance(sig, int) else sig)
            for f in res.get("fail", []):
                if len(failures) < 40:
                    f = dict(f)
                    f.setdefault("input", doc)
                    f.setdefault("config", cfg)
                    failures.append(f)
            if len(samples) < 2 and sig is not None:
                samples.append({"config": cfg, "case": doc[:80] if isinstance(doc, str) else repr(doc)[:160]})
    return {"evals": evals, "skipped": skipped, "sigs": sigs, "failures": failures, "samples": samples}


def run(check_spec: str, kind: str, k: int, cfgs, function: str, contract: str, rule: str, timeout_s=2.0, workers=None, **opts) -> Bounded:
    workers = workers or min(16, os.cpu_count() or 4)
    if kind == "lines":
        parts = range(len(U.V))
        universe = f"all sequences of <= {k} lines over the {len(U.V)}-shape vocabulary, with/without final newline" + (", x 9 container wrappers" if opts.get("wrapped") else "")
        bound = f"k={k}"
    elif kind == "inline":
        parts = range(len(U.INLINE_FRAGS))
        universe = f"all concatenations of <= {k} fragments over {len(U.INLINE_FRAGS)} inline fragments"
        bound = f"k={k}"
    elif kind == "random":
        nparts = opts.get("nparts", workers)
        parts = range(nparts)
        universe = f"{k * nparts} seeded random documents (seed {opts.get('seed', 0)}) of <= {opts.get('max_lines', 8)} vocabulary lines"
        bound = f"n={k * nparts}"
    elif kind == "list":
        nparts = opts.setdefault("nparts", workers)
        parts = range(nparts)
        universe = opts.get("universe", f"{len(opts['items'])} listed cases")
        bound = f"n={len(opts['items'])}"
    elif kind == "gen":
        nparts = opts.setdefault("nparts", workers)
        parts = range(nparts)
        universe = opts.get("universe", f"cases generated by {opts['gen']}{opts.get('gen_args', ())}")
        bound = opts.get("bound", str(opts.get("gen_args", "")))
    tasks = [(check_spec, kind, p, k, list(cfgs), timeout_s, opts) for p in parts]
    b = Bounded(function=function, contract=contract, universe=universe + f" x configs {list(cfgs)}", bound=bound, rule=rule)
    sigs: set = set()
    exhaustive = kind in ("lines", "inline", "list", "gen") and not opts.get("sampled")
    if workers == 1:
        outs = map(_task, tasks)
    else:
        ex = ProcessPoolExecutor(max_workers=workers)
        outs = ex.map(_task, tasks)
    for o in outs:
        b.evaluations += o["evals"]
        b.skipped += o["skipped"]
        sigs |= o["sigs"]
        for f in o["failures"]:
            if len(b.failures) < 60:
                b.failures.append(f)
        if len(b.samples) < 5:
            b.samples.extend(o["samples"])
    if workers != 1:
        ex.shutdown()
    b.distinct_nontrivial = len(sigs)
    b.exhaustive = exhaustive
    return b
