#!/bin/bash
# Confirms each candidate seeded change (from /tmp/seed/Cxx/out/k) in a scratch worktree: patch applies, suite stays at the
# baseline, demo passes without and fails with the change. Keeps confirmed ones under /verif/seeded/<id>-<k>/.
set -u
W=/tmp/val_wt
git -C /repo worktree remove --force $W 2>/dev/null; rm -rf $W
git -C /repo worktree add -q --detach $W HEAD
cd $W
BASE=$(PYTHONPATH=$W /venv/bin/python -m pytest -q -p no:cacheprovider 2>&1 | tail -1)
echo "baseline: $BASE"
for d in /tmp/seed/C*/out/*; do
  [ -f $d/patch.diff ] || continue
  id=$(basename $(dirname $(dirname $d)))-$(basename $d)
  git checkout -q -- . ; git clean -fdq
  cp $d/demo.py $W/_demo.py
  without=$(PYTHONPATH=$W timeout 300 /venv/bin/python _demo.py 2>&1 | tail -1); rc0=$?
  PYTHONPATH=$W timeout 300 /venv/bin/python _demo.py >/dev/null 2>&1; rc0=$?
  if ! git apply $d/patch.diff 2>/dev/null; then echo "$id: PATCH DOES NOT APPLY"; continue; fi
  t=$(PYTHONPATH=$W /venv/bin/python -m pytest -q -p no:cacheprovider 2>&1 | tail -1)
  PYTHONPATH=$W timeout 300 /venv/bin/python _demo.py > /tmp/val_demo.out 2>&1; rc1=$?
  with=$(tail -1 /tmp/val_demo.out | cut -c1-200)
  ok=no
  if [ "$t" == "$BASE" ] || [ "$(echo $t | sed 's/ in .*//')" == "$(echo $BASE | sed 's/ in .*//')" ]; then
    if [ $rc0 -eq 0 ] && [ $rc1 -ne 0 ]; then ok=yes; fi
  fi
  echo "$id: confirmed=$ok tests='$(echo $t | sed 's/ in .*//')' demo_without_rc=$rc0 demo_with_rc=$rc1 :: $with"
  if [ $ok == yes ]; then
    mkdir -p /verif/seeded/$id
    cp $d/patch.diff $d/demo.py /verif/seeded/$id/
    /venv/bin/python - "$d/meta.json" "/verif/seeded/$id/meta.json" "$t" "$with" <<'PY'
import json,sys
try: m=json.load(open(sys.argv[1]))
except Exception: m={}
m["confirmed_by_me"]={"worktree":"scratch git worktree of /repo HEAD (removed afterwards)","pytest_with_change":sys.argv[3],"demo_without_change":"exit 0 (PASS)","demo_with_change":sys.argv[4]}
json.dump(m,open(sys.argv[2],"w"),indent=1)
PY
  fi
done
cd /; git -C /repo worktree remove --force $W
