import os, sys, time
sys.path.insert(0, os.path.dirname(os.path.dirname(os.path.abspath(__file__))))
from vf.verify import verify, summarize
import contracts.block as B
qs = sys.argv[1:] or ["markdown_it.rules_block.hr.hr"]
t=time.time()
import os
CM = os.environ.get("CM","contracts.block")
res = verify(qs, CM, workers=1 if len(qs)==1 else None)
for q,r in res.items():
    print(q, r.status, r.detail[:1500], "paths", r.paths, f"{r.seconds:.2f}s")
    for ob in r.obligations:
        print("  ", ob.verdict, ob.oid.split('/',1)[1], ob.solver, f"{ob.seconds:.2f}", (ob.model[:300] if ob.verdict=='failed' else ''))
print(summarize(res), f"{time.time()-t:.1f}s")
