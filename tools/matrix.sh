#!/bin/bash
# tools/matrix.sh [ids...] : runs the quick check of the property each seeded change breaks against a scratch copy of
# /repo with the change applied (VERIF_REPO + PYTHONPATH point the whole harness at the copy). Prints one line per change.
cd "$(dirname "$0")/.."
ids=${@:-$(ls seeded)}
for id in $ids; do
  prop=${id%%-*}
  W=/tmp/mx/$id
  rm -rf $W; mkdir -p $W
  cp -r /repo/markdown_it $W/
  (cd $W && patch -p1 -s < /verif/seeded/$id/patch.diff) || { echo "$id: patch failed"; continue; }
  find $W -name __pycache__ -prune -exec rm -rf {} + 2>/dev/null
  props="$prop ${EXTRA_PROPS:-}"
  for p in $props; do
    t0=$(date +%s)
    out=$(VERIF_OUT=$W VERIF_REPO=$W PYTHONPATH=$W timeout 1200 ./check $p --tier ${TIER:-quick} 2>&1); rc=$?
    t1=$(date +%s)
    nviol=$(echo "$out" | grep -c '^VIOLATION')
    first=$(echo "$out" | grep -m1 '^VIOLATION' | sed 's/.*replay=[^ ]* //' | cut -c1-150)
    und=$(echo "$out" | grep -c '^UNDECIDED\|^OUT-OF-REACH\|^CHECKER')
    nd=$(echo "$out" | grep '^VIOLATION' | grep -c 'obligation=')
    nb=$(echo "$out" | grep '^VIOLATION' | grep -c 'bounded-contract=')
    echo "$id check=$p exit=$rc violations=$nviol undecided/other=$und secs=$((t1-t0)) D=$nd B=$nb :: $first"
  done
  rm -rf $W
done
