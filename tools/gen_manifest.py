#!/usr/bin/env python3
"""Regenerates /verif/MANIFEST.json from the table below (run after adding a check)."""
import json
import os

HERE = os.path.dirname(os.path.dirname(os.path.abspath(__file__)))
PROPS = [json.loads(l) for l in open(os.path.join(HERE, "properties.jsonl"))]

DED = "contract-based deductive verification: pyvc generates VCs from the real source (ast) against sidecar contracts; z3, cvc5 on unknowns"
TB = ("Trusted: pyvc (vf/), z3 5.1.0 / cvc5; Python semantics as in DESIGN.md 2.4; assumed contracts on re/str/mdurl; "
      "composition steps listed in DESIGN.md 6. Bounded stand-ins are labelled bounded in evidence and never counted as proved.")

MIX = ("Mixed (level 'other'): the deductive obligations listed in evidence (coverage.obligations == discharged, by back end) carry the anchored mechanisms for all inputs; "
       "the remaining clauses of the statement are run-time contract monitors over bounded-exhaustive universes, reported under coverage.bounded and labelled bounded. ")
CHECKS = {
    # id: (category, text, note, technique, design_ref)
    "C01": ("other", MIX + "SAFE (no exception at any indexing/int/chr/assert site) and DEC (termination) obligations under the line-table invariant WF for StateBlock.__init__, getLines and the scanning helpers, the seven leaf block rules, "
            "blockquote, list_block and its marker scanners, ParserBlock.tokenize, ParserInline.tokenize/skipToken, escape, newline, backtick, scanDelims, the emphasis/strikethrough tokenizers, processDelimiters "
            "(incl. no negative index), both _postProcess rules, fragments_join, parseLinkTitle/Destination/Label, text_join, text, link, image, autolink, table, reference, and - with a structural model of their anchored regular expressions - entity, html_inline and replaceEntityPattern "
            "(int()/chr()/lookup safety, the match never crosses posMax); every function additionally proves a frame condition at exit (FRAME/exit: what it wrote and its modifies clause does not name is restored); no-exception/no-hang monitor over the wrapped line universe x 9-12 configurations and run-time evaluation of the contracts' preconditions at every real call.", TB, DED + "; bounded no-exception monitor", "4 C01"),
    "C02": ("other", MIX + "Balanced/levelled/flagged token postconditions of the seven leaf block rules, blockquote and list_block (push inlined) discharged; the delimiter pipeline is verified function by function: tokenizers establish the delimiter-list invariant, "
            "processDelimiters yields forward-pointing, same-marker, injective, never-crossing pairs, emphasis/strikethrough _postProcess retag exactly matched pairs consistently and never move structure, fragments_join makes every level the depth and merges adjacent text, "
            "text_join removes every text_special at any image depth; link/image/autolink/entity/html_inline token posts; full stream contract monitored on parse/parseInline (incl. a nested-tag delimiter universe: autolinks inside link labels).", TB, DED + "; bounded stream monitor", "4 C02"),
    "C03": ("other", MIX + "map == [startLine, line'], non-empty, non-blank start/end postconditions of the leaf rules, blockquote and list_block (progress within lineMax, end-line patches in range) and skipEmptyLines discharged; whole map contract monitored on parse output.", TB, DED + "; bounded map monitor", "4 C03"),
    "C04": ("other", MIX + "html_block succeeds only under a truthy options.html (POST); LANG obligations for escapeHtml and the renderer functions; strikethrough._postProcess never moves or alters a structural token present at entry (keeps </s> inside its element); output language monitor (Safe, nested) over line, inline and delimiter universes with html off.", TB, DED + "; bounded output-language monitor", "4 C04"),
    "C06": ("other", MIX + "The quote-form mechanism is proved: rules_block.blockquote verified on all paths (212 obligations): per quoted line the tables move past the marker and its optional blank with the physical-column "
            "invariant re-established, the nested block loop runs on well-formed tables with blkIndent 0, the open token's map is [startLine, line'], and all tables and context fields are restored. The law itself "
            "(a relation between two runs of the whole parser) is monitored in quote and list form, nested to depth 3.", TB + " list_block's restore/progress contract is proved as well; the law for lists is monitored.", DED + "; bounded relational monitor (quote and list form)", "4 C06"),
    "C07": ("other", MIX + "Leaf rules: failing/silent calls change nothing, successful calls restore level and parentType (POSTs discharged); the concatenation law monitored over closed-A x non-indented-B pairs.", TB, DED + "; bounded relational monitor", "4 C07"),
    "C08": ("other", MIX + "markup == scanned marker run with its count, info == src slice, content == getLines of exactly the token's lines (hr, heading, lheading, fence, code, html_block) discharged for all inputs; "
            "getLines stores, per line, the source text from inside the line's indentation to its end preceded only by the <= 3 blanks of a partially consumed tab (GUARDs); list info/markup come from the item's own line; the code span rule is verified against the exact content spec of the statement; whole-content and code-span oracles monitored.", TB + " ''.join and one-character str methods are trusted models.", DED + "; bounded content monitor", "4 C08"),
    "C11": ("proof", "Every Ruler mutator is proved to invalidate the compiled cache on every exit (normal and KeyError) and to have exactly the "
            "documented set semantics (quantified postconditions over the rule records); first-match lookup proved; encapsulation: no parse-path function writes an object that outlives the call, in particular not the chains getRules hands out "
            "(FRAME obligations, incl. in-place `+=`). By induction over histories RI holds after any sequence of calls.",
            TB + " getRules/__compile__ are proved too (cache == Filter(rules, chain), Seq-valued spec function); the bounded history monitor (all sequences <= 3/4 over 47 ops) covers the comprehension-built getters, reported under coverage.bounded.",
            DED + "; bounded operation-sequence monitor", "3.1, 4 C11"),
    "C12": ("proof", "Frame obligations (region typing) for every heap write site of every function in the package: parse-path functions write only per-call objects and the caller's env; the single instance write is "
            "Ruler.__cache__; nothing writes module state; no global/setattr/mutable default/mutable class attribute; an augmented assignment on a local that denotes a shared list counts as a write to it; ownership: a field written through elsewhere "
            "(OptionsDict._options, RendererHTML.rules, Ruler.__rules__) is only ever assigned an object created for the instance (typing.cast is not a copy). Hence results are a function of (configuration, src, env).",
            TB + " The region table of vf/frame.py is trusted; dependencies assumed stateless. A random API-history monitor is the bounded stand-in for the composition step.",
            "frame (modifies) clauses per function discharged by region typing over the real source", "2.3, 4 C12"),
    "C13": ("proof", "Frame: the only instance state written during a parse is Ruler.__cache__. Strong invariant: every store to __cache__ publishes None or a complete local table that is never mutated afterwards "
            "(publication dataflow over getRules/__compile__, aliases tracked). Owicki-Gries composition gives interference freedom at every interleaving.",
            TB + " GIL atomicity of a single attribute store/load and the Owicki-Gries step are assumed.", "frame obligations + strong-invariant (publication) obligations on the real source", "4 C13"),
    "C14": ("proof", "reset_rules executed symbolically with @contextmanager semantics: on both continuations of the yield the snapshot is restored in all four rulers (POST and POST-raise discharged); Ruler mutators keep RI on "
            "KeyError exits; frame obligations hold at every program point so a raising callback leaves rules/options/renderer table untouched.",
            TB + " The with-body is assumed to use only the public Ruler API. Crash-point monitor as bounded stand-in.", DED + "; frame back end; bounded crash-point monitor", "4 C14"),
    "C05": ("other", MIX + "LANG: no URL accepted by validateLink (its own control structure and regex literals after strip+lower) lies in the dangerous-scheme language (z3 regex solver, witness replayed natively); "
            "TYPESTATE: at every href/src store site of the six producers and at the writer of env references the value is '' or normalizeLink's result tested by validateLink on that path, or read from env references; "
            "the MarkdownIt.normalizeLink/validateLink/normalizeLinkText methods are plain delegations to common.normalize_url (LANG/delegates).",
            TB + " mdurl.encode's output alphabet is an assumed contract on the dependency (monitored on the bounded inputs).", "regular-language inclusion + path-sensitive typestate analysis of the real source; bounded URL monitor", "4 C05"),
    "C10": ("other", MIX + "VOCAB: token types created by each registered rule function (registries read from the source) lie in the rule's declared vocabulary; GUARD: html tokens only under options.html; ROUTE: OptionsDict "
            "attribute and item access use the same backing key, enable/disable fan out to all four rulers; Ruler mutators (pyvc) have exact set semantics and invalidate the compiled chains; READS: no function of markdown_it.main reads an option value "
            "(options act where they are used, so the three routes cannot be told apart); html_block and html_inline (pyvc) succeed only under a truthy html option.",
            TB + " 'a rule that returns False without effects is a no-op in a dispatch loop' is a composition step.", DED + "; literal/dominance obligations; bounded vocabulary and conservativity monitors", "4 C10"),
    "C16": ("other", MIX + "ENUM: for all 1 112 064 Unicode scalar values equal case folding implies equal normalizeReference (complete enumeration on the real function); GUARD: first definition wins, later ones go to duplicate_refs, "
            "both with the map of their own lines; the same normalisation is used by definitions and by link/image lookups, which only .get from env; the API passes the caller's env object through; link and image (pyvc) give up only for a stated reason "
            "(GUARD at every return: no bracket, no label end, malformed inline form, no definitions, label not defined), so a defined label always resolves; env is written by the reference rule only (FRAME/env-writer); reference line accounting proved.",
            TB + " Lifting single-character case folding to strings is a composition step.", "exhaustive enumeration + dominance obligations on the real source; bounded seeding/form/label monitors", "4 C16"),
    "C18": ("other", MIX + "READS: renderer-only options are read (directly or through direct calls) only by their documented renderer functions and by nothing on the parse side; ORDER: the core inline rule hands exactly "
            "(content, md, env, children) to ParserInline.parse and StateInline.level starts at 0, so inline parsing does not depend on the block context; FRAME/env-writer: the block phase writes env only when it records a definition.", TB, "reads/order obligations on the real source; bounded embedding and option-inertness monitors", "4 C18"),
    "C19": ("other", MIX + "replace_scoped/replace_rare verified by pyvc: GUARD at every content store (text token, no auto link open; counter invariant), postcondition 'only content of text tokens outside autolinks changes'; "
            "smartquotes: dominance GUARDs for every content store and stack push; ORDER: text_join runs after the typographic rules; escape and entity (pyvc) hand every escaped / referenced character on in a text_special token of its own, never in the pending text.", TB, DED + "; dominance obligations; bounded shape/locality monitor", "4 C19"),
    "C09": ("other", MIX + "The escape rule is verified on all paths (pyvc): it fires only on a backslash, pushes exactly one text_special carrying the escaped ASCII-punctuation character and advances by 2, keeps "
            "backslash + character otherwise, is pure when silent/failing; the entity rule is verified with a structural model of its two regular expressions (one text_special per reference, pending text flushed); text_join folds all specials; ORDER: text_join runs last. "
            "The end-to-end statement (9 contexts x 2 encodings) is monitored on the real render.",
            TB + " the decoded value of a reference (int() result, entities table) and title unescaping are covered by the bounded templates only.", DED + "; bounded template monitor", "4 C09"),
    "C17": ("other", MIX + "Substitution-lemma side conditions for normalize (regex literals match CR, CRLF-as-one, NUL; replacements clean; chained state.src -> state.src) and ORDER normalize-first: no CR/NUL reaches a later rule. "
            "The tab/column equivalences are monitored (leading tabs, marker tabs on first and continuation lines).", TB + " re.sub substitution lemma assumed.", "regex side-condition obligations (z3) + order obligations; bounded equivalence monitors", "4 C17"),
    "C20": ("other", MIX + "Guards proved (pyvc): rules run only under level < maxNesting in ParserBlock.tokenize, ParserInline.tokenize and skipToken; skipToken strictly advances, memoises every outcome and answers from the memo without "
            "calling a rule; the memo never forgets or rewrites an entry (postcondition of the generic rule contract, skipToken, tokenize, parseLinkLabel, link, image); both tokenizers terminate. The growth claim itself is an amortised resource bound and is decided only by the bounded cost contract (42 families at L, 2L, 4L).",
            TB + " Known finding: family refdefs is quadratic (recorded in known_findings.json).", DED + "; bounded cost contract (sys.setprofile call counts)", "4 C20"),
    "C15": ("other", MIX + "FRAME obligations: renderer/token/tree functions write only per-call objects (repeatable rendering as a frame fact); dict/tree round trips and render-twice monitored on parser output.", TB, "frame obligations + bounded round-trip monitors", "4 C15"),
}


def main():
    checks = []
    for p in PROPS:
        pid = p["id"]
        if pid not in CHECKS:
            continue
        cat, text, note, tech, ref = CHECKS[pid]
        checks.append({
            "property_id": pid,
            "quick_cmd": f"./check {pid} --tier quick",
            "thorough_cmd": f"./check {pid} --tier thorough",
            "evidence_file": f"/verif/evidence/{pid}.json",
            "replay_cmd_template": f"./check {pid} --replay {{path}}",
            "engine": "pyvc",
            "level_claimed": {"category": cat, "text": text, "design_ref": "DESIGN.md " + ref},
            "level_note": note,
            "technique": tech,
        })
    na = [{"property_id": p["id"], "reason": "check not built yet (build in progress; DESIGN.md 7 gives the order)"} for p in PROPS if p["id"] not in CHECKS]
    m = {
        "version": 1,
        "setup_cmd": "./setup.sh",
        "hooks": {"guard": "MARKDOWN_IT_PY_VERIF", "enable": "no hooks in /repo: contracts are sidecar files under /verif/contracts; run-time monitors are installed by the harness process",
                  "baseline_off_cmd": "cd /repo && /venv/bin/python -m pytest -ra -q -p no:cacheprovider --timeout=900 --continue-on-collection-errors",
                  "source_commits": [], "add_only": True},
        "engines": [
            {"name": "pyvc", "path": "/verif/vf", "serves_properties": sorted(CHECKS), "kind_free_text": "VC generator over the real Python source + sidecar contracts; z3/cvc5; frame and language back ends; bounded run-time contract monitors as labelled stand-ins"},
        ],
        "checks": checks,
        "notes": "Genuine defects found on the pinned tree were repaired by fix: commits in /repo and are listed in known_findings.json (fixed entries suppress nothing).",
        "not_applicable": na,
    }
    with open(os.path.join(HERE, "MANIFEST.json"), "w") as f:
        json.dump(m, f, indent=1)
    try:
        import jsonschema

        jsonschema.validate(m, json.load(open("/root/.vp/MANIFEST.schema.json")))
        print("MANIFEST.json valid;", len(checks), "checks,", len(na), "not applicable")
    except ImportError:
        print("written (jsonschema not available to validate)")


if __name__ == "__main__":
    main()
