#!/usr/bin/env python3
"""Regenerates /verif/MANIFEST.json from the table below (run after adding a check)."""
import json
import os

HERE = os.path.dirname(os.path.dirname(os.path.abspath(__file__)))
PROPS = [json.loads(l) for l in open(os.path.join(HERE, "properties.jsonl"))]

DED = "contract-based deductive verification: pyvc generates VCs from the real source (ast) against sidecar contracts; z3, cvc5 on unknowns"
TB = ("Trusted: pyvc (vf/), z3 5.1.0 / cvc5; Python semantics as in DESIGN.md 2.4; assumed contracts on re/str/mdurl; "
      "composition steps listed in DESIGN.md 6. Bounded stand-ins are labelled bounded in evidence and never counted as proved.")

CHECKS = {
    # id: (category, text, note, technique, design_ref)
    "C08": ("proof", "Postconditions 'markup == the scanned marker run, with its count', 'info == src slice', 'content == getLines of exactly the "
            "token's lines' are discharged for hr, heading, lheading, fence, code, html_block for all inputs under the line-table invariant WF.",
            TB + " getLines itself is under an assumed contract in this tier (its own proof is pending); list/blockquote markup and backtick are bounded.",
            DED, "4 C08"),
    "C11": ("proof", "Every Ruler mutator is proved to invalidate the compiled cache on every exit (normal and KeyError) and to have exactly the "
            "documented set semantics; first-match lookup proved. By induction over histories RI holds after any sequence of calls.",
            TB + " getRules/__compile__ (cache == Filter(rules, chain)) are checked by the bounded history monitor (all sequences <= 3/4 over 47 ops).",
            DED + "; bounded operation-sequence monitor as stand-in for __compile__", "3.1, 4 C11"),
}


def main():
    checks = []
    for p in PROPS:
        pid = p["id"]
        if pid not in CHECKS:
            continue
        cat, text, note, tech, ref = CHECKS[pid]
        checks.append({
            "property_id": pid,
            "quick_cmd": f"./check {pid} --tier quick",
            "thorough_cmd": f"./check {pid} --tier thorough",
            "evidence_file": f"/verif/evidence/{pid}.json",
            "replay_cmd_template": f"./check {pid} --replay {{path}}",
            "engine": "pyvc",
            "level_claimed": {"category": cat, "text": text, "design_ref": "DESIGN.md " + ref},
            "level_note": note,
            "technique": tech,
        })
    na = [{"property_id": p["id"], "reason": "check not built yet (build in progress; DESIGN.md 7 gives the order)"} for p in PROPS if p["id"] not in CHECKS]
    m = {
        "version": 1,
        "setup_cmd": "./setup.sh",
        "hooks": {"guard": "MARKDOWN_IT_PY_VERIF", "enable": "no hooks in /repo: contracts are sidecar files under /verif/contracts; run-time monitors are installed by the harness process",
                  "baseline_off_cmd": "cd /repo && /venv/bin/python -m pytest -ra -q -p no:cacheprovider --timeout=900 --continue-on-collection-errors",
                  "source_commits": [], "add_only": True},
        "engines": [
            {"name": "pyvc", "path": "/verif/vf", "serves_properties": sorted(CHECKS), "kind_free_text": "VC generator over the real Python source + sidecar contracts; z3/cvc5; frame and language back ends; bounded run-time contract monitors as labelled stand-ins"},
        ],
        "checks": checks,
        "notes": "Genuine defects found on the pinned tree were repaired by fix: commits in /repo and are listed in known_findings.json (fixed entries suppress nothing).",
        "not_applicable": na,
    }
    with open(os.path.join(HERE, "MANIFEST.json"), "w") as f:
        json.dump(m, f, indent=1)
    try:
        import jsonschema

        jsonschema.validate(m, json.load(open("/root/.vp/MANIFEST.schema.json")))
        print("MANIFEST.json valid;", len(checks), "checks,", len(na), "not applicable")
    except ImportError:
        print("written (jsonschema not available to validate)")


if __name__ == "__main__":
    main()
