"""debug: per-instance verdicts of one obligation.  usage: CM=contracts.x tools/vinst.py <qualname> <oid-substring> [timeout_s]"""
import importlib, os, sys, time
sys.path.insert(0, os.path.dirname(os.path.dirname(os.path.abspath(__file__))))
import z3
from vf.verify import generate
q, sub = sys.argv[1], sys.argv[2]
to = int(sys.argv[3]) if len(sys.argv) > 3 else 30
mod = importlib.import_module(os.environ.get("CM", "contracts.block"))
res, jobs = generate(q, mod.REGISTRY, mod.SPECFUNS, getattr(mod, "ENGINE", None))
print(res.status, res.detail[:300], "jobs", len(jobs))
for key, pc, goal in jobs:
    if sub not in key[1]:
        continue
    s = z3.Solver(); s.set("timeout", to * 1000)
    s.add(*pc); s.add(z3.Not(goal))
    t = time.time(); r = s.check()
    print(key[1].split("/", 1)[1], key[2], r, f"{time.time()-t:.1f}s", "pc", len(pc))
    if os.environ.get("DUMP") and str(r) != "unsat":
        open(f"/tmp/inst_{key[2]}.smt2", "w").write(s.to_smt2())
