#!/bin/bash
# tools/with_patch.sh <patch.diff> <command...> : apply a seeded change to /repo, run the command, always undo.
P=$1; shift
if [ -n "$(git -C /repo status --porcelain)" ]; then echo "/repo is dirty, refusing"; exit 9; fi
git -C /repo apply "$P" || exit 9
"$@"; rc=$?
git -C /repo checkout -- . ; git -C /repo clean -fdq markdown_it
exit $rc
