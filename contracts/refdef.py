"""Contract for rules_block.reference.reference (C16 line accounting, C03 map, C01 safety, C07 purity).

`string` is the text of the candidate definition (getLines of the paragraph-like run, stripped).  The rule counts the line
endings it passes in `lines`; the property (C16: "recorded with the map of its own lines", C03) needs exactly

    LC   lines == number of '\\n' in string[0:pos]                      at every point of the scan, and
    END  the definition ends at a line end: pos == len(string) or string[pos] == '\\n'

when `state.line = startLine + lines + 1` is stored - a GUARD at that store.  LC rests on the contracts of the two
helpers: parseLinkDestination consumes no line ending and reports 0 lines (this is where the pinned tree was wrong),
parseLinkTitle reports the line endings inside the title."""
from vf.core import Contract
from .common import SPECFUNS, make_adder, wf
from . import block as BL
from . import helpers as HP

REGISTRY = dict(BL.REGISTRY)
for _q in (HP.Q, HP.QD, "markdown_it.helpers.parse_link_title._Result.__init__", "markdown_it.helpers.parse_link_destination._Result.__init__"):
    REGISTRY[_q] = HP.REGISTRY[_q]
add = make_adder(REGISTRY)
Q = "markdown_it.rules_block.reference.reference"
FUNCS = [Q]
U = "markdown_it.common.utils."
add(Contract(U + "normalizeReference", params={"string": "str"}, result="str", assume_only=True, modifies=[], notes="label normalisation (regex + case folding): pure, result not modelled"))
add(Contract(U + "isSpace", inline=True, params={"code": "optint"}))
M = "markdown_it.main.MarkdownIt."
add(Contract(M + "normalizeLink", params={"self": "obj:MarkdownIt", "url": "str"}, result="str", assume_only=True, modifies=[], notes="pure (C05 typestate covers what it returns)"))
add(Contract(M + "validateLink", params={"self": "obj:MarkdownIt", "url": "str"}, result="bool", assume_only=True, modifies=[], notes="pure"))

LC = lambda: ("LC-lines-counted", "lines == CountCh(string, 0, min(pos, maximum), '\\n')")  # noqa: E731
STR = ("string", "maximum == len(string)")
QUIET = ("untouched", "state.line == old(state.line) and ntokens(state) == old(ntokens(state)) and state.level == old(state.level)")
PT = ("parentType-saved", "oldParentType == old(state.parentType)")

add(Contract(
    Q, params={"state": "obj:StateBlock", "startLine": "int", "_endLine": "int", "silent": "bool"}, result="bool", props=["C01", "C03", "C07", "C16"],
    ghost={"defs": {"P0": "(state.bMarks[startLine] + state.tShift[startLine])", "T": "new_tokens(state)"}},
    requires=wf() + [("range", "0 <= startLine and startLine < _endLine and _endLine <= state.lineMax"), ("blk-nonneg", "state.blkIndent >= 0"),
                     ("nonempty-line", "state.bMarks[startLine] + state.tShift[startLine] < state.eMarks[startLine]")],
    at=[("store:line", "definition-ends-where-its-last-line-ends", "value == startLine + CountCh(string, 0, min(pos, maximum), '\\n') + 1 and lines == CountCh(string, 0, min(pos, maximum), '\\n') and lines >= 0 and (pos >= maximum or string[pos] == '\\n')", ["C16", "C03"])],
    ensures=[
        ("fail-pure", "implies(not result, state.line == old(state.line) and ntokens(state) == old(ntokens(state)))", ["C07", "C01"]),
        ("silent-pure", "implies(silent, state.line == old(state.line) and ntokens(state) == old(ntokens(state)))", ["C07", "C01"]),
        ("level", "state.level == old(state.level)", ["C02"]),
        ("starts-with-bracket", "implies(result, state.src[P0] == '[')", ["C16"]),
        ("progress", "implies(result and not silent, state.line > startLine)", ["C03", "C01"]),
        ("parentType-restored", "implies(result and not silent, state.parentType == old(state.parentType))", ["C07"]),
    ],
    loops={
        0: {"inv": [("pos", "P0 <= pos and pos <= maximum and maximum == state.eMarks[startLine] and state.src[P0] == '['"), QUIET], "dec": "maximum - pos"},
        1: {"modular": True, "types": {"terminate": "bool", "terminatorRule": "none"},
            "inv": [("next", "startLine + 1 <= nextLine and nextLine <= max(endLine, startLine + 1) and endLine == state.lineMax"), QUIET, PT, ("bracket", "state.src[P0] == '['"), ("no-lines-yet", "lines == 0")], "dec": "endLine - nextLine"},
        2: {"types": {"terminatorRule": "none"},
            "inv": [("next", "startLine + 1 <= nextLine and nextLine < endLine and endLine == state.lineMax"), ("not-terminate", "not terminate"), QUIET, PT, ("bracket", "state.src[P0] == '['"), ("no-lines-yet", "lines == 0")],
            "dec": "len(terminatorRules) - _it2"},
        3: {"modular": True, "types": {"ch": "optint", "labelEnd": "optint"}, "inv": [("pos", "1 <= pos"), STR, LC(), ("no-label-end", "labelEnd is None"), ("lines", "lines >= 0"), QUIET, PT, ("bracket", "state.src[P0] == '['")], "dec": "maximum - pos"},
        4: {"modular": True, "types": {"ch": "optint"}, "inv": [("pos", "2 <= pos"), STR, LC(), ("lines", "lines >= 0"), QUIET, PT, ("bracket", "state.src[P0] == '['")], "dec": "maximum - pos"},
        5: {"modular": True, "types": {"ch": "optint"}, "inv": [("pos", "start <= pos and 2 <= start and destEndPos == start and destEndPos <= maximum"), STR, LC(), ("lines", "lines >= 0"), QUIET, PT, ("bracket", "state.src[P0] == '['"),
                                             ("saved", "destEndLineNo == CountCh(string, 0, destEndPos, '\\n') and destEndLineNo >= 0")], "dec": "maximum - pos"},
        6: {"modular": True, "types": {"ch": "optint"}, "inv": [("pos", "2 <= pos and destEndPos <= maximum and 2 <= destEndPos"), STR, LC(), ("lines", "lines >= 0"), QUIET, PT, ("bracket", "state.src[P0] == '['"),
                                             ("saved", "destEndLineNo == CountCh(string, 0, destEndPos, '\\n') and destEndLineNo >= 0")], "dec": "maximum - pos"},
        7: {"modular": True, "types": {"ch": "optint"}, "inv": [("pos", "2 <= pos"), STR, LC(), ("lines", "lines >= 0"), QUIET, PT, ("bracket", "state.src[P0] == '['")], "dec": "maximum - pos"},
    },
))
