"""Contracts for the inline side (C01, C09, C20): StateInline.push, the escape rule, ParserInline.tokenize / skipToken."""
from vf.core import Contract
from .common import SPECFUNS, make_adder

REGISTRY = {}
add = make_adder(REGISTRY)
SI = "markdown_it.rules_inline.state_inline.StateInline."
PI = "markdown_it.parser_inline.ParserInline."
U = "markdown_it.common.utils."

for name in ("isStrSpace", "isSpace", "charCodeAt", "charStrAt"):
    add(Contract(U + name, inline=True, params={"ch": "optchar", "code": "optint", "src": "str", "pos": "int"}))
add(Contract(SI + "push", inline=True))
add(Contract(SI + "pushPending", inline=True))
add(Contract("markdown_it.ruler.Ruler.getRules", params={"self": "obj:Ruler", "chainName": "atom"}, result="atomlist", modifies=["self.__cache__"],
             ensures=[("fallback-enabled", "len(result) >= 1")],
             notes="supported configuration (C01): the fallback rule of the chain stays enabled, so the main chain is never empty"))

# C20: the skip memo never forgets or rewrites an entry (a rule that cleared it would make look-ahead work exponential)
CACHE_MONO = ("memo-entries-are-kept", "forall(p, 0, len(state.src) + 1, implies(old(p in state.cache), p in state.cache and state.cache[p] == old(state.cache[p])))")

POSR = [("pos-range", "0 <= state.pos and state.pos < state.posMax and state.posMax <= len(state.src)")]


def _terminators():
    """the terminator characters of the text rule, read from the real source (a change to the set changes the contracts)"""
    from vf import src as S

    return sorted(S.set_literal_codes(S.load_module("markdown_it.rules_inline.text"), "_TerminatorChars"))


def TERM(e):
    return "(" + " or ".join(f"{e} == {chr(c)!r}" for c in _terminators()) + ")"


# the inline tokenizer is entered either on a whole string or - from link - on a label whose end is a ']': the text rule
# (whose regex search is not limited to posMax) stays inside posMax only because of this
POSMAX_TERM = ("posMax-on-a-terminator", "state.posMax == len(state.src) or " + TERM("state.src[state.posMax]"))

# generic inline rule contract (DESIGN.md 3.4)
add(Contract(
    "<inline_rule>", params={"state": "obj:StateInline", "silent": "bool"}, result="bool", assume_only=True,
    requires=POSR + [POSMAX_TERM],
    modifies=["state.pos", "state.pending", "state.pendingLevel", "state.cache", "state.backticks", "state.backticksScanned", "state.delimiters", "state.linkLevel"],
    ensures=[("advance", "implies(result, old(state.pos) < state.pos and state.pos <= state.posMax)"),
             ("fail-pure", "implies(not result, state.pos == old(state.pos) and state.pending == old(state.pending))"),
             ("silent-pending", "implies(silent, state.pending == old(state.pending))"),
             ("level", "state.level == old(state.level) and state.posMax == old(state.posMax)"),
             ("cache-inv", "implies(old(forall(p, 0, len(state.src) + 1, implies(p in state.cache, state.cache[p] > p))), "
                           "forall(p, 0, len(state.src) + 1, implies(p in state.cache, state.cache[p] > p)))"),
             CACHE_MONO],
))
add(Contract("<inline_rule2>", params={"state": "obj:StateInline"}, assume_only=True, modifies=[]))

ESCAPED = "(state.src[P1] in ('!','\"','#','$','%','&',\"'\",'(',')','*','+',',','-','.','/',':',';','<','=','>','?','@','[','\\\\',']','^','_','`','{','|','}','~'))"
add(Contract(
    "markdown_it.rules_inline.escape.escape", params={"state": "obj:StateInline", "silent": "bool"}, props=["C01", "C09", "C17"],
    ghost={"defs": {"P0": "old(state.pos)", "P1": "old(state.pos) + 1", "T": "new_tokens(state)"}},
    requires=POSR,
    ensures=[
        ("trigger", "implies(result, state.src[P0] == '\\\\' and P1 < state.posMax)", ["C09", "C01"]),
        ("advance", "implies(result, P0 < state.pos and state.pos <= state.posMax)", ["C01", "C20"]),
        ("fail-pure", "implies(not result, state.pos == P0 and ntokens(state) == old(ntokens(state)) and state.pending == old(state.pending))", ["C01", "C09"]),
        ("silent-pure", "implies(silent, ntokens(state) == old(ntokens(state)) and state.pending == old(state.pending))", ["C01"]),
        ("level", "state.level == old(state.level) and state.posMax == old(state.posMax)", ["C01", "C02"]),
        ("escape-advances-2", "implies(result and state.src[P1] != '\\n' and not (state.src[P1] >= '\\ud800' and state.src[P1] <= '\\udbff'), state.pos == P0 + 2)", ["C09"]),
        ("escape-token", "implies(result and not silent and state.src[P1] != '\\n', T[-1].type == 'text_special' and T[-1].nesting == 0 and T[-1].level == old(state.level) and T[-1].info == 'escape')", ["C09", "C02", "C19"]),
        ("escape-literal", f"implies(result and not silent and state.src[P1] != '\\n' and {ESCAPED}, T[-1].content == state.src[P1])", ["C09"]),
        ("non-escapable-kept", f"implies(result and not silent and state.src[P1] != '\\n' and not {ESCAPED} and not (state.src[P1] >= '\\ud800' and state.src[P1] <= '\\udbff'), "
                               "len(T[-1].content) == 2 and T[-1].content[0] == '\\\\' and T[-1].content[1] == state.src[P1])", ["C09"]),
        ("hardbreak", "implies(result and not silent and state.src[P1] == '\\n', T[-1].type == 'hardbreak' and T[-1].nesting == 0)", ["C02"]),
        # C17: after a hard break the leading blanks of the next line - spaces and tabs alike - are structural and skipped
        ("hardbreak-skips-exactly-the-leading-blanks", "implies(result and state.src[P1] == '\\n', forall(k, P1 + 1, state.pos, state.src[k] == ' ' or state.src[k] == '\\t') "
                                                       "and (state.pos == state.posMax or not (state.src[state.pos] == ' ' or state.src[state.pos] == '\\t')))", ["C17"]),
    ],
    loops={0: {"types": {"ch": "char"}, "inv": [("pos-lo", "pos >= P1 + 1"), ("pos-hi", "pos <= maximum"), ("max", "maximum == state.posMax and maximum <= len(state.src)"),
                                                ("blanks", "forall(k, P1 + 1, pos, state.src[k] == ' ' or state.src[k] == '\\t')")], "dec": "maximum - pos"}},
))

add(Contract(
    PI + "tokenize", params={"self": "obj:ParserInline", "state": "obj:StateInline"}, props=["C01", "C20"],
    modifies=["state.pos", "state.pending", "state.pendingLevel", "state.cache", "state.backticks", "state.backticksScanned", "state.delimiters", "state.linkLevel",
              "state.tokens", "state.tokens_meta", "state._prev_delimiters"],
    requires=[("pos-range", "0 <= state.pos and state.pos <= state.posMax and state.posMax <= len(state.src)"), ("nest", "state.md.options.maxNesting >= 1"), POSMAX_TERM],
    at=[("call:rule", "rule-under-nesting-cap", "state.level < state.md.options.maxNesting")],
    ensures=[("consumed", "state.pos >= state.posMax"), CACHE_MONO + (["C20"],), ("level", "state.level == old(state.level) and state.posMax == old(state.posMax)", ["C01", "C02"]),
             ("cache-inv", "implies(old(forall(p, 0, len(state.src) + 1, implies(p in state.cache, state.cache[p] > p))), forall(p, 0, len(state.src) + 1, implies(p in state.cache, state.cache[p] > p)))", ["C20"])],
    loops={0: {"types": {"ok": "bool", "rule": "none"}, "let": {"P": "state.pos"},
               "inv": [("pos-lo", "0 <= state.pos"), ("end", "end == state.posMax and end <= len(state.src)"),
                       ("stale-ok", "state.level < maxNesting or not ok"), ("maxNesting", "maxNesting == state.md.options.maxNesting"),
                       ("level", "state.level == old(state.level)"), ("rules", "len(rules) >= 1"), CACHE_MONO, ("cache-inv", "implies(old(forall(p, 0, len(state.src) + 1, implies(p in state.cache, state.cache[p] > p))), forall(p, 0, len(state.src) + 1, implies(p in state.cache, state.cache[p] > p)))")],
               "dec": "end - state.pos"},
           1: {"types": {"rule": "none"},
               "inv": [("pos-same", "state.pos == P"), ("pos-hi", "0 <= P and P < end"), ("end", "end == state.posMax and end <= len(state.src)"),
                       ("nest", "state.level < maxNesting"), ("maxNesting", "maxNesting == state.md.options.maxNesting"), ("not-ok", "_it1 == 0 or not ok"),
                       ("level", "state.level == old(state.level)"), CACHE_MONO, ("cache-inv", "implies(old(forall(p, 0, len(state.src) + 1, implies(p in state.cache, state.cache[p] > p))), forall(p, 0, len(state.src) + 1, implies(p in state.cache, state.cache[p] > p)))")],
               "dec": "len(rules) - _it1"}},
))

add(Contract(
    PI + "skipToken", params={"self": "obj:ParserInline", "state": "obj:StateInline"}, props=["C01", "C20"],
    modifies=["state.pos", "state.cache", "state.backticks", "state.backticksScanned", "state.delimiters", "state.linkLevel", "state.pendingLevel"],
    requires=POSR + [("nest", "state.md.options.maxNesting >= 1"), POSMAX_TERM,
                     ("cache-inv", "forall(p, 0, len(state.src) + 1, implies(p in state.cache, state.cache[p] > p))")],
    at=[("call:rule", "rule-under-nesting-cap", "state.level - 1 < state.md.options.maxNesting")],
    ensures=[("advance", "state.pos > old(state.pos)"),
             ("level-restored", "state.level == old(state.level) and state.posMax == old(state.posMax) and state.pending == old(state.pending)"),
             ("cache-inv", "forall(p, 0, len(state.src) + 1, implies(p in state.cache, state.cache[p] > p))"), ("memo", "old(state.pos) in state.cache and state.cache[old(state.pos)] == state.pos"), CACHE_MONO,
             ("hit-no-work", "implies(old(old(state.pos) in state.cache), state.pos == old(state.cache[state.pos]))")],
    loops={0: {"types": {"rule": "none", "ok": "bool"},
               "inv": [("pos", "state.pos == pos"), ("not-ok", "not ok"), ("range", "0 <= pos and pos < state.posMax and state.posMax <= len(state.src)"),
                       ("level", "state.level == old(state.level)"), ("cache", "cache == state.cache"), CACHE_MONO, ("miss", "not old(state.pos in state.cache)")],
               "dec": "len(rules) - _it0"}},
))
C09_FUNCS = ["markdown_it.rules_inline.escape.escape"]
C20_FUNCS = [PI + "tokenize", PI + "skipToken"]
