"""Contract for rules_inline.link.link (C01 safety/progress, C02 token shape and levels, C20 advance)."""
from vf.core import Contract
from .common import SPECFUNS, make_adder
from . import inline as IL
from . import helpers as HP

REGISTRY = dict(IL.REGISTRY)
for _q in (HP.Q, HP.QD, HP.QL, "markdown_it.helpers.parse_link_title._Result.__init__", "markdown_it.helpers.parse_link_destination._Result.__init__"):
    REGISTRY[_q] = HP.REGISTRY[_q]
add = make_adder(REGISTRY)
RI = "markdown_it.rules_inline."
U = "markdown_it.common.utils."
M = "markdown_it.main.MarkdownIt."
add(Contract(U + "normalizeReference", params={"string": "str"}, result="str", assume_only=True, modifies=[], notes="label normalisation: pure, result not modelled"))
add(Contract(M + "normalizeLink", params={"self": "obj:MarkdownIt", "url": "str"}, result="str", assume_only=True, modifies=[], notes="pure (C05 typestate covers what it returns)"))
add(Contract(M + "validateLink", params={"self": "obj:MarkdownIt", "url": "str"}, result="bool", assume_only=True, modifies=[], notes="pure"))
add(Contract("markdown_it.token.Token.attrSet", params={"self": "obj:Token", "name": "str", "value": "str"}, assume_only=True, modifies=[], notes="sets one attribute of this token (attrs dict), nothing else"))

PI = "markdown_it.parser_inline.ParserInline."
add(Contract(PI + "parse", params={"self": "obj:ParserInline", "src": "str", "md": "obj:MarkdownIt", "env": "opaque", "tokens": "reclist:TokenA"}, assume_only=True, modifies=["tokens"],
             notes="the nested inline parse of an image description: a fresh StateInline over `content`; appends to the given list only (C12 FRAME: writes nothing else)"))
add(Contract(M + "normalizeLinkText", params={"self": "obj:MarkdownIt", "link": "str"}, result="str", assume_only=True, modifies=[], notes="pure"))
Q = RI + "link.link"
QI = RI + "image.image"
QA = RI + "autolink.autolink"
FUNCS = [Q, QI, QA]
POSR = IL.POSR
add(Contract(
    Q, params={"state": "obj:StateInline", "silent": "bool"}, result="bool", props=["C01", "C02", "C20"],
    ghost={"defs": {"P0": "old(state.pos)", "T": "new_tokens(state)"}},
    requires=POSR + [IL.POSMAX_TERM, ("nest", "state.md.options.maxNesting >= 1"), ("cache-inv", "forall(p, 0, len(state.src) + 1, implies(p in state.cache, state.cache[p] > p))")],
    ensures=[
        ("trigger", "implies(result, state.src[P0] == '[')", ["C01"]),
        ("advance", "implies(result, P0 < state.pos and state.pos <= state.posMax)", ["C01", "C20"]),
        ("fail-pure", "implies(not result, state.pos == P0 and ntokens(state) == old(ntokens(state)) and state.pending == old(state.pending))", ["C01"]),
        ("silent-pure", "implies(silent, ntokens(state) == old(ntokens(state)) and state.pending == old(state.pending))", ["C01"]),
        # linkLevel is NOT restored in general: raw <a> / </a> tags inside the label move it (html_inline), which is why the
        # generic rule contract lists it under modifies
        ("level", "state.level == old(state.level) and state.posMax == old(state.posMax)", ["C01", "C02"]),
        ("cache-inv", "forall(p, 0, len(state.src) + 1, implies(p in state.cache, state.cache[p] > p))", ["C20"]),
        IL.CACHE_MONO + (["C20"],),
        ("open-and-close", "implies(result and not silent, T[-1].type == 'link_close' and T[-1].nesting == -1 and T[-1].tag == 'a' and T[-1].level == old(state.level))", ["C02"]),
    ],
    # C16: a bracketed text resolves whenever its label is defined - the rule gives up only for one of the stated reasons
    # (no opening bracket, no label end, no definitions at all in env, label not among the definitions)
    at=[("return", "fails-only-for-a-stated-reason",
         "value or state.src[P0] != '[' or not implies(bound('labelEnd'), labelEnd >= 0) or not implies(bound('ref'), ref) or not ('references' in state.env) "
         # ... or an inline form `(` that runs to the end of the range without a destination
         "or not implies(bound('pos') and bound('labelEnd') and labelEnd >= 0 and labelEnd + 1 < maximum, not (state.src[labelEnd + 1] == '(' and pos >= maximum))", ["C16"])],
    loops={k: {"types": {"ch": "char"}, "inv": [("pos", "labelEnd + 2 <= pos and labelEnd < maximum and maximum == state.posMax and maximum <= len(state.src)"),
                                               ("quiet", "state.pos == P0 and ntokens(state) == old(ntokens(state)) and state.pending == old(state.pending) and state.level == old(state.level) "
                                                         "and state.posMax == old(state.posMax)"),
                                               ("label", "P0 < labelEnd and state.src[labelEnd] == ']' and state.src[P0] == '[' and oldPos == P0 and labelStart == P0 + 1"),
                                               ("cache-inv", "forall(p, 0, len(state.src) + 1, implies(p in state.cache, state.cache[p] > p))"), IL.CACHE_MONO],
               "dec": "maximum - pos"} for k in (0, 1, 2)},
))

add(Contract(
    QI, params={"state": "obj:StateInline", "silent": "bool"}, result="bool", props=["C01", "C02", "C20"],
    ghost={"defs": {"P0": "old(state.pos)", "T": "new_tokens(state)"}},
    requires=POSR + [IL.POSMAX_TERM, ("nest", "state.md.options.maxNesting >= 1"), ("cache-inv", "forall(p, 0, len(state.src) + 1, implies(p in state.cache, state.cache[p] > p))")],
    ensures=[
        ("trigger", "implies(result, state.src[P0] == '!' and state.src[P0 + 1] == '[')", ["C01"]),
        ("advance", "implies(result, P0 < state.pos and state.pos <= state.posMax)", ["C01", "C20"]),
        ("fail-pure", "implies(not result, state.pos == P0 and ntokens(state) == old(ntokens(state)) and state.pending == old(state.pending))", ["C01"]),
        ("silent-pure", "implies(silent, ntokens(state) == old(ntokens(state)) and state.pending == old(state.pending))", ["C01"]),
        ("level", "state.level == old(state.level) and state.posMax == old(state.posMax)", ["C01", "C02"]),
        ("cache-inv", "forall(p, 0, len(state.src) + 1, implies(p in state.cache, state.cache[p] > p))", ["C20"]),
        IL.CACHE_MONO + (["C20"],),
        ("image-token", "implies(result and not silent, T[-1].type == 'image' and T[-1].nesting == 0 and T[-1].tag == 'img' and T[-1].level == old(state.level))", ["C02"]),
    ],
    # C16: as for link; an image additionally gives up when an inline form `(` was started and is malformed
    at=[("return", "fails-only-for-a-stated-reason",
         "value or state.src[P0] != '!' or state.src[P0 + 1] != '[' or not implies(bound('labelEnd'), labelEnd >= 0) "
         "or not implies(bound('labelEnd') and labelEnd >= 0 and labelEnd + 1 < max, state.src[labelEnd + 1] != '(') "
         "or not implies(bound('ref'), ref) or not ('references' in state.env)", ["C16"])],
    loops={k: {"types": {"ch": "char"}, "inv": [("pos", "labelEnd + 2 <= pos and labelEnd < max and max == state.posMax and max <= len(state.src)"),
                                               ("quiet", "state.pos == P0 and ntokens(state) == old(ntokens(state)) and state.pending == old(state.pending) and state.level == old(state.level) "
                                                         "and state.posMax == old(state.posMax)"),
                                               ("label", "P0 + 1 < labelEnd and state.src[labelEnd] == ']' and state.src[P0] == '!' and state.src[P0 + 1] == '[' and oldPos == P0 and labelStart == P0 + 2"),
                                               ("cache-inv", "forall(p, 0, len(state.src) + 1, implies(p in state.cache, state.cache[p] > p))"), IL.CACHE_MONO],
               "dec": "max - pos"} for k in (0, 1, 2)},
))

# autolink: the two regular expressions are used as yes/no tests only (assumed pure); everything else - the scan to the
# closing '>', what is consumed, the three tokens and their levels - is decided here
add(Contract(
    QA, params={"state": "obj:StateInline", "silent": "bool"}, result="bool", props=["C01", "C02", "C20", "C19"],
    ghost={"defs": {"P0": "old(state.pos)", "T": "new_tokens(state)"}},
    requires=POSR,
    ensures=[
        ("trigger", "implies(result, state.src[P0] == '<')", ["C01"]),
        ("advance", "implies(result, P0 + 1 < state.pos and state.pos <= state.posMax)", ["C01", "C20"]),
        ("consumes-one-bracketed-span", "implies(result, state.src[state.pos - 1] == '>' and forall(k, P0 + 1, state.pos - 1, state.src[k] != '<' and state.src[k] != '>'))", ["C02", "C05"]),
        ("fail-pure", "implies(not result, state.pos == P0 and ntokens(state) == old(ntokens(state)) and state.pending == old(state.pending))", ["C01"]),
        ("silent-pure", "implies(silent, ntokens(state) == old(ntokens(state)) and state.pending == old(state.pending))", ["C01"]),
        ("level", "state.level == old(state.level) and state.posMax == old(state.posMax)", ["C01", "C02"]),
        ("auto-link-tokens", "implies(result and not silent, T[-1].type == 'link_close' and T[-1].nesting == -1 and T[-1].info == 'auto' and T[-1].level == old(state.level) "
                             "and T[-2].type == 'text' and T[-2].level == old(state.level) + 1 and T[-3].type == 'link_open' and T[-3].nesting == 1 and T[-3].info == 'auto' and T[-3].level == old(state.level))", ["C02", "C19"]),
    ],
    loops={0: {"types": {"ch": "char"}, "inv": [("pos", "P0 <= pos and pos < maximum and maximum == state.posMax and maximum <= len(state.src) and start == P0 and state.src[P0] == '<'"),
                                               ("clean", "forall(k, P0 + 1, pos + 1, state.src[k] != '<' and state.src[k] != '>')"),
                                               ("quiet", "state.pos == P0 and ntokens(state) == old(ntokens(state)) and state.pending == old(state.pending) and state.level == old(state.level) and state.posMax == old(state.posMax)")],
               "dec": "maximum - pos"}},
))
