"""rules_block.table.escapedSplit verified on its own (contracts/tablec.py holds the contract; here it is the function under
verification instead of an assumed callee)."""
from . import tablec as TC

REGISTRY = TC.REG2
SPECFUNS = TC.SPECFUNS
FUNCS = [TC.QE]
