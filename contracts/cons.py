"""Contract for rules_block.blockquote (C17 CONS, C06 mechanism, C03 container map, C01 safety, C07 restore).

CONS(i): for a line with sCount >= 0,  bsCount[i] + sCount[i] == PhysCol(src, bMarks[i] + tShift[i])
(the virtual column of the line's first content character, counted from the start of the *physical* line with
tab stops every 4 columns).  blockquote must re-establish it for every line it strips a marker from (GUARD at the two
sCount store sites), and must hand the nested tokenizer well-formed tables and restore everything afterwards."""
from vf.core import Contract
from .common import SPECFUNS, make_adder, wf
from . import block as BL

REGISTRY = dict(BL.REGISTRY)
add = make_adder(REGISTRY)

Q = "markdown_it.rules_block.blockquote.blockquote"
FUNCS = [Q]

CONS_PRE = ("cons", "forall(i, startLine, endLine, implies(state.sCount[i] >= 0, "
                    "state.bsCount[i] + state.sCount[i] == PhysCol(state.src, state.bMarks[i] + state.tShift[i])))")

# tables agree with their entry values outside the window [startLine, startLine + k)
def untouched(k):
    return [(f"frame-{t}", f"forall(i, 0, len(state.bMarks), implies(i < startLine or i >= startLine + ({k}), state.{t}[i] == old(state.{t}[i])))")
            for t in ("bMarks", "tShift", "sCount", "bsCount")]

def saved(k):
    return [(f"saved-{t}", f"forall(j, 0, {k}, {o}[j] == old(state.{t}[startLine + j]))")
            for t, o in (("bMarks", "oldBMarks"), ("tShift", "oldTShift"), ("sCount", "oldSCount"), ("bsCount", "oldBSCount"))]

LENS = [("lens", "len(oldBMarks) == K and len(oldTShift) == K and len(oldSCount) == K and len(oldBSCount) == K")]
SAME_LEN = [("table-lens", "len(state.bMarks) == old(len(state.bMarks)) and len(state.eMarks) == len(state.bMarks) and len(state.tShift) == len(state.bMarks) "
                           "and len(state.sCount) == len(state.bMarks) and len(state.bsCount) == len(state.bMarks)")]
WF2 = [("WF2", "forall(i, 0, len(state.bMarks), 0 <= state.bMarks[i] and 0 <= state.tShift[i] and state.bMarks[i] + state.tShift[i] <= state.eMarks[i] and state.eMarks[i] <= len(state.src))"),
       ("WF5", "forall(i, 0, len(state.bMarks) - 1, implies(state.bMarks[i] + state.tShift[i] < state.eMarks[i], "
               "not (state.src[state.bMarks[i] + state.tShift[i]] == ' ' or state.src[state.bMarks[i] + state.tShift[i]] == '\\t')))")]

# column invariant of the blank-skipping loops (DESIGN.md Appendix B); L = the line, BM = its new bMarks, B = its entry bsCount
def blank_loop(L, B):
    return [
        ("pos-range", f"state.bMarks[{L}] <= pos and pos <= max and max == state.eMarks[{L}] and max <= len(state.src)"),
        ("blanks", f"forall(k, state.bMarks[{L}], pos, state.src[k] == ' ' or state.src[k] == '\\t')"),
        ("offset-lo", "offset >= initial"),
        ("offset-start", f"implies(pos == state.bMarks[{L}], offset == initial)"),
        ("column", f"PhysCol(state.src, pos) == {B} + offset + (1 if (spaceAfterMarker and adjustTab and pos > state.bMarks[{L}]) else 0)"),
        ("no-space-no-blank", f"implies(not spaceAfterMarker, pos == state.bMarks[{L}] and (pos >= len(state.src) or not (state.src[pos] == ' ' or state.src[pos] == '\\t')))"),
        ("wide-tab", f"implies(spaceAfterMarker and adjustTab, state.src[state.bMarks[{L}]] == '\\t' and state.bMarks[{L}] < max and ({B} + initial) % 4 != 3)"),
    ]

add(Contract(
    Q, params={"state": "obj:StateBlock", "startLine": "int", "endLine": "int", "silent": "bool"}, props=["C01", "C03", "C06", "C07", "C17", "C02"],
    ghost={"defs": {"K": "(nextLine - startLine)", "T": "new_tokens(state)", "P0": "(old(state.bMarks[startLine]) + old(state.tShift[startLine]))"}},
    requires=wf() + BL.RULE_RANGE + [CONS_PRE, ("nest", "state.md.options.maxNesting >= 1"), ("bs-nonneg", "forall(i, 0, len(state.bMarks), state.bsCount[i] >= 0)"),
                                     ("dispatch-guard", "state.blkIndent >= 0 and implies(not silent, state.sCount[startLine] >= state.blkIndent)")],
    at=[
        ("store[]:sCount@0", "CONS-first-line", "state.bsCount[index] + value == PhysCol(state.src, pos)", ["C17", "C06"]),
        ("store[]:sCount@1", "CONS-continuation-line", "state.bsCount[index] + value == PhysCol(state.src, pos)", ["C17", "C06"]),
        ("store[]:bsCount@0", "bsCount-physical", "value == PhysCol(state.src, state.bMarks[index]) + (1 if (spaceAfterMarker and adjustTab) else 0)", ["C17"]),
        # C06 (the mechanism of the quote form): a line that starts with this block's own marker at or beyond the block indent
        # is a quote line - it is never offered to the terminator rules and never swallowed as a lazy continuation.  Only the
        # indent *relative to blkIndent* may matter, or prefixing a document with a list marker would change its blocks.
        ("call:rule", "marker-lines-never-reach-the-terminators", "not (state.src[pos - 1] == '>' and state.sCount[nextLine] >= state.blkIndent)", ["C06"]),
        ("store[]:sCount@3", "marker-lines-never-continue-lazily", "not (state.src[pos - 1] == '>' and state.sCount[nextLine] >= state.blkIndent)", ["C06"]),
        ("store[]:bsCount@1", "bsCount-physical-continuation", "value == PhysCol(state.src, state.bMarks[index]) + (1 if (spaceAfterMarker and adjustTab) else 0)", ["C17"]),
    ],
    ensures=[
        ("silent-pure", "implies(silent, ntokens(state) == old(ntokens(state)) and state.line == old(state.line) and state.lineMax == old(state.lineMax))", ["C07", "C01"]),
        ("fail-pure", "implies(not result, ntokens(state) == old(ntokens(state)) and state.line == old(state.line))", ["C07", "C01"]),
        ("level", "state.level == old(state.level)", ["C02", "C07"]),
        ("restored-scalars", "state.lineMax == old(state.lineMax) and state.blkIndent == old(state.blkIndent) and state.parentType == old(state.parentType)", ["C07", "C06"]),
        ("restored-bMarks", "forall(i, 0, len(state.bMarks), state.bMarks[i] == old(state.bMarks[i]))", ["C07", "C06"]),
        ("restored-tShift", "forall(i, 0, len(state.bMarks), state.tShift[i] == old(state.tShift[i]))", ["C07", "C06"]),
        ("restored-sCount", "forall(i, 0, len(state.bMarks), state.sCount[i] == old(state.sCount[i]))", ["C07", "C06"]),
        ("restored-bsCount", "forall(i, 0, len(state.bMarks), state.bsCount[i] == old(state.bsCount[i]))", ["C07", "C06"]),
        ("map", "implies(result and not silent, T[0].type == 'blockquote_open' and T[0].map == [startLine, state.line] and T[0].markup == '>' and T[0].level == old(state.level))", ["C03", "C08", "C02"]),
        ("marker", "implies(result, state.src[P0] == '>')", ["C08", "C06"]),
    ],
    loops={
        0: {"types": {"ch": "char"},
            "inv": blank_loop("startLine", "old(state.bsCount[startLine])") + [("initial", "initial >= old(state.sCount[startLine]) + 1")],
            "dec": "max - pos"},
        1: {"modular": True,
            "types": {"ch": "char", "isOutdented": "bool", "evaluatesTrue": "bool", "next_char": "optchar", "second_char": "optchar", "terminate": "bool", "pos": "int", "max": "int",
                      "initial": "int", "offset": "int", "lastLineEmpty": "bool", "terminatorRules": "atomlist", "oldParentType": "atom", "oldLineMax": "int"},
            "inv": [("next-range", "startLine + 1 <= nextLine and nextLine <= endLine"), ("not-silent", "not silent"),
                    ("saved-scalars", "oldLineMax == old(state.lineMax) and oldParentType == old(state.parentType)"), ("marker", "state.src[P0] == '>'")] + LENS + SAME_LEN + WF2 + untouched("K") + saved("K") + [
                ("scalars", "state.lineMax == old(state.lineMax) and state.blkIndent == old(state.blkIndent) and state.level == old(state.level) and state.line == old(state.line)"),
                ("cons-ahead", "forall(i, nextLine, endLine, implies(state.sCount[i] >= 0, state.bsCount[i] + state.sCount[i] == PhysCol(state.src, state.bMarks[i] + state.tShift[i])))"),
                ("bs-nonneg", "forall(i, 0, len(state.bMarks), state.bsCount[i] >= 0)"),
                ("tokens", "ntokens(state) == old(ntokens(state))")],
            "dec": "endLine - nextLine"},
        2: {"types": {"ch": "char"},
            "inv": blank_loop("nextLine", "old(state.bsCount[nextLine])") + [
                ("next-range", "startLine + 1 <= nextLine and nextLine < endLine"), ("lens-inner", "len(oldBMarks) == K + 1 and len(oldTShift) == K and len(oldSCount) == K and len(oldBSCount) == K")],
            "dec": "max - pos"},
        3: {"types": {"terminatorRule": "none", "terminate": "bool"},
            "inv": [("next-range", "startLine + 1 <= nextLine and nextLine < endLine"), ("not-terminate", "not terminate")] + LENS + SAME_LEN + WF2 + untouched("K") + saved("K") + [
                ("scalars", "state.lineMax == old(state.lineMax) and state.blkIndent == old(state.blkIndent) and state.level == old(state.level) and state.line == old(state.line)"),
                ("tokens", "ntokens(state) == old(ntokens(state))")],
            "dec": "len(terminatorRules) - _it3"},
        4: {"types": {"item": "int"},
            "inv": [("it-range", "_it4 <= len(oldTShift)")] + SAME_LEN + [
                ("restored-prefix", "forall(i, startLine, startLine + _it4, state.bMarks[i] == old(state.bMarks[i]) and state.tShift[i] == old(state.tShift[i]) "
                                    "and state.sCount[i] == old(state.sCount[i]) and state.bsCount[i] == old(state.bsCount[i]))"),
                ("outside", "forall(i, 0, len(state.bMarks), implies(i < startLine or i >= startLine + len(oldTShift), state.bMarks[i] == old(state.bMarks[i]) and state.tShift[i] == old(state.tShift[i]) "
                            "and state.sCount[i] == old(state.sCount[i]) and state.bsCount[i] == old(state.bsCount[i])))"),
                ("window", "startLine + len(oldTShift) <= len(state.bMarks) and len(oldBMarks) == len(oldTShift) and len(oldSCount) == len(oldTShift) and len(oldBSCount) == len(oldTShift)")]
            + [(f"saved4-{t}", f"forall(j, 0, len(oldTShift), {o}[j] == old(state.{t}[startLine + j]))") for t, o in (("bMarks", "oldBMarks"), ("tShift", "oldTShift"), ("sCount", "oldSCount"), ("bsCount", "oldBSCount"))],
            "dec": "len(oldTShift) - _it4"},
    },
))
