"""Contracts for rules_core.text_join (C02, C09): after the rule no inline child - at any image nesting depth - is a
text_special placeholder and no two adjacent children are text.  The recursion into image descriptions is modular:
`Joined(l)` is an uninterpreted predicate "the token list l satisfies the postcondition of _join_children"."""
from vf.core import Contract
from .common import SPECFUNS, make_adder, specfun

REGISTRY = {}
add = make_adder(REGISTRY)
specfun("Joined", """
def Joined(lst):
    return True
""", result="bool", axiom="True")

Q = "markdown_it.rules_core.text_join._join_children"
FUNCS = [Q, "markdown_it.rules_core.text_join.text_join"]
R = "result"
add(Contract(
    Q, params={"children": "reclist:TokenA"}, result="atom", props=["C02", "C09"],
    modifies=["children"],
    # at a call site (the recursion into an image description, or text_join itself) the result is an opaque list value of
    # which only the summary predicate is known
    ghost={"call_ensures": [("joined", "Joined(result)")]},
    ensures=[
        ("no-text_special", "forall(k, 0, len(result), result[k].type != 'text_special')", ["C02", "C09"]),
        ("no-adjacent-text", "forall(k, 0, len(result) - 1, not (result[k].type == 'text' and result[k + 1].type == 'text'))", ["C02"]),
        ("images-joined", "forall(k, 0, len(result), implies(result[k].type == 'image' and result[k].children, Joined(result[k].children)))", ["C02", "C09"]),
        ("nothing-but-text-dropped", "len(result) <= len(children)", ["C02"]),
    ],
    loops={0: {"types": {"child_token": "none"},
               "inv": [("no-text_special", "forall(k, 0, len(new_tokens), new_tokens[k].type != 'text_special')"),
                       ("no-adjacent-text", "forall(k, 0, len(new_tokens) - 1, not (new_tokens[k].type == 'text' and new_tokens[k + 1].type == 'text'))"),
                       ("images-joined", "forall(k, 0, len(new_tokens), implies(new_tokens[k].type == 'image' and new_tokens[k].children, Joined(new_tokens[k].children)))"),
                       ("len", "len(new_tokens) <= _it0 and _it0 <= len(children)")],
               "dec": "len(children) - _it0"}},
))

add(Contract(
    "markdown_it.rules_core.text_join.text_join", params={"state": "obj:StateCoreJ"}, props=["C02", "C09"],
    modifies=["state.tokens"],
    ensures=[
        ("inline-children-joined", "forall(i, 0, len(state.tokens), implies(state.tokens[i].type == 'inline', Joined(state.tokens[i].children)))", ["C02", "C09"]),
        ("stream-untouched", "len(state.tokens) == old(len(state.tokens)) and forall(i, 0, len(state.tokens), state.tokens[i].type == old(state.tokens[i].type) and "
                             "state.tokens[i].level == old(state.tokens[i].level) and state.tokens[i].nesting == old(state.tokens[i].nesting))", ["C02", "C19"]),
    ],
    loops={0: {"types": {"inline_token": "none"},
               "inv": [("done", "forall(i, 0, _it0, implies(state.tokens[i].type == 'inline', Joined(state.tokens[i].children)))"),
                       ("stream-untouched", "len(state.tokens) == old(len(state.tokens)) and forall(i, 0, len(state.tokens), state.tokens[i].type == old(state.tokens[i].type) and "
                                            "state.tokens[i].level == old(state.tokens[i].level) and state.tokens[i].nesting == old(state.tokens[i].nesting))"),
                       ("it", "_it0 <= len(state.tokens)")],
               "dec": "len(state.tokens) - _it0"}},
))
