"""Contract for rules_block.list.list_block (C01, C03, C06, C07, C08).

The list rule re-runs the block loop once per item on the item's first line with tShift/sCount moved to the content
column and blkIndent raised; everything it touches is restored after every item.  Proved here: safety and termination,
the context/table restore, map end-line patches within range, marker/info taken from the item's own line."""
from vf.core import Contract
from .common import SPECFUNS, make_adder, wf
from . import block as BL

REGISTRY = dict(BL.REGISTRY)
add = make_adder(REGISTRY)
Q = "markdown_it.rules_block.list.list_block"
FUNCS = [Q]

add(Contract("markdown_it.rules_block.list.markTightParagraphs", params={"state": "obj:StateBlock", "idx": "int"}, assume_only=True,
             notes="call-site summary: touches nothing but hidden flags; the function itself is verified against exactly that under the record-list view of state.tokens (contracts/tight.py)"))

TABLES_SAME = [(f"tables-{t}", f"forall(i, 0, len(state.bMarks), state.{t}[i] == old(state.{t}[i]))") for t in ("bMarks", "eMarks", "tShift", "sCount", "bsCount")]
LENS = [("table-lens", "len(state.bMarks) == old(len(state.bMarks)) and len(state.eMarks) == len(state.bMarks) and len(state.tShift) == len(state.bMarks) "
                       "and len(state.sCount) == len(state.bMarks) and len(state.bsCount) == len(state.bMarks)")]
CTX = [("context", "state.blkIndent == old(state.blkIndent) and state.listIndent == old(state.listIndent) and state.tight == old(state.tight) and state.lineMax == old(state.lineMax) "
                   "and state.ddIndent == old(state.ddIndent)")]
MARKER_AT = "(state.bMarks[startLine] + state.tShift[startLine] < posAfterMarker and posAfterMarker <= state.eMarks[startLine])"

add(Contract(
    Q, params={"state": "obj:StateBlock", "startLine": "int", "endLine": "int", "silent": "bool"}, props=["C01", "C03", "C06", "C07", "C08", "C02"],
    ghost={"defs": {"S0": "old(startLine)"}},
    requires=wf() + BL.RULE_RANGE + [("nest", "state.md.options.maxNesting >= 1"), ("blk", "state.blkIndent >= 0"),
                                     ("dispatch", "implies(not silent, state.line == startLine)")],
    at=[
        ("store:info", "info-from-own-line", "isOrdered and start == state.bMarks[startLine] + state.tShift[startLine] and posAfterMarker - 1 >= start and posAfterMarker <= state.eMarks[startLine]", ["C08"]),
        ("store:markup", "markup-from-own-line", "value == markerChar", ["C08"]),
        ("store[]:tShift@0", "content-start-in-line", "value >= 0 and state.bMarks[index] + value <= state.eMarks[index]", ["C03", "C06", "C01"]),
    ],
    ensures=[
        ("silent-pure", "implies(silent, ntokens(state) == old(ntokens(state)) and state.line == old(state.line) and state.level == old(state.level))", ["C07", "C01"]),
        ("fail-pure", "implies(not result, ntokens(state) == old(ntokens(state)) and state.line == old(state.line) and state.level == old(state.level))", ["C07", "C01"]),
        ("level", "state.level == old(state.level)", ["C02", "C07"]),
        ("progress", "implies(result and not silent, S0 < state.line and state.line <= state.lineMax)", ["C03", "C01"]),
        ("parentType-restored", "implies(not silent, state.parentType == old(state.parentType))", ["C07"]),
    ] + [(l, f"implies(not silent, {e})", ["C07", "C06"]) for l, e in TABLES_SAME + CTX],
    loops={
        0: {"modular": True,
            "types": {"ch": "char", "pos": "int", "maximum": "int", "initial": "int", "offset": "int", "contentStart": "int", "indentAfterMarker": "int", "indent": "int",
                      "oldTight": "bool", "oldTShift": "int", "oldSCount": "int", "oldListIndent": "int", "terminate": "bool", "terminatorRule": "none",
                      "terminatorRules": "atomlist", "oldParentType": "atom", "markerChar": "char", "listTokIdx": "int", "markerValue": "int", "start": "int",
                      "token": "obj:Token", "itemLines": "opaque", "isTerminatingParagraph": "bool"},
            "inv": [("lines", "nextLine == startLine and S0 <= startLine and startLine < endLine and endLine <= state.lineMax"),
                    ("first-or-later", "startLine == S0 or (S0 < startLine and startLine <= state.lineMax)"),
                    ("state-line", "state.line == startLine"), ("item-line-indented", "state.sCount[startLine] >= state.blkIndent"),
                    ("marker", MARKER_AT), ("ordered-start", "implies(isOrdered, start == state.bMarks[startLine] + state.tShift[startLine] and posAfterMarker - 1 > start)"),
                    ("not-silent", "not silent"), ("level", "state.level == old(state.level) + 1"), ("listLines", "len(listLines) == 2"),
                    ("saved-parent", "oldParentType == old(state.parentType)"), ("blk", "state.blkIndent >= 0")] + TABLES_SAME + LENS + CTX,
            "dec": "endLine - nextLine"},
        1: {"types": {"ch": "char"},
            "inv": [("pos", "posAfterMarker <= pos and pos <= maximum and maximum == state.eMarks[nextLine] and maximum <= len(state.src)"), ("off", "offset >= initial")],
            "dec": "maximum - pos"},
        2: {"types": {"terminatorRule": "none", "terminate": "bool"},
            "inv": [("lines", "nextLine == startLine and S0 < startLine and startLine < endLine and endLine <= state.lineMax"), ("state-line", "state.line == startLine"),
                    ("not-terminate", "not terminate"), ("level", "state.level == old(state.level) + 1"), ("blk", "state.blkIndent >= 0"), ("listLines", "len(listLines) == 2"),
                    ("saved-parent", "oldParentType == old(state.parentType)"), ("not-silent", "not silent")] + TABLES_SAME + LENS + CTX,
            "dec": "len(terminatorRules) - _it2"},
    },
))
