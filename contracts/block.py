"""Contracts for StateBlock helpers and the leaf block rules (C01, C03, C08)."""
from vf.core import Contract
from .common import SPECFUNS, wf, RULE_RANGE, unchanged_on, make_adder

SB = "markdown_it.rules_block.state_block.StateBlock."
U = "markdown_it.common.utils."
REGISTRY = {}


add = make_adder(REGISTRY)


# ------------------------------------------------------------------ inlined helpers
for name in ("isStrSpace", "isSpace", "charCodeAt", "charStrAt"):
    add(Contract(U + name, inline=True, params={"ch": "optchar", "code": "optint", "src": "str", "pos": "int"}))
add(Contract(SB + "isEmpty", inline=True))
add(Contract(SB + "is_code_block", inline=True))
add(Contract(SB + "push", inline=True))

P0 = "old(state.bMarks[startLine]) + old(state.tShift[startLine])"

# ------------------------------------------------------------------ StateBlock scanning helpers
add(Contract(
    SB + "skipSpaces", params={"self": "obj:StateBlock", "pos": "int"}, result="int", props=["C01"],
    requires=[("pos-nonneg", "pos >= 0")],
    ensures=[("ge", "result >= pos"), ("le", "result <= max(pos, len(self.src))"),
             ("stops", "implies(result < len(self.src), not (self.src[result] == ' ' or self.src[result] == '\\t'))"),
             ("blank", "forall(k, pos, result, self.src[k] == ' ' or self.src[k] == '\\t')")],
    loops={0: {"inv": [("pos-ge", "pos >= old(pos)"), ("pos-le", "pos <= max(old(pos), len(self.src))"),
                       ("blank", "forall(k, old(pos), pos, self.src[k] == ' ' or self.src[k] == '\\t')")],
               "dec": "max(len(self.src), old(pos)) + 1 - pos"}},
))
add(Contract(
    SB + "skipCharsStr", params={"self": "obj:StateBlock", "pos": "int", "ch": "char"}, result="int", props=["C01"],
    requires=[("pos-nonneg", "pos >= 0")],
    ensures=[("ge", "result >= pos"), ("le", "result <= max(pos, len(self.src))"),
             ("stops", "implies(result < len(self.src), self.src[result] != ch)"),
             ("run", "forall(k, pos, result, self.src[k] == ch)")],
    loops={0: {"inv": [("pos-ge", "pos >= old(pos)"), ("pos-le", "pos <= max(old(pos), len(self.src))"),
                       ("run", "forall(k, old(pos), pos, self.src[k] == ch)")],
               "dec": "max(len(self.src), old(pos)) + 1 - pos"}},
))
add(Contract(
    SB + "skipSpacesBack", params={"self": "obj:StateBlock", "pos": "int", "minimum": "int"}, result="int", props=["C01"],
    requires=[("min-nonneg", "minimum >= 0"), ("pos-le", "pos <= len(self.src)")],
    ensures=[("le", "result <= pos"), ("ge", "result >= min(pos, minimum)"),
             ("blank", "forall(k, result, pos, self.src[k] == ' ' or self.src[k] == '\\t')")],
    loops={0: {"inv": [("le", "pos <= old(pos)"), ("ge", "pos >= minimum"),
                       ("blank", "forall(k, pos, old(pos), self.src[k] == ' ' or self.src[k] == '\\t')")],
               "dec": "pos - minimum"}},
))
add(Contract(
    SB + "skipCharsStrBack", params={"self": "obj:StateBlock", "pos": "int", "ch": "char", "minimum": "int"}, result="int", props=["C01"],
    requires=[("min-nonneg", "minimum >= 0"), ("pos-le", "pos <= len(self.src)")],
    ensures=[("le", "result <= pos"), ("ge", "result >= min(pos, minimum)"),
             ("run", "forall(k, result, pos, self.src[k] == ch)")],
    loops={0: {"inv": [("le", "pos <= old(pos)"), ("ge", "pos >= minimum"),
                       ("run", "forall(k, pos, old(pos), self.src[k] == ch)")],
               "dec": "pos - minimum"}},
))
add(Contract(
    SB + "skipEmptyLines", params={"self": "obj:StateBlock", "from_pos": "int"}, result="int", props=["C01", "C03"],
    requires=wf("self") + [("from-nonneg", "from_pos >= 0")],
    ensures=[("ge", "result >= from_pos"), ("le", "result <= max(from_pos, self.lineMax)"),
             ("nonempty", "implies(result < self.lineMax, self.bMarks[result] + self.tShift[result] < self.eMarks[result])"),
             ("skipped-empty", "forall(k, from_pos, result, self.bMarks[k] + self.tShift[k] >= self.eMarks[k])")],
    loops={0: {"inv": [("ge", "from_pos >= old(from_pos)"), ("le", "from_pos <= max(old(from_pos), self.lineMax)"),
                       ("skipped-empty", "forall(k, old(from_pos), from_pos, self.bMarks[k] + self.tShift[k] >= self.eMarks[k])")],
               "dec": "self.lineMax - from_pos"}},
))

# ------------------------------------------------------------------ hr
add(Contract(
    "markdown_it.rules_block.hr.hr", props=["C01", "C03", "C08"],
    params={"state": "obj:StateBlock", "startLine": "int", "endLine": "int", "silent": "bool"},
    ghost={"defs": {"P0": P0, "T": "new_tokens(state)"}},
    requires=wf() + RULE_RANGE,
    ensures=[
        ("silent-pure", "implies(silent, ntokens(state) == old(ntokens(state)) and state.line == old(state.line) and state.level == old(state.level))"),
        ("fail-pure", "implies(not result, ntokens(state) == old(ntokens(state)) and state.line == old(state.line) and state.level == old(state.level))"),
        ("line", "implies(result and not silent, state.line == startLine + 1)"),
        ("level", "state.level == old(state.level)"),
        ("one-token", "implies(result and not silent, len(T) == 1)"),
        ("map", "implies(result and not silent, T[0].map == [startLine, startLine + 1])"),
        ("type", "implies(result and not silent, T[0].type == 'hr' and T[0].nesting == 0 and T[0].block and T[0].level == old(state.level))"),
        ("start-nonempty", "implies(result, P0 < old(state.eMarks[startLine]))"),
        ("markup-count", "implies(result and not silent, len(T[0].markup) == CountCh(state.src, P0, state.eMarks[startLine], state.src[P0]))"),
        ("markup-chars", "implies(result and not silent, forall(k, 0, len(T[0].markup), T[0].markup[k] == state.src[P0]))"),
        ("marker", "implies(result, state.src[P0] == '*' or state.src[P0] == '-' or state.src[P0] == '_')"),
    ],
    loops={0: {"inv": [("pos-lo", "pos >= P0 + 1"), ("pos-hi", "pos <= max(maximum, P0 + 1)"),
                       ("cnt", "cnt == CountCh(state.src, P0, pos, marker)"),
                       ("marker", "marker == state.src[P0]")],
               "dec": "maximum - pos"}},
))

# ------------------------------------------------------------------ heading
RULE_PARAMS = {"state": "obj:StateBlock", "startLine": "int", "endLine": "int", "silent": "bool"}
PURE = [
    ("silent-pure", "implies(silent, ntokens(state) == old(ntokens(state)) and state.line == old(state.line) and state.level == old(state.level))"),
    ("fail-pure", "implies(not result, ntokens(state) == old(ntokens(state)) and state.line == old(state.line) and state.level == old(state.level))"),
    ("level", "state.level == old(state.level)"),
    ("start-nonempty", "implies(result, P0 < old(state.eMarks[startLine]))"),
]
add(Contract(
    "markdown_it.rules_block.heading.heading", props=["C01", "C03", "C08"], params=RULE_PARAMS,
    ghost={"defs": {"P0": P0, "T": "new_tokens(state)", "ML": "len(new_tokens(state)[0].markup)"}},
    requires=wf() + RULE_RANGE,
    ensures=PURE + [
        ("line", "implies(result and not silent, state.line == startLine + 1)"),
        ("three-tokens", "implies(result and not silent, len(T) == 3)"),
        ("types", "implies(result and not silent, T[0].type == 'heading_open' and T[1].type == 'inline' and T[2].type == 'heading_close')"),
        ("nesting", "implies(result and not silent, T[0].nesting == 1 and T[1].nesting == 0 and T[2].nesting == -1)"),
        ("levels", "implies(result and not silent, T[0].level == old(state.level) and T[1].level == old(state.level) + 1 and T[2].level == old(state.level))"),
        ("block", "implies(result and not silent, T[0].block and T[1].block and T[2].block)"),
        ("map-open", "implies(result and not silent, T[0].map == [startLine, startLine + 1])"),
        ("map-inline", "implies(result and not silent, T[1].map == [startLine, startLine + 1])"),
        ("children", "implies(result and not silent, T[1].children == [])"),
        ("markup-len", "implies(result and not silent, 1 <= ML and ML <= 6)"),
        ("markup-src", "implies(result and not silent, T[0].markup == state.src[P0:P0 + ML] and T[2].markup == T[0].markup)"),
        ("markup-hashes", "implies(result and not silent, forall(k, 0, ML, T[0].markup[k] == '#'))"),
        ("markup-count", "implies(result and not silent, P0 + ML >= state.eMarks[startLine] or state.src[P0 + ML] != '#')"),
        ("tags", "implies(result and not silent, T[0].tag == T[2].tag)"),
    ],
    loops={0: {"types": {"ch": "optchar"},
               "inv": [("level-pos", "level == pos - P0"), ("level-lo", "level >= 1"), ("level-hi", "level <= 7"),
                       ("hashes", "forall(k, P0, pos, state.src[k] == '#')"),
                       ("P0-max", "P0 < maximum"), ("pos-max", "pos <= maximum"), ("max", "maximum == state.eMarks[startLine]"),
                       ("ch-none", "iff(ch is None, pos >= len(state.src))"),
                       ("ch-src", "implies(pos < len(state.src), ch == state.src[pos])")],
               "dec": "maximum + 8 - pos - level"}},
))

# ------------------------------------------------------------------ generic rule contract (dispatch through rule lists)
# DESIGN.md 3.3: what every block rule guarantees its caller. Built-in rules are proved against it
# (behavioural subtyping, see RC_CHECK below); plugins are assumed to satisfy it.
add(Contract(
    "<block_rule>", params={"state": "obj:StateBlock", "startLine": "int", "endLine": "int", "silent": "bool"},
    result="bool", assume_only=True,
    requires=wf() + RULE_RANGE,
    modifies=["state.line", "state.parentType", "state.tight"],
    ensures=[("silent-pure", "implies(silent, state.line == old(state.line) and state.tight == old(state.tight))"),
             ("fail-pure", "implies(not result, state.line == old(state.line))"),
             ("progress", "implies(result and not silent, old(startLine) < state.line and state.line <= state.lineMax)")],
))
add(Contract(
    "markdown_it.ruler.Ruler.getRules", params={"self": "obj:Ruler", "chainName": "atom"}, result="atomlist",
    modifies=["self.__cache__"], ensures=[],
))
EOFPRE = ("eof-line-not-read-past", "forall(l, begin, end, implies((l + 1 < end or keepLastLF) and self.eMarks[l] >= len(self.src), "
                                    "indent <= 0 or self.bMarks[l] + self.tShift[l] < self.eMarks[l]))")
add(Contract(
    SB + "getLines", params={"self": "obj:StateBlock", "begin": "int", "end": "int", "indent": "int", "keepLastLF": "bool"},
    result="str", ghost={"result_fun": "GetLines"}, props=["C01", "C08"],
    requires=wf("self") + [("begin", "0 <= begin"), ("end", "end <= len(self.bMarks) - 1"), EOFPRE,
                           # a negative indent would make getLines *add* blanks that are not in the source (C08); no caller passes one
                           ("indent-nonneg", "indent >= 0")],
    ensures=[],
    # C08, the mechanism itself: what is stored for each line is the source text from `first` - a position inside the
    # line's indentation / container prefix - to the line end (plus its LF), preceded only by the blanks that stand for the
    # unconsumed columns of a partially consumed tab (at most 3).  The final "".join is the built-in's.
    at=[("store[]:queue@0", "padded-piece-is-source-text-after-a-partial-tab",
         "index == line - begin and 0 < lineIndent - indent and lineIndent - indent <= 3 and self.bMarks[line] < first and self.src[first - 1] == '\\t' "
         "and first <= min(last, len(self.src)) and len(value) == (lineIndent - indent) + (min(last, len(self.src)) - first) "
         "and forall(k, 0, lineIndent - indent, value[k] == ' ') and forall(k, 0, min(last, len(self.src)) - first, value[lineIndent - indent + k] == self.src[first + k])", ["C08"]),
        ("store[]:queue@1", "plain-piece-is-source-text",
         "index == line - begin and first <= min(last, len(self.src)) and len(value) == min(last, len(self.src)) - first "
         "and forall(k, 0, min(last, len(self.src)) - first, value[k] == self.src[first + k])", ["C08"]),
        ("store[]:queue", "piece-starts-inside-the-indentation", "self.bMarks[line] <= first and first <= self.bMarks[line] + self.tShift[line] "
                                                                 "and (last == self.eMarks[line] + 1 or last == self.eMarks[line])", ["C08"])],
    loops={0: {"types": {"lineIndent": "int", "lineStart": "int", "first": "int", "last": "int", "ch": "char"},
               "inv": [("line", "begin <= line and line <= end"), ("i", "i == line - begin + 1"), ("qlen", "len(queue) == end - begin")],
               "dec": "end - line"},
           1: {"types": {"ch": "char"},
               "inv": [("first", "self.bMarks[line] <= first and first <= self.bMarks[line] + self.tShift[line]"),
                       ("last", "last == self.eMarks[line] + 1 or last == self.eMarks[line]"),
                       ("last-lf", "implies(last == self.eMarks[line] + 1, line + 1 < end or keepLastLF)"),
                       ("line", "begin <= line and line < end"), ("start", "lineStart == self.bMarks[line]"), ("indent", "lineIndent >= 0"),
                       ("overshoot-only-by-a-tab", "lineIndent <= indent + 3 and implies(lineIndent > indent, first > self.bMarks[line] and self.src[first - 1] == '\\t')"),
                       ("i", "i == line - begin + 1"), ("qlen", "len(queue) == end - begin")],
               "dec": "last - first"}},
    notes="content of the result (C08) is summarised by the uninterpreted string function GetLines(begin, end, indent, keepLastLF)",
))

# ------------------------------------------------------------------ code
add(Contract(
    "markdown_it.rules_block.code.code", props=["C01", "C03", "C08"], params=RULE_PARAMS,
    ghost={"defs": {"P0": P0, "T": "new_tokens(state)"}},
    requires=wf() + RULE_RANGE,
    ensures=[
        ("fail-pure", "implies(not result, ntokens(state) == old(ntokens(state)) and state.line == old(state.line))"),
        ("level", "state.level == old(state.level)"),
        ("line", "implies(result, startLine < state.line and state.line <= endLine)"),
        ("one-token", "implies(result, len(T) == 1 and T[0].type == 'code_block' and T[0].nesting == 0 and T[0].block and T[0].level == old(state.level))"),
        ("map", "implies(result, T[0].map == [startLine, state.line])"),
        ("ends-nonblank", "implies(result, state.bMarks[state.line - 1] + state.tShift[state.line - 1] < state.eMarks[state.line - 1] or state.line == startLine + 1)"),
        ("content", "implies(result, T[0].content == strfun('GetLines', startLine, state.line, 4 + state.blkIndent, False) + '\\n')"),
    ],
    loops={0: {"inv": [("next-lo", "nextLine >= startLine + 1"), ("next-hi", "nextLine <= endLine"),
                       ("last-lo", "last >= startLine + 1"), ("last-hi", "last <= nextLine"),
                       ("last-nonblank", "last == startLine + 1 or state.bMarks[last - 1] + state.tShift[last - 1] < state.eMarks[last - 1]")],
               "dec": "endLine - nextLine"}},
))

# ------------------------------------------------------------------ paragraph
PARA_TOKENS = [
    ("three-tokens", "implies(result and not silent, len(T) == 3)"),
    ("nesting", "implies(result and not silent, T[0].nesting == 1 and T[1].nesting == 0 and T[2].nesting == -1)"),
    ("levels", "implies(result and not silent, T[0].level == old(state.level) and T[1].level == old(state.level) + 1 and T[2].level == old(state.level))"),
    ("block", "implies(result and not silent, T[0].block and T[1].block and T[2].block)"),
    ("children", "implies(result and not silent, T[1].children == [])"),
]
add(Contract(
    "markdown_it.rules_block.paragraph.paragraph", props=["C01", "C03"], params=RULE_PARAMS,
    ghost={"defs": {"P0": P0, "T": "new_tokens(state)"}},
    requires=wf() + RULE_RANGE,
    ensures=[
        ("always-true", "result"),
        ("level", "state.level == old(state.level)"),
        ("line", "startLine < state.line and state.line <= state.lineMax"),
        ("types", "T[0].type == 'paragraph_open' and T[1].type == 'inline' and T[2].type == 'paragraph_close'"),
        ("three-tokens", "len(T) == 3"),
        ("nesting", "T[0].nesting == 1 and T[1].nesting == 0 and T[2].nesting == -1"),
        ("levels", "T[0].level == old(state.level) and T[1].level == old(state.level) + 1 and T[2].level == old(state.level)"),
        ("block", "T[0].block and T[1].block and T[2].block"),
        ("children", "T[1].children == []"),
        ("map-open", "T[0].map == [startLine, state.line]"),
        ("map-inline", "T[1].map == [startLine, state.line]"),
        ("parentType-restored", "state.parentType == old(state.parentType)"),
        ("ends-nonblank", "state.line == startLine + 1 or state.bMarks[state.line - 1] + state.tShift[state.line - 1] < state.eMarks[state.line - 1]"),
        ("scan-consults-terminators", "forall(l, startLine + 1, state.line, state.bMarks[l] + state.tShift[l] < state.eMarks[l] and implies((state.sCount[l] - state.blkIndent <= 3 and state.sCount[l] >= 0), forall(j, 0, len(terminatorRules), not RuleFires(terminatorRules[j], l))))", ["C06", "C07", "C10"]),
        ("scan-stops-for-a-reason", "state.line >= state.lineMax or state.bMarks[state.line] + state.tShift[state.line] >= state.eMarks[state.line] or "
                                    "((state.sCount[state.line] - state.blkIndent <= 3 and state.sCount[state.line] >= 0) and exists(j, 0, len(terminatorRules), RuleFires(terminatorRules[j], state.line)))", ["C06", "C07"]),
    ],
    loops={0: {"types": {"terminate": "bool"},
               "inv": [("next-lo", "nextLine >= startLine + 1"), ("next-hi", "nextLine <= max(endLine, startLine + 1)"),
                       ("endLine", "endLine == state.lineMax"), ("line", "state.line == old(state.line)"),
                       ("prev-nonblank", "nextLine == startLine + 1 or state.bMarks[nextLine - 1] + state.tShift[nextLine - 1] < state.eMarks[nextLine - 1]"),
                       ('scanned', 'forall(l, startLine + 1, nextLine, state.bMarks[l] + state.tShift[l] < state.eMarks[l] and implies((state.sCount[l] - state.blkIndent <= 3 and state.sCount[l] >= 0), forall(j, 0, len(terminatorRules), not RuleFires(terminatorRules[j], l))))')],
               "dec": "endLine - nextLine"},
           1: {"inv": [("next-lo", "nextLine >= startLine + 1"), ("next-hi", "nextLine < endLine"),
                       ("endLine", "endLine == state.lineMax"), ("line", "state.line == old(state.line)"),
                       ("terminate", "not terminate"), ('scanned', 'forall(l, startLine + 1, nextLine, state.bMarks[l] + state.tShift[l] < state.eMarks[l] and implies((state.sCount[l] - state.blkIndent <= 3 and state.sCount[l] >= 0), forall(j, 0, len(terminatorRules), not RuleFires(terminatorRules[j], l))))'),
                       ("none-fired-yet", "forall(j, 0, _it1, not RuleFires(terminatorRules[j], nextLine))"),
                       ("eligible", "(state.sCount[nextLine] - state.blkIndent <= 3 and state.sCount[nextLine] >= 0)"),
                       ("cur-nonblank", "state.bMarks[nextLine] + state.tShift[nextLine] < state.eMarks[nextLine]")],
               "dec": "len(terminatorRules) - _it1"}},
))

# ------------------------------------------------------------------ fence
add(Contract(
    "markdown_it.rules_block.fence.fence", props=["C01", "C03", "C08"], params=RULE_PARAMS,
    ghost={"defs": {"P0": P0, "T": "new_tokens(state)", "ML": "len(new_tokens(state)[0].markup)"}},
    requires=wf() + RULE_RANGE,
    ensures=PURE + [
        ("line", "implies(result and not silent, startLine < state.line and state.line <= endLine)"),
        ("one-token", "implies(result and not silent, len(T) == 1 and T[0].type == 'fence' and T[0].nesting == 0 and T[0].block and T[0].level == old(state.level))"),
        ("map", "implies(result and not silent, T[0].map == [startLine, state.line])"),
        ("markup-len", "implies(result and not silent, ML >= 3 and P0 + ML <= state.eMarks[startLine])"),
        ("markup-src", "implies(result and not silent, T[0].markup == state.src[P0:P0 + ML])"),
        ("markup-run", "implies(result and not silent, forall(k, 0, ML, T[0].markup[k] == state.src[P0]) and (state.src[P0] == '~' or state.src[P0] == '`'))"),
        ("markup-count", "implies(result and not silent, P0 + ML >= len(state.src) or state.src[P0 + ML] != state.src[P0])"),
        ("info", "implies(result and not silent, T[0].info == state.src[P0 + ML:state.eMarks[startLine]])"),
    ],
    loops={0: {"inv": [("next-lo", "nextLine >= startLine"), ("next-hi", "nextLine < endLine"),
                       ("no-end", "not haveEndMarker"), ("len", "length >= 3"),
                       ("examined", "forall(l, startLine + 1, nextLine + 1, state.bMarks[l] + state.tShift[l] < len(state.src))"),
                       ("line", "state.line == old(state.line)")],
               "dec": "endLine - nextLine"}},
))

# ------------------------------------------------------------------ lheading
add(Contract(
    "markdown_it.rules_block.lheading.lheading", props=["C01", "C03", "C08"], params=RULE_PARAMS,
    ghost={"defs": {"P0": P0, "T": "new_tokens(state)"}},
    requires=wf() + RULE_RANGE,
    ensures=[
        ("fail-pure", "implies(not result, ntokens(state) == old(ntokens(state)) and state.line == old(state.line))"),
        ("level", "state.level == old(state.level)"),
        ("line", "implies(result, startLine + 1 < state.line and state.line <= endLine)"),
        ("three-tokens", "implies(result, len(T) == 3)"),
        ("types", "implies(result, T[0].type == 'heading_open' and T[1].type == 'inline' and T[2].type == 'heading_close')"),
        ("nesting", "implies(result, T[0].nesting == 1 and T[1].nesting == 0 and T[2].nesting == -1)"),
        ("levels", "implies(result, T[0].level == old(state.level) and T[1].level == old(state.level) + 1 and T[2].level == old(state.level))"),
        ("block", "implies(result, T[0].block and T[1].block and T[2].block)"),
        ("map-open", "implies(result, T[0].map == [startLine, state.line])"),
        ("map-inline", "implies(result, T[1].map == [startLine, state.line - 1])"),
        ("markup", "implies(result, (T[0].markup == '=' or T[0].markup == '-') and T[2].markup == T[0].markup)"),
        ("markup-src", "implies(result, T[0].markup == state.src[state.bMarks[state.line - 1] + state.tShift[state.line - 1]])"),
        ("underline-nonblank", "implies(result, state.bMarks[state.line - 1] + state.tShift[state.line - 1] < state.eMarks[state.line - 1])"),
        ("parentType-restored", "implies(result, state.parentType == old(state.parentType))"),
        ("scan-consults-terminators", "implies(result, forall(l, startLine + 1, state.line - 1, state.bMarks[l] + state.tShift[l] < state.eMarks[l] and implies((state.sCount[l] - state.blkIndent <= 3 and state.sCount[l] >= 0), forall(j, 0, len(terminatorRules), not RuleFires(terminatorRules[j], l)))))", ["C06", "C07", "C10"]),
    ],
    loops={0: {"types": {"terminate": "bool", "marker": "char", "pos": "int", "maximum": "int", "level": "optint"},
               "inv": [("next-lo", "nextLine >= startLine + 1"), ("next-hi", "nextLine <= max(endLine, startLine + 1)"),
                       ("line", "state.line == old(state.line)"), ("level-none", "level is None"), ("scanned", 'forall(l, startLine + 1, nextLine, state.bMarks[l] + state.tShift[l] < state.eMarks[l] and implies((state.sCount[l] - state.blkIndent <= 3 and state.sCount[l] >= 0), forall(j, 0, len(terminatorRules), not RuleFires(terminatorRules[j], l))))')],
               "dec": "endLine - nextLine"},
           1: {"inv": [("next-lo", "nextLine >= startLine + 1"), ("next-hi", "nextLine < endLine"),
                       ("line", "state.line == old(state.line)"), ("terminate", "not terminate"), ("level-none", "level is None"), ("scanned", 'forall(l, startLine + 1, nextLine, state.bMarks[l] + state.tShift[l] < state.eMarks[l] and implies((state.sCount[l] - state.blkIndent <= 3 and state.sCount[l] >= 0), forall(j, 0, len(terminatorRules), not RuleFires(terminatorRules[j], l))))'),
                       ("none-fired-yet", "forall(j, 0, _it1, not RuleFires(terminatorRules[j], nextLine))"),
                       ("eligible", '(state.sCount[nextLine] - state.blkIndent <= 3 and state.sCount[nextLine] >= 0)'), ("nonempty", "state.bMarks[nextLine] + state.tShift[nextLine] < state.eMarks[nextLine]")],
               "dec": "len(terminatorRules) - _it1"}},
))

# ------------------------------------------------------------------ html_block
add(Contract(
    "markdown_it.rules_block.html_block.html_block", props=["C01", "C03", "C04"], params=RULE_PARAMS,
    ghost={"defs": {"P0": P0, "T": "new_tokens(state)"},
           # an included empty line at the end of the input is safe only because its blank prefix supplies the indent
           # (a column argument about sCount that the getLines contract does not carry)
           "assume_pre": {"getLines": ["eof-line-not-read-past"]}},
    requires=wf() + RULE_RANGE,
    ensures=[
        ("silent-pure", "implies(silent, ntokens(state) == old(ntokens(state)) and state.line == old(state.line))"),
        ("fail-pure", "implies(not result, ntokens(state) == old(ntokens(state)) and state.line == old(state.line))"),
        ("level", "state.level == old(state.level)"),
        ("needs-html-option", "implies(result, state.md.options.html)", ["C04", "C10"]),
        ("start-nonempty", "implies(result, P0 < len(state.src) and state.src[P0] == '<')"),
        ("line", "implies(result and not silent, startLine < state.line and state.line <= endLine)"),
        ("one-token", "implies(result and not silent, len(T) == 1 and T[0].type == 'html_block' and T[0].nesting == 0 and T[0].block and T[0].level == old(state.level))"),
        ("map", "implies(result and not silent, T[0].map == [startLine, state.line])"),
        ("content", "implies(result and not silent, T[0].content == strfun('GetLines', startLine, state.line, state.blkIndent, True))"),
    ],
    loops={0: {"types": {"HTML_SEQUENCE": "opaque", "html_seq": "optopaque"},
               "inv": [("none", "html_seq is None")], "dec": "len(HTML_SEQUENCES) - _it0"},
           1: {"types": {"lineText": "str"},
               "inv": [("next-lo", "nextLine >= startLine + 1"), ("next-hi", "nextLine <= max(endLine, startLine + 1)"),
                       ("line", "state.line == old(state.line)")],
               "dec": "endLine - nextLine"}},
))

# ------------------------------------------------------------------ ParserBlock.tokenize (C01 progress, C20 nesting guard, C03 dispatch guard)
PB = "markdown_it.parser_block.ParserBlock."
REGISTRY["<block_rule>"].ensures.append(("fallback", "implies(AlwaysMatches(__fn__) and not silent, result)"))
REGISTRY["<block_rule>"].ensures.append(("silent-deterministic", "implies(silent, result == RuleFires(__fn__, startLine))"))
REGISTRY["<block_rule>"].ensures.append(("level", "state.level == old(state.level) and state.lineMax == old(state.lineMax) and state.blkIndent == old(state.blkIndent)"))
REGISTRY["markdown_it.ruler.Ruler.getRules"].ensures.append(("fallback-last", "len(result) >= 1 and AlwaysMatches(result[len(result) - 1])"))
add(Contract(
    PB + "tokenize", params={"self": "obj:ParserBlock", "state": "obj:StateBlock", "startLine": "int", "endLine": "int"}, props=["C01", "C20", "C03"],
    requires=wf() + [("range", "0 <= startLine and endLine <= state.lineMax"), ("nest", "state.md.options.maxNesting >= 1"), ("blk-nonneg", "state.blkIndent >= 0")],
    modifies=["state.line", "state.tokens", "state.tight", "state.parentType"],
    at=[("call:rule", "rule-under-nesting-cap", "state.level < state.md.options.maxNesting", ["C20", "C01"]),
        ("call:rule", "rule-on-nonempty-line", "line < endLine and state.bMarks[line] + state.tShift[line] < state.eMarks[line] and state.sCount[line] >= state.blkIndent", ["C03", "C01"])],
    ensures=[("level", "state.level == old(state.level)", ["C02", "C07"]),
             ("context-restored", "state.lineMax == old(state.lineMax) and state.blkIndent == old(state.blkIndent)", ["C07", "C06"]),
             ("line-lo", "startLine >= endLine or state.line >= startLine", ["C03", "C01"]),
             ("progress", "implies(startLine < endLine and (state.bMarks[startLine] + state.tShift[startLine] >= state.eMarks[startLine] or state.sCount[startLine] >= state.blkIndent), "
                          "state.line > startLine)", ["C01", "C03", "C20"]),
             ("line-hi", "startLine >= endLine or state.line <= state.lineMax", ["C03"])],
    loops={0: {"types": {"rule": "none", "hasEmptyLines": "bool"},
               "inv": [("line-lo", "line >= startLine"), ("state-line", "line == startLine or state.line == line"),
                       ("line-hi", "line == startLine or line <= state.lineMax"), ("lineMax", "state.lineMax == old(state.lineMax) and state.blkIndent == old(state.blkIndent)"),
                       ("level", "state.level == old(state.level)"), ("maxNesting", "maxNesting == state.md.options.maxNesting"), ("rules", "len(rules) >= 1 and AlwaysMatches(rules[len(rules) - 1])")],
               "dec": "endLine - line"},
           1: {"types": {"rule": "none"}, "let": {},
               "inv": [("line", "state.line == line and line < endLine and line >= startLine"), ("nonempty", "state.bMarks[line] + state.tShift[line] < state.eMarks[line] and state.sCount[line] >= state.blkIndent"),
                       ("nest", "state.level < maxNesting"), ("lineMax", "state.lineMax == old(state.lineMax) and state.blkIndent == old(state.blkIndent)"), ("level", "state.level == old(state.level)"),
                       ("maxNesting", "maxNesting == state.md.options.maxNesting"), ("rules", "len(rules) >= 1 and AlwaysMatches(rules[len(rules) - 1])"),
                       ("fallback-not-reached", "_it1 < len(rules)")],
               "dec": "len(rules) - _it1"}},
))

# ------------------------------------------------------------------ StateBlock.__init__ establishes WF and CONS (C01, C03, C17)
add(Contract("markdown_it.main.MarkdownIt.__getitem__", inline=True, params={"self": "obj:MarkdownIt", "name": "str"}))
add(Contract("markdown_it.ruler.Ruler.get_active_rules", params={"self": "obj:Ruler"}, result="atomlist", assume_only=True,
             notes="list comprehension over the rule records; monitored in the C11 history check"))
N = "len(self.src)"
L = "len(self.bMarks)"
CLOSED = [
    ("lens", f"len(self.eMarks) == {L} and len(self.tShift) == {L} and len(self.sCount) == {L} and len(self.bsCount) == {L}"),
    ("closed-WF2", f"forall(i, 0, {L}, 0 <= self.bMarks[i] and 0 <= self.tShift[i] and self.bMarks[i] + self.tShift[i] <= self.eMarks[i] and self.eMarks[i] <= {N})"),
    ("closed-WF3", f"forall(i, 0, {L}, implies(self.eMarks[i] < {N}, self.src[self.eMarks[i]] == '\\n'))"),
    ("closed-bs0", f"forall(i, 0, {L}, self.bsCount[i] == 0)"),
    ("closed-CONS", f"forall(i, 0, {L}, self.sCount[i] >= 0 and self.sCount[i] == PhysCol(self.src, self.bMarks[i] + self.tShift[i]))"),
    ("closed-linestart", f"forall(i, 0, {L}, self.bMarks[i] == 0 or self.src[self.bMarks[i] - 1] == '\\n')"),
    ("closed-WF4", f"forall(i, 0, {L} - 1, self.eMarks[i] < {N})"),
    ("closed-WF6", f"forall(i, 0, {L}, forall(k, self.bMarks[i], self.bMarks[i] + self.tShift[i], self.src[k] == ' ' or self.src[k] == '\\t'))"),
    ("closed-WF5", f"forall(i, 0, {L}, implies(self.bMarks[i] + self.tShift[i] < self.eMarks[i], not (self.src[self.bMarks[i] + self.tShift[i]] == ' ' or self.src[self.bMarks[i] + self.tShift[i]] == '\\t')))"),
]
add(Contract(
    SB + "__init__", params={"self": "obj:StateBlock", "src": "str", "md": "obj:MarkdownIt", "env": "opaque", "tokens": "tokseq"}, props=["C01", "C03", "C17", "C08"],
    ghost={"thorough_only": ["lines-cover-source", "covered", "open-closed-at-end"]},
    ensures=[
        ("WF1-len-e", f"len(self.eMarks) == {L}", ["C01", "C03"]), ("WF1-len-t", f"len(self.tShift) == {L}", ["C01"]), ("WF1-len-s", f"len(self.sCount) == {L}", ["C01"]),
        ("WF1-len-bs", f"len(self.bsCount) == {L}", ["C01"]), ("WF1-lineMax", f"self.lineMax == {L} - 1 and {L} >= 1", ["C01", "C03"]),
        ("WF1-sentinel", f"self.bMarks[{L} - 1] == {N} and self.eMarks[{L} - 1] == {N} and self.tShift[{L} - 1] == 0", ["C01"]),
        ("WF2", f"forall(i, 0, {L}, 0 <= self.bMarks[i] and 0 <= self.tShift[i] and self.bMarks[i] + self.tShift[i] <= self.eMarks[i] and self.eMarks[i] <= {N})", ["C01", "C03"]),
        ("WF3", f"forall(i, 0, {L} - 1, implies(self.eMarks[i] < {N}, self.src[self.eMarks[i]] == '\\n'))", ["C01"]),
        ("WF4", f"forall(i, 0, {L} - 2, self.eMarks[i] < {N})", ["C01"]),
        ("WF5", f"forall(i, 0, {L} - 1, implies(self.bMarks[i] + self.tShift[i] < self.eMarks[i], not (self.src[self.bMarks[i] + self.tShift[i]] == ' ' or self.src[self.bMarks[i] + self.tShift[i]] == '\\t')))", ["C01"]),
        # C08: what a fresh state calls a line's indentation (and getLines may therefore cut away) is spaces and tabs only
        ("WF6-indentation-is-blanks", f"forall(i, 0, {L} - 1, forall(k, self.bMarks[i], self.bMarks[i] + self.tShift[i], self.src[k] == ' ' or self.src[k] == '\\t'))", ["C08", "C17"]),
        ("CONS", f"forall(i, 0, {L} - 1, self.bsCount[i] == 0 and self.sCount[i] >= 0 and self.bsCount[i] + self.sCount[i] == PhysCol(self.src, self.bMarks[i] + self.tShift[i]))", ["C17", "C06"]),
        ("lines-cover-source", f"forall(p, 0, {N}, exists(i, 0, {L} - 1, self.bMarks[i] <= p and p <= self.eMarks[i]) or forall(k, p, {N}, self.src[k] == ' ' or self.src[k] == '\\t'))", ["C03"]),
        ("fresh-context", "self.blkIndent == 0 and self.line == 0 and self.level == 0 and self.parentType == 'root' and self.src == src", ["C07", "C12"]),
    ],
    loops={0: {"types": {"character": "char", "pos": "int"},
               "inv": CLOSED + [
                   ("start-range", f"0 <= start and start <= _it0 + 1 and implies(start == _it0 + 1, _it0 == {N})"),
                   ("start-linestart", f"start > {N} or start == 0 or self.src[start - 1] == '\\n'"),
                   ("no-newline-open", "forall(k, start, _it0, self.src[k] != '\\n')"),
                   ("length", f"length == {N} and self.src == src"),
                   ("closed-before-start", f"forall(i, 0, {L}, self.eMarks[i] < start)"),
                   ("scan-blank", "implies(not indent_found and start <= _it0, indent == _it0 - start and offset == PhysCol(self.src, _it0) and forall(k, start, _it0, self.src[k] == ' ' or self.src[k] == '\\t'))"),
                   ("scan-found", "implies(indent_found, 0 <= indent and start + indent < _it0 and offset == PhysCol(self.src, start + indent) and "
                                  "forall(k, start, start + indent, self.src[k] == ' ' or self.src[k] == '\\t') and not (self.src[start + indent] == ' ' or self.src[start + indent] == '\\t'))"),
                   ("offset-nonneg", "offset >= 0 and indent >= 0"),
                   ("covered", f"forall(p, 0, start, implies(p < {N}, exists(i, 0, {L}, self.bMarks[i] <= p and p <= self.eMarks[i])))"),
                   ("open-closed-at-end", f"implies(_it0 == {N} and indent_found, start > {N})"),
                   ("it-range", f"_it0 <= {N}")],
               "dec": f"{N} - _it0"}},
))

# ------------------------------------------------------------------ list marker helpers (C01: the digits handed to int() are ASCII digits; C08: marker/info)
LM = "markdown_it.rules_block.list."
PM = "(state.bMarks[startLine] + state.tShift[startLine])"
add(Contract(
    LM + "skipOrderedListMarker", params={"state": "obj:StateBlock", "startLine": "int"}, result="int", props=["C01", "C08"],
    requires=wf() + [("line", "0 <= startLine and startLine < len(state.bMarks)")],
    ensures=[
        ("fail-or-after-marker", f"result == -1 or ({PM} + 2 <= result and result <= state.eMarks[startLine] and result <= {PM} + 10)", ["C01", "C08"]),
        ("ascii-digits", f"implies(result >= 0, forall(k, {PM}, result - 1, state.src[k] >= '0' and state.src[k] <= '9'))", ["C01", "C08"]),
        ("at-least-one-digit", f"implies(result >= 0, result - 1 > {PM})", ["C01"]),
        ("delimiter", "implies(result >= 0, state.src[result - 1] == '.' or state.src[result - 1] == ')')", ["C08"]),
        ("blank-after", "implies(result >= 0 and result < state.eMarks[startLine], state.src[result] == ' ' or state.src[result] == '\\t')", ["C08"]),
    ],
    loops={0: {"types": {"ch": "char", "ch_ord": "int"},
               "inv": [("pos-lo", f"pos >= {PM} + 1"), ("pos-hi", "pos <= maximum and maximum == state.eMarks[startLine] and maximum <= len(state.src)"),
                       ("start", f"start == {PM}"), ("digits", "forall(k, start, pos, state.src[k] >= '0' and state.src[k] <= '9')"), ("width", "pos - start <= 9")],
               "dec": "maximum - pos"}},
))
add(Contract(
    LM + "skipBulletListMarker", params={"state": "obj:StateBlock", "startLine": "int"}, result="int", props=["C01", "C08"],
    requires=wf() + [("line", "0 <= startLine and startLine < len(state.bMarks)")],
    ensures=[
        ("fail-or-after-marker", f"result == -1 or (result == {PM} + 1 and {PM} < len(state.src))", ["C01", "C08"]),
        ("marker", f"implies(result >= 0, state.src[{PM}] == '*' or state.src[{PM}] == '-' or state.src[{PM}] == '+')", ["C08"]),
        ("blank-after", "implies(result >= 0 and result < state.eMarks[startLine], state.src[result] == ' ' or state.src[result] == '\\t')", ["C08"]),
    ],
))
