"""Contracts for StateBlock helpers and the leaf block rules (C01, C03, C08)."""
from vf.core import Contract
from .common import SPECFUNS, wf, RULE_RANGE, unchanged_on, make_adder

SB = "markdown_it.rules_block.state_block.StateBlock."
U = "markdown_it.common.utils."
REGISTRY = {}


add = make_adder(REGISTRY)


# ------------------------------------------------------------------ inlined helpers
for name in ("isStrSpace", "isSpace", "charCodeAt", "charStrAt"):
    add(Contract(U + name, inline=True, params={"ch": "optchar", "code": "optint", "src": "str", "pos": "int"}))
add(Contract(SB + "isEmpty", inline=True))
add(Contract(SB + "is_code_block", inline=True))
add(Contract(SB + "push", inline=True))

P0 = "old(state.bMarks[startLine]) + old(state.tShift[startLine])"

# ------------------------------------------------------------------ StateBlock scanning helpers
add(Contract(
    SB + "skipSpaces", params={"self": "obj:StateBlock", "pos": "int"}, result="int", props=["C01"],
    requires=[("pos-nonneg", "pos >= 0")],
    ensures=[("ge", "result >= pos"), ("le", "result <= max(pos, len(self.src))"),
             ("stops", "implies(result < len(self.src), not (self.src[result] == ' ' or self.src[result] == '\\t'))"),
             ("blank", "forall(k, pos, result, self.src[k] == ' ' or self.src[k] == '\\t')")],
    loops={0: {"inv": [("pos-ge", "pos >= old(pos)"), ("pos-le", "pos <= max(old(pos), len(self.src))"),
                       ("blank", "forall(k, old(pos), pos, self.src[k] == ' ' or self.src[k] == '\\t')")],
               "dec": "max(len(self.src), old(pos)) + 1 - pos"}},
))
add(Contract(
    SB + "skipCharsStr", params={"self": "obj:StateBlock", "pos": "int", "ch": "char"}, result="int", props=["C01"],
    requires=[("pos-nonneg", "pos >= 0")],
    ensures=[("ge", "result >= pos"), ("le", "result <= max(pos, len(self.src))"),
             ("stops", "implies(result < len(self.src), self.src[result] != ch)"),
             ("run", "forall(k, pos, result, self.src[k] == ch)")],
    loops={0: {"inv": [("pos-ge", "pos >= old(pos)"), ("pos-le", "pos <= max(old(pos), len(self.src))"),
                       ("run", "forall(k, old(pos), pos, self.src[k] == ch)")],
               "dec": "max(len(self.src), old(pos)) + 1 - pos"}},
))
add(Contract(
    SB + "skipSpacesBack", params={"self": "obj:StateBlock", "pos": "int", "minimum": "int"}, result="int", props=["C01"],
    requires=[("min-nonneg", "minimum >= 0"), ("pos-le", "pos <= len(self.src)")],
    ensures=[("le", "result <= pos"), ("ge", "result >= min(pos, minimum)"),
             ("blank", "forall(k, result, pos, self.src[k] == ' ' or self.src[k] == '\\t')")],
    loops={0: {"inv": [("le", "pos <= old(pos)"), ("ge", "pos >= minimum"),
                       ("blank", "forall(k, pos, old(pos), self.src[k] == ' ' or self.src[k] == '\\t')")],
               "dec": "pos - minimum"}},
))
add(Contract(
    SB + "skipCharsStrBack", params={"self": "obj:StateBlock", "pos": "int", "ch": "char", "minimum": "int"}, result="int", props=["C01"],
    requires=[("min-nonneg", "minimum >= 0"), ("pos-le", "pos <= len(self.src)")],
    ensures=[("le", "result <= pos"), ("ge", "result >= min(pos, minimum)"),
             ("run", "forall(k, result, pos, self.src[k] == ch)")],
    loops={0: {"inv": [("le", "pos <= old(pos)"), ("ge", "pos >= minimum"),
                       ("run", "forall(k, pos, old(pos), self.src[k] == ch)")],
               "dec": "pos - minimum"}},
))
add(Contract(
    SB + "skipEmptyLines", params={"self": "obj:StateBlock", "from_pos": "int"}, result="int", props=["C01", "C03"],
    requires=wf("self") + [("from-nonneg", "from_pos >= 0")],
    ensures=[("ge", "result >= from_pos"), ("le", "result <= max(from_pos, self.lineMax)"),
             ("nonempty", "implies(result < self.lineMax, self.bMarks[result] + self.tShift[result] < self.eMarks[result])"),
             ("skipped-empty", "forall(k, from_pos, result, self.bMarks[k] + self.tShift[k] >= self.eMarks[k])")],
    loops={0: {"inv": [("ge", "from_pos >= old(from_pos)"), ("le", "from_pos <= max(old(from_pos), self.lineMax)"),
                       ("skipped-empty", "forall(k, old(from_pos), from_pos, self.bMarks[k] + self.tShift[k] >= self.eMarks[k])")],
               "dec": "self.lineMax - from_pos"}},
))

# ------------------------------------------------------------------ hr
add(Contract(
    "markdown_it.rules_block.hr.hr", props=["C01", "C03", "C08"],
    params={"state": "obj:StateBlock", "startLine": "int", "endLine": "int", "silent": "bool"},
    ghost={"defs": {"P0": P0, "T": "new_tokens(state)"}},
    requires=wf() + RULE_RANGE,
    ensures=[
        ("silent-pure", "implies(silent, ntokens(state) == old(ntokens(state)) and state.line == old(state.line) and state.level == old(state.level))"),
        ("fail-pure", "implies(not result, ntokens(state) == old(ntokens(state)) and state.line == old(state.line) and state.level == old(state.level))"),
        ("line", "implies(result and not silent, state.line == startLine + 1)"),
        ("level", "state.level == old(state.level)"),
        ("one-token", "implies(result and not silent, len(T) == 1)"),
        ("map", "implies(result and not silent, T[0].map == [startLine, startLine + 1])"),
        ("type", "implies(result and not silent, T[0].type == 'hr' and T[0].nesting == 0 and T[0].block and T[0].level == old(state.level))"),
        ("start-nonempty", "implies(result, P0 < old(state.eMarks[startLine]))"),
        ("markup-count", "implies(result and not silent, len(T[0].markup) == CountCh(state.src, P0, state.eMarks[startLine], state.src[P0]))"),
        ("markup-chars", "implies(result and not silent, forall(k, 0, len(T[0].markup), T[0].markup[k] == state.src[P0]))"),
        ("marker", "implies(result, state.src[P0] == '*' or state.src[P0] == '-' or state.src[P0] == '_')"),
    ],
    loops={0: {"inv": [("pos-lo", "pos >= P0 + 1"), ("pos-hi", "pos <= max(maximum, P0 + 1)"),
                       ("cnt", "cnt == CountCh(state.src, P0, pos, marker)"),
                       ("marker", "marker == state.src[P0]")],
               "dec": "maximum - pos"}},
))
