"""Contracts for markdown_it.ruler.Ruler (DESIGN.md 3.1) - C11, C13, C14, C10.

Abstract view: rules = the record list self.__rules__ (name, enabled, fn, alt).
RI(self): the compiled cache is None, or it maps every chain c to Filter(rules, n, c)   (cache_valid).
With the repaired mutators RI after a mutator is simply `self.__cache__ is None` on *every* exit.
"""
from vf.core import Contract
from .common import SPECFUNS, make_adder, specfun

R = "markdown_it.ruler.Ruler."
REGISTRY = {}
add = make_adder(REGISTRY)

# Find(rules, k, name): index of the first rule among the first k with that name, or -1.  Declared by its
# characterisation (the least index with that name exists and is unique, so the function is well defined).
specfun("Find", '''
def Find(rules, k, name):
    for i in range(k):
        if rules[i].name == name:
            return i
    return -1
''', axiom="(result == -1 and forall(j, 0, k, rules[j].name != name)) or "
           "(0 <= result and result < k and rules[result].name == name and forall(j, 0, result, rules[j].name != name))",
        reads=["name"], quant=["name"])

N = "len(self.__rules__)"
SAME_RULES = [
    ("rules-len", f"{N} == old({N})"),
    ("rules-same", f"forall(i, 0, {N}, self.__rules__[i].name == old(self.__rules__[i].name) and self.__rules__[i].fn == old(self.__rules__[i].fn) "
                   f"and self.__rules__[i].alt == old(self.__rules__[i].alt))"),
]
FLAGS_SAME = [("flags-same", f"forall(i, 0, {N}, self.__rules__[i].enabled == old(self.__rules__[i].enabled))")]
INVALIDATED = [("RI-cache-none", "self.__cache__ is None")]
UNCHANGED = SAME_RULES + FLAGS_SAME

add(Contract(
    R + "__find__", params={"self": "obj:Ruler", "name": "atom"}, result="int", props=["C11"],
    ensures=[("first-match", f"result == Find(self.__rules__, {N}, name)"),
             ("range", f"-1 <= result and result < {N}"),
             ("hit", "implies(result >= 0, self.__rules__[result].name == name)"),
             ("first", "forall(j, 0, result, self.__rules__[j].name != name)"),
             ("miss", f"implies(result < 0, forall(j, 0, {N}, self.__rules__[j].name != name))")] + UNCHANGED,
    loops={0: {"types": {"rule": "none"},
               "inv": [("none-before", "forall(j, 0, _it0, self.__rules__[j].name != name)"),
                       ("it-range", f"_it0 <= {N}")],
               "dec": f"{N} - _it0"}},
))

NAMES_T = "atom | atomlist"
for meth, flag in (("enable", "True"), ("disable", "False")):
    add(Contract(
        R + meth, params={"self": "obj:Ruler", "names": NAMES_T, "ignoreInvalid": "bool"}, result="atomlist", props=["C11", "C14"],
        modifies=["self.__rules__", "self.__cache__"],
        ensures=INVALIDATED + SAME_RULES + [
            ("set-semantics", f"forall(i, 0, {N}, iff(self.__rules__[i].enabled == {flag}, old(self.__rules__[i].enabled) == {flag} or "
                              f"exists(j, 0, len(aslist(names)), Find(self.__rules__, {N}, aslist(names)[j]) == i)))"),
            ("only-named-flip", f"forall(i, 0, {N}, self.__rules__[i].enabled == old(self.__rules__[i].enabled) or self.__rules__[i].enabled == {flag})"),
            ("result-found", f"forall(j, 0, len(result), Find(self.__rules__, {N}, result[j]) >= 0 and self.__rules__[Find(self.__rules__, {N}, result[j])].enabled == {flag})"),
        ],
        raises={"KeyError": INVALIDATED + SAME_RULES + [
            ("not-ignoring", "not ignoreInvalid"),
            ("unknown-name", f"exists(j, 0, len(aslist(names)), Find(self.__rules__, {N}, aslist(names)[j]) < 0)"),
            ("only-named-flip", f"forall(i, 0, {N}, self.__rules__[i].enabled == old(self.__rules__[i].enabled) or self.__rules__[i].enabled == {flag})"),
        ]},
        loops={0: {"types": {"name": "atom", "idx": "int"},
                   "inv": [("cache-none", "self.__cache__ is None")] + SAME_RULES + [
                       ("set-semantics", f"forall(i, 0, {N}, iff(self.__rules__[i].enabled == {flag}, old(self.__rules__[i].enabled) == {flag} or "
                                         f"exists(j, 0, _it0, Find(self.__rules__, {N}, aslist(names)[j]) == i)))"),
                       ("it-range", "_it0 <= len(names)"),
                       ("only-named-flip", f"forall(i, 0, {N}, self.__rules__[i].enabled == old(self.__rules__[i].enabled) or self.__rules__[i].enabled == {flag})"),
                       ("result-found", f"forall(j, 0, len(result), Find(self.__rules__, {N}, result[j]) >= 0 and self.__rules__[Find(self.__rules__, {N}, result[j])].enabled == {flag})"),
                   ],
                   "dec": "len(names) - _it0"}},
    ))

add(Contract(
    R + "enableOnly", params={"self": "obj:Ruler", "names": NAMES_T, "ignoreInvalid": "bool"}, result="atomlist", props=["C11", "C14"],
    modifies=["self.__rules__", "self.__cache__"],
    ensures=INVALIDATED + SAME_RULES + [
        ("set-semantics", f"forall(i, 0, {N}, iff(self.__rules__[i].enabled, exists(j, 0, len(aslist(names)), Find(self.__rules__, {N}, aslist(names)[j]) == i)))"),
        ("result-found", f"forall(j, 0, len(result), Find(self.__rules__, {N}, result[j]) >= 0 and self.__rules__[Find(self.__rules__, {N}, result[j])].enabled)"),
    ],
    raises={"KeyError": INVALIDATED + SAME_RULES + [("not-ignoring", "not ignoreInvalid"), ("unknown-name", f"exists(j, 0, len(aslist(names)), Find(self.__rules__, {N}, aslist(names)[j]) < 0)"),]},
    loops={0: {"types": {"rule": "none"},
               "inv": [("cache-none", "self.__cache__ is None")] + SAME_RULES + [
                   ("disabled-prefix", "forall(i, 0, _it0, not self.__rules__[i].enabled)"), ("it-range", f"_it0 <= {N}")],
               "dec": f"{N} - _it0"}},
))

OPT_T = "none | emptydict | opaque"
add(Contract(
    R + "at", params={"self": "obj:Ruler", "ruleName": "atom", "fn": "atom", "options": OPT_T}, props=["C11"],
    modifies=["self.__rules__", "self.__cache__"],
    ensures=INVALIDATED + FLAGS_SAME + [
        ("rules-len", f"{N} == old({N})"),
        ("found", f"Find(self.__rules__, {N}, ruleName) >= 0"),
        ("replaced", f"self.__rules__[old(Find(self.__rules__, {N}, ruleName))].fn == fn"),
        ("names-same", f"forall(i, 0, {N}, self.__rules__[i].name == old(self.__rules__[i].name))"),
        ("others-same", f"forall(i, 0, {N}, implies(i != old(Find(self.__rules__, {N}, ruleName)), "
                        f"self.__rules__[i].fn == old(self.__rules__[i].fn) and self.__rules__[i].alt == old(self.__rules__[i].alt)))"),
    ],
    raises={"KeyError": UNCHANGED + [("not-found", f"old(Find(self.__rules__, {N}, ruleName)) < 0"),
                                     ("cache-same", "iff(self.__cache__ is None, old(self.__cache__ is None))")]},
))

for meth, anchor, off in (("before", "beforeName", 0), ("after", "afterName", 1)):
    IDX = f"old(Find(self.__rules__, {N}, {anchor})) + {off}"
    add(Contract(
        R + meth, params={"self": "obj:Ruler", anchor: "atom", "ruleName": "atom", "fn": "atom", "options": OPT_T}, props=["C11"],
        modifies=["self.__rules__", "self.__cache__"],
        ensures=INVALIDATED + [
            ("len+1", f"{N} == old({N}) + 1"),
            ("anchor-found", f"old(Find(self.__rules__, {N}, {anchor})) >= 0"),
            ("inserted", f"self.__rules__[{IDX}].name == ruleName and self.__rules__[{IDX}].fn == fn and self.__rules__[{IDX}].enabled"),
            ("prefix-same", f"forall(i, 0, {IDX}, self.__rules__[i].name == old(self.__rules__[i].name) and self.__rules__[i].fn == old(self.__rules__[i].fn) "
                            f"and self.__rules__[i].enabled == old(self.__rules__[i].enabled) and self.__rules__[i].alt == old(self.__rules__[i].alt))"),
            ("suffix-shifted", f"forall(i, {IDX} + 1, {N}, self.__rules__[i].name == old(self.__rules__[i - 1].name) and self.__rules__[i].fn == old(self.__rules__[i - 1].fn) "
                               f"and self.__rules__[i].enabled == old(self.__rules__[i - 1].enabled) and self.__rules__[i].alt == old(self.__rules__[i - 1].alt))"),
        ],
        raises={"KeyError": UNCHANGED + [("not-found", f"old(Find(self.__rules__, {N}, {anchor})) < 0"),
                                         ("cache-same", "iff(self.__cache__ is None, old(self.__cache__ is None))")]},
    ))

add(Contract(
    R + "push", params={"self": "obj:Ruler", "ruleName": "atom", "fn": "atom", "options": OPT_T}, props=["C11"],
    modifies=["self.__rules__", "self.__cache__"],
    ensures=INVALIDATED + [
        ("len+1", f"{N} == old({N}) + 1"),
        ("appended", f"self.__rules__[{N} - 1].name == ruleName and self.__rules__[{N} - 1].fn == fn and self.__rules__[{N} - 1].enabled"),
        ("prefix-same", f"forall(i, 0, {N} - 1, self.__rules__[i].name == old(self.__rules__[i].name) and self.__rules__[i].fn == old(self.__rules__[i].fn) "
                        f"and self.__rules__[i].enabled == old(self.__rules__[i].enabled) and self.__rules__[i].alt == old(self.__rules__[i].alt))"),
    ],
))

# ------------------------------------------------------------------ compiled chains: __compile__ and getRules (C11 core, C10, C13)
specfun("Filter", '''
def Filter(rules, k, c):
    """functions of the enabled rules among the first k that belong to chain c ('' = every enabled rule), in order"""
    return [] if k <= 0 else Filter(rules, k - 1, c) + ([rules[k - 1].fn] if (rules[k - 1].enabled and (c == "" or c in rules[k - 1].alt)) else [])
''', result="seq", reads=["enabled", "fn", "alt"])

RI = ("RI", f"self.__cache__ is None or forall_atoms(c, cache_get(self.__cache__, c) == Filter(self.__rules__, {N}, c))")
SEL = "(self.__rules__[i].enabled and (c == '' or c in self.__rules__[i].alt))"
COLLECTED = "forall(i, 0, {upto}, implies(self.__rules__[i].enabled, forall(j, 0, altlen(self.__rules__[i].alt), altelem(self.__rules__[i].alt, j) in chains)))"
DONE_OK = [
    ("done-subset", "forall_atoms(c, implies(c in _done2, c in chains))"),
    ("cache-keys", "forall_atoms(c, iff(c in cache, c in _done2))"),
    ("cache-done", f"forall_atoms(c, implies(c in _done2, cache_get(cache, c) == Filter(self.__rules__, {N}, c)))"),
]
add(Contract(
    R + "__compile__", params={"self": "obj:Ruler"}, props=["C11", "C10", "C13"],
    modifies=["self.__cache__"],
    ghost={"lemmas": [{"name": "no-selected-rule-empty-chain", "vars": {"k": "int", "c": "atom"}, "induct": "k",
                       "stmt": f"implies(k <= {N} and forall(i, 0, k, not {SEL}), Filter(self.__rules__, k, c) == [])"}]},
    ensures=UNCHANGED + [
        ("published", "self.__cache__ is not None"),
        ("cache-is-filter", f"forall_atoms(c, cache_get(self.__cache__, c) == Filter(self.__rules__, {N}, c))"),
    ],
    loops={
        0: {"types": {"rule": "none", "name": "atom"},
            "inv": [("empty-chain", "'' in chains"), ("collected", COLLECTED.format(upto="_it0")), ("it-range", f"_it0 <= {N}")] + UNCHANGED,
            "dec": f"{N} - _it0"},
        1: {"types": {"name": "atom"},
            "inv": [("empty-chain", "'' in chains"), ("collected", COLLECTED.format(upto="_it0")), ("it0-range", f"_it0 < {N} and self.__rules__[_it0].enabled"),
                    ("partial", "forall(j, 0, _it1, altelem(self.__rules__[_it0].alt, j) in chains)"), ("it1-range", "_it1 <= altlen(self.__rules__[_it0].alt)")] + UNCHANGED,
            "dec": "altlen(self.__rules__[_it0].alt) - _it1"},
        2: {"types": {"chain": "atom", "rule": "none"},
            "inv": DONE_OK + UNCHANGED,
            "dec": None},
        3: {"types": {"rule": "none"},
            "inv": [("chain-pending", "chain in chains and not (chain in _done2) and chain in cache"),
                    ("partial", "cache_get(cache, chain) == Filter(self.__rules__, _it3, chain)"), ("it-range", f"_it3 <= {N}"),
                    ("others-keys", "forall_atoms(c, implies(c != chain, iff(c in cache, c in _done2)))"),
                    ("others-done", f"forall_atoms(c, implies(c in _done2, cache_get(cache, c) == Filter(self.__rules__, {N}, c)))"),
                    ("done-subset", "forall_atoms(c, implies(c in _done2, c in chains))")] + UNCHANGED,
            "dec": f"{N} - _it3"},
    },
))
add(Contract(
    R + "getRules", params={"self": "obj:Ruler", "chainName": "atom"}, props=["C11", "C10", "C13"],
    modifies=["self.__cache__"],
    requires=[RI],
    ensures=UNCHANGED + [RI, ("applied-is-filter", f"result == Filter(self.__rules__, {N}, chainName)")],
))
