"""Shared pieces of the sidecar contracts: well-formedness of StateBlock line tables (DESIGN.md 3.2),
the generic rule preconditions, spec functions."""
from vf.core import Contract
from vf.ev_spec import SpecFun

SPECFUNS = {}


import re

# default property tags of clauses, by label (a clause may override with an explicit third element)
AUTO_TAGS = [
    (r"^(map|start-nonempty|ends-nonblank|underline-nonblank|line$|last-nonblank|prev-nonblank|cur-nonblank)", ["C03"]),
    (r"^(markup|content|info|marker|strip1)", ["C08"]),
    (r"^(three-tokens|one-token|types?$|nesting|levels?$|block$|children|tags)", ["C02"]),
    (r"^(silent-pure|fail-pure|parentType|always-true|progress)", ["C07", "C01"]),
    (r"^needs-html", ["C04", "C10"]),
]


def auto_tag(label, default):
    for rx, props in AUTO_TAGS:
        if re.search(rx, label):
            return props
    return default


def make_adder(registry):
    from vf.verify import expand_defs

    def add(c):
        def tag(cl):
            return [t if len(t) == 3 else (t[0], t[1], auto_tag(t[0], list(c.props))) for t in cl]

        c.ensures = tag(c.ensures)
        c.raises = {k: tag(v) for k, v in c.raises.items()}
        registry[c.qualname] = expand_defs(c)
        return c

    return add


def specfun(name, source, result="int", axiom=None, reads=None, quant=None):
    SPECFUNS[name] = SpecFun(name, source, result, axiom, reads, quant)


specfun("CountCh", '''
def CountCh(src, lo, hi, ch):
    """number of occurrences of ch in src[lo:hi]"""
    return 0 if hi <= lo else CountCh(src, lo, hi - 1, ch) + (1 if src[hi - 1] == ch else 0)
''')

specfun("PhysCol", '''
def PhysCol(src, p):
    """column of position p in its physical line, tab stops every 4 columns"""
    return 0 if (p <= 0 or src[p - 1] == "\\n") else (
        PhysCol(src, p - 1) + (4 - PhysCol(src, p - 1) % 4 if src[p - 1] == "\\t" else 1))
''')

# ---------------------------------------------------------------------------------- StateBlock WF
WF = [
    ("WF1-len-e", "len(state.eMarks) == len(state.bMarks)"),
    ("WF1-len-t", "len(state.tShift) == len(state.bMarks)"),
    ("WF1-len-s", "len(state.sCount) == len(state.bMarks)"),
    ("WF1-len-bs", "len(state.bsCount) == len(state.bMarks)"),
    ("WF1-lineMax", "0 <= state.lineMax and state.lineMax <= len(state.bMarks) - 1"),
    ("WF2", "forall(i, 0, len(state.bMarks), 0 <= state.bMarks[i] and 0 <= state.tShift[i] and "
            "state.bMarks[i] + state.tShift[i] <= state.eMarks[i] and state.eMarks[i] <= len(state.src))"),
    ("WF3", "forall(i, 0, len(state.bMarks) - 1, implies(state.eMarks[i] < len(state.src), "
            "state.src[state.eMarks[i]] == '\\n'))"),
    # only the last real line may end at the end of the source
    ("WF4", "forall(i, 0, len(state.bMarks) - 2, state.eMarks[i] < len(state.src))"),
    # the logical start of a non-empty line is a non-blank character
    ("WF5", "forall(i, 0, len(state.bMarks) - 1, implies(state.bMarks[i] + state.tShift[i] < state.eMarks[i], "
            "not (state.src[state.bMarks[i] + state.tShift[i]] == ' ' or state.src[state.bMarks[i] + state.tShift[i]] == '\\t')))"),
]


def wf(prefix="state"):
    if prefix == "state":
        return list(WF)
    return [(l, e.replace("state.", prefix + ".")) for l, e in WF]


# what every block rule may rely on when it is called: a line range inside the table, a non-negative block indent, and -
# when it is dispatched to produce tokens (not probed as a terminator) - a first line indented at least to the block
RULE_RANGE = [("range", "0 <= startLine and startLine < endLine and endLine <= state.lineMax"),
              ("blk-nonneg", "state.blkIndent >= 0"),
              ("dispatched-line-indented", "implies(not silent, state.sCount[startLine] >= state.blkIndent)")]

TABLES = ["state.bMarks", "state.eMarks", "state.tShift", "state.sCount", "state.bsCount"]

# fields a block rule must leave unchanged when it fails or runs silently (DESIGN.md 3.3)
UNCHANGED_SCALARS = ["line", "level", "lineMax", "blkIndent", "listIndent", "ddIndent"]


def unchanged_on(cond: str, include_tokens=True):
    out = []
    for f in UNCHANGED_SCALARS:
        out.append((f"unchanged-{f}", f"implies({cond}, state.{f} == old(state.{f}))"))
    if include_tokens:
        out.append(("unchanged-tokens", f"implies({cond}, ntokens(state) == old(ntokens(state)))"))
    return out


# an uninterpreted predicate on rule functions: "this rule matches every line it is offered" (the paragraph fallback)
specfun("AlwaysMatches", """
def AlwaysMatches(fn):
    return getattr(fn, "__name__", "") == "paragraph"
""", result="bool", axiom="True")

# RuleFires(fn, line): the result of calling rule fn in silent mode on `line` in the current (unchanged) state.
# Silent calls are pure (generic rule contract), so the result is a function of the rule and the line: an uninterpreted
# predicate, used to state *which* lines a paragraph-like scan may pass without consulting the terminator rules.
specfun("RuleFires", """
def RuleFires(fn, line):
    return False
""", result="bool", axiom="True")

# Escaped(s, lo, p): 1 when position p of s is consumed by a backslash escape that starts at or after lo
# (a backslash that is itself not escaped stands directly before it), else 0.
specfun("Escaped", r'''
def Escaped(s, lo, p):
    return 0 if p <= lo else (1 if (s[p - 1] == "\\" and Escaped(s, lo, p - 1) == 0) else 0)
''')
