"""Contracts for the typographic core rules (C19): every token.content store is dominated by
`type == "text"` and 'not inside an autolink' (GUARD), the token list is never structurally modified (FRAME by typing:
the list parameter is only indexed), and the autolink counter mirrors the number of open auto links (invariant)."""
from vf.core import Contract
from .common import SPECFUNS, make_adder, specfun

REGISTRY = {}
add = make_adder(REGISTRY)

specfun("AutoOpen", '''
def AutoOpen(ts, k):
    """number of info == 'auto' links open after the first k tokens"""
    return 0 if k <= 0 else (AutoOpen(ts, k - 1)
                             + (1 if (ts[k - 1].type == "link_open" and ts[k - 1].info == "auto") else 0)
                             - (1 if (ts[k - 1].type == "link_close" and ts[k - 1].info == "auto") else 0))
''', reads=["type", "info"])

GUARD = "inlineTokens[_it0].type == 'text' and AutoOpen(inlineTokens, _it0) == 0"
UNCHANGED = [
    ("len-same", "len(inlineTokens) == old(len(inlineTokens))"),
    ("structure-same", "forall(i, 0, len(inlineTokens), inlineTokens[i].type == old(inlineTokens[i].type) and inlineTokens[i].info == old(inlineTokens[i].info) "
                       "and inlineTokens[i].level == old(inlineTokens[i].level) and inlineTokens[i].nesting == old(inlineTokens[i].nesting))"),
    ("only-text-edited", "forall(i, 0, len(inlineTokens), inlineTokens[i].content == old(inlineTokens[i].content) or "
                         "(old(inlineTokens[i].type) == 'text' and AutoOpen(inlineTokens, i) == 0))"),
]
FUNCS = []
for fname in ("replace_scoped", "replace_rare"):
    q = "markdown_it.rules_core.replacements." + fname
    FUNCS.append(q)
    add(Contract(
        q, params={"inlineTokens": "reclist:TokenA"}, props=["C19"],
        at=[("store:content", "content-store-guard", GUARD)],
        ensures=UNCHANGED,
        loops={0: {"types": {"token": "none"},
                   "inv": [("counter", "inside_autolink == 0 - AutoOpen(inlineTokens, _it0)"), ("it-range", "_it0 <= len(inlineTokens)")] + UNCHANGED[:2] + [
                       ("only-text-edited", "forall(i, 0, len(inlineTokens), inlineTokens[i].content == old(inlineTokens[i].content) or "
                                            "(old(inlineTokens[i].type) == 'text' and AutoOpen(inlineTokens, i) == 0))")],
                   "dec": "len(inlineTokens) - _it0"}},
    ))
