"""Contracts for further inline rules (C01 safety/termination, C02 token shape, C08 code-span content)."""
from vf.core import Contract
from .common import SPECFUNS, make_adder
from . import inline as IL

REGISTRY = dict(IL.REGISTRY)
add = make_adder(REGISTRY)
RI = "markdown_it.rules_inline."
POSR = IL.POSR
GENERIC = [
    ("advance", "implies(result, old(state.pos) < state.pos and state.pos <= state.posMax)", ["C01", "C20"]),
    ("fail-pure", "implies(not result, state.pos == old(state.pos) and state.pending == old(state.pending) and ntokens(state) == old(ntokens(state)))", ["C01"]),
    ("silent-pure", "implies(silent, state.pending == old(state.pending) and ntokens(state) == old(ntokens(state)))", ["C01"]),
    ("level", "state.level == old(state.level) and state.posMax == old(state.posMax)", ["C01", "C02"]),
]

add(Contract(
    RI + "newline.newline", params={"state": "obj:StateInline", "silent": "bool"}, result="bool", props=["C01", "C02", "C17"],
    ghost={"defs": {"P0": "old(state.pos)", "T": "new_tokens(state)"}},
    requires=POSR,
    ensures=GENERIC + [
        ("trigger", "iff(result, state.src[P0] == '\\n')", ["C01"]),
        ("break-token", "implies(result and not silent, (T[-1].type == 'hardbreak' or T[-1].type == 'softbreak') and T[-1].nesting == 0 and T[-1].tag == 'br' and T[-1].level == old(state.level))", ["C02"]),
        ("pending-flushed", "implies(result and not silent, state.pending == '' and (len(T) == 1 or len(T) == 2))", ["C01", "C02"]),
        ("flushed-text-loses-only-trailing-spaces", "implies(result and not silent and len(T) == 2, T[0].type == 'text' and T[0].nesting == 0 and T[0].level == old(state.pendingLevel) "
                                                    "and len(T[0].content) <= old(len(state.pending)) and forall(k, 0, len(T[0].content), T[0].content[k] == old(state.pending[k])) "
                                                    "and forall(k, len(T[0].content), old(len(state.pending)), old(state.pending[k]) == ' '))", ["C02", "C19"]),
        ("nothing-flushed-means-all-spaces", "implies(result and not silent and len(T) == 1, forall(k, 0, old(len(state.pending)), old(state.pending[k]) == ' '))", ["C02"]),
        ("skips-exactly-the-leading-blanks", "implies(result, forall(k, P0 + 1, state.pos, state.src[k] == ' ' or state.src[k] == '\\t') "
                                             "and (state.pos == state.posMax or not (state.src[state.pos] == ' ' or state.src[state.pos] == '\\t')))", ["C01", "C17"]),
    ],
    loops={0: {"inv": [("ws", "0 <= ws and ws <= pmax - 1 and pmax == len(state.pending) - 1"), ("spaces", "forall(k, ws, len(state.pending), state.pending[k] == ' ')"),
                       ("pending-same", "state.pending == old(state.pending)")], "dec": "ws"},
           1: {"inv": [("pos", "P0 + 1 <= pos and pos <= maximum and maximum == state.posMax and maximum <= len(state.src)"),
                       ("spaces", "forall(k, P0 + 1, pos, state.src[k] == ' ' or state.src[k] == '\\t')")], "dec": "maximum - pos"}},
))

# ---------------------------------------------------------------------------------------------- delimiter scanning
U = "markdown_it.common.utils."
for name in ("isMdAsciiPunct", "isPunctChar", "isWhiteSpace"):
    add(Contract(U + name, params={"ch": "char", "code": "int"}, result="bool", assume_only=True, modifies=[],
                 notes="character classification (table / regex lookup): total and pure, value not modelled"))

SI = "markdown_it.rules_inline.state_inline.StateInline."
add(Contract(
    SI + "scanDelims", params={"self": "obj:StateInline", "start": "int", "canSplitWord": "bool"}, result="obj:Scanned", props=["C01", "C02"], modifies=[],
    requires=[("start-range", "0 <= start and start < self.posMax and self.posMax <= len(self.src)")],
    ensures=[
        ("run-length", "1 <= result.length and start + result.length <= self.posMax", ["C01"]),
        ("run-same-char", "forall(k, start, start + result.length, self.src[k] == self.src[start])", ["C02", "C08"]),
        ("run-maximal", "start + result.length == self.posMax or self.src[start + result.length] != self.src[start]", ["C02"]),
    ],
    loops={0: {"inv": [("pos-hi", "start <= pos and pos <= maximum and maximum == self.posMax"),
                       ("same", "forall(k, start, pos, self.src[k] == marker)"), ("marker", "marker == self.src[start]")], "dec": "maximum - pos"}},
))

# DI: the delimiter list of the current nesting level points into the token stream
def DI(D="state.delimiters", lo="0"):
    return (f"forall(k, {lo}, len({D}), 0 <= {D}[k].token and {D}[k].token < ntokens(state) and {D}[k].end == -1 and {D}[k].length >= 0 "
            f"and 0 <= {D}[k].marker and {D}[k].marker < 1114112)")

OLD_DELIMS_SAME = ("earlier-delimiters-untouched", "len(state.delimiters) >= old(len(state.delimiters)) and forall(k, 0, old(len(state.delimiters)), "
                   "state.delimiters[k].token == old(state.delimiters[k].token) and state.delimiters[k].marker == old(state.delimiters[k].marker) and "
                   "state.delimiters[k].end == old(state.delimiters[k].end) and state.delimiters[k].open == old(state.delimiters[k].open) and "
                   "state.delimiters[k].close == old(state.delimiters[k].close) and state.delimiters[k].length == old(state.delimiters[k].length))", ["C02"])
GENERIC_T = [g for g in GENERIC if g[0] != "fail-pure"] + [
    ("fail-pure", "implies(not result, state.pos == old(state.pos) and state.pending == old(state.pending) and ntokens(state) == old(ntokens(state)) "
                  "and len(state.delimiters) == old(len(state.delimiters)))", ["C01", "C02"])]

add(Contract(
    RI + "emphasis.tokenize", params={"state": "obj:StateInline", "silent": "bool"}, result="bool", props=["C01", "C02"],
    ghost={"defs": {"P0": "old(state.pos)", "ND0": "old(len(state.delimiters))"}},
    requires=POSR,
    ensures=GENERIC_T + [
        ("trigger", "iff(result, not silent and (state.src[P0] == '_' or state.src[P0] == '*'))", ["C01"]),
        ("one-delimiter-per-marker", "implies(result, len(state.delimiters) == ND0 + (state.pos - P0))", ["C02"]),
        ("consumes-one-run", "implies(result, forall(k, P0, state.pos, state.src[k] == state.src[P0]) and (state.pos == state.posMax or state.src[state.pos] != state.src[P0]))", ["C02"]),
        ("new-delimiters-point-at-new-tokens", "implies(result, forall(k, ND0, len(state.delimiters), old(ntokens(state)) <= state.delimiters[k].token and state.delimiters[k].token < ntokens(state) "
                                               "and state.delimiters[k].end == -1 and state.delimiters[k].length == state.pos - P0 and state.delimiters[k].marker == ord(state.src[P0])))", ["C02", "C01"]),
        ("new-delimiter-tokens-adjacent", "implies(result, forall(k, ND0 + 1, len(state.delimiters), state.delimiters[k].token == state.delimiters[k - 1].token + 1))", ["C02"]),
        OLD_DELIMS_SAME,
    ],
    loops={0: {"types": {"token": "obj:Token", "_": "int"},
               "inv": [("count", "0 <= _it0 and _it0 <= scanned.length and len(state.delimiters) == ND0 + _it0"),
                       ("scanned", "1 <= scanned.length and P0 + scanned.length <= state.posMax and forall(k, P0, P0 + scanned.length, state.src[k] == state.src[P0]) "
                                   "and (P0 + scanned.length == state.posMax or state.src[P0 + scanned.length] != state.src[P0])"),
                       ("marker", "marker == state.src[P0] and (marker == '_' or marker == '*')"),
                       ("pos", "state.pos == P0 and start == P0 and not silent"), ("level", "state.level == old(state.level) and state.posMax == old(state.posMax)"),
                       ("tokens-grow", "ntokens(state) >= old(ntokens(state)) + _it0"),
                       ("new-delims", "forall(k, ND0, len(state.delimiters), old(ntokens(state)) <= state.delimiters[k].token and state.delimiters[k].token < ntokens(state) "
                                      "and state.delimiters[k].end == -1 and state.delimiters[k].length == scanned.length and state.delimiters[k].marker == ord(state.src[P0]))"),
                       ("last-is-last-token", "implies(_it0 > 0, state.delimiters[len(state.delimiters) - 1].token == ntokens(state) - 1)"),
                       ("adjacent", "forall(k, ND0 + 1, len(state.delimiters), state.delimiters[k].token == state.delimiters[k - 1].token + 1)"),
                       ("pending-empty-after-first", "implies(_it0 > 0, state.pending == '')"),
                       OLD_DELIMS_SAME[:2]],
               "dec": "scanned.length - _it0"}},
))

add(Contract(
    RI + "strikethrough.tokenize", params={"state": "obj:StateInline", "silent": "bool"}, result="bool", props=["C01", "C02"],
    ghost={"defs": {"P0": "old(state.pos)", "ND0": "old(len(state.delimiters))", "RUN": "(state.pos - P0)"}},
    requires=POSR,
    ensures=GENERIC_T + [
        ("trigger", "implies(result, not silent and state.src[P0] == '~' and state.pos - P0 >= 2)", ["C01"]),
        ("one-delimiter-per-pair", "implies(result, len(state.delimiters) == ND0 + RUN // 2)", ["C02"]),
        ("consumes-one-run", "implies(result, forall(k, P0, state.pos, state.src[k] == '~') and (state.pos == state.posMax or state.src[state.pos] != '~'))", ["C02"]),
        ("new-delimiters-point-at-new-tokens", "implies(result, forall(k, ND0, len(state.delimiters), old(ntokens(state)) <= state.delimiters[k].token and state.delimiters[k].token < ntokens(state) "
                                               "and state.delimiters[k].end == -1 and state.delimiters[k].length == 0 and state.delimiters[k].marker == 126))", ["C02", "C01"]),
        ("new-delimiter-tokens-adjacent", "implies(result, forall(k, ND0 + 1, len(state.delimiters), state.delimiters[k].token == state.delimiters[k - 1].token + 1))", ["C02"]),
        OLD_DELIMS_SAME,
    ],
    loops={0: {"types": {"token": "obj:Token"},
               "inv": [("count", "0 <= i and i % 2 == 0 and length % 2 == 0 and i <= length and len(state.delimiters) == ND0 + i // 2"),
                       ("scanned", "2 <= scanned.length and P0 + scanned.length <= state.posMax and forall(k, P0, P0 + scanned.length, state.src[k] == state.src[P0]) "
                                   "and (P0 + scanned.length == state.posMax or state.src[P0 + scanned.length] != state.src[P0]) and (length == scanned.length or length == scanned.length - 1)"),
                       ("marker", "ch == state.src[P0] and ch == '~'"),
                       ("pos", "state.pos == P0 and start == P0 and not silent"), ("level", "state.level == old(state.level) and state.posMax == old(state.posMax)"),
                       ("tokens-grow", "ntokens(state) >= old(ntokens(state)) + i // 2"),
                       ("new-delims", "forall(k, ND0, len(state.delimiters), old(ntokens(state)) <= state.delimiters[k].token and state.delimiters[k].token < ntokens(state) "
                                      "and state.delimiters[k].end == -1 and state.delimiters[k].length == 0 and state.delimiters[k].marker == 126)"),
                       ("last-is-last-token", "implies(i > 0, state.delimiters[len(state.delimiters) - 1].token == ntokens(state) - 1)"),
                       ("adjacent", "forall(k, ND0 + 1, len(state.delimiters), state.delimiters[k].token == state.delimiters[k - 1].token + 1)"),
                       ("pending-empty-after-first", "implies(i > 0, state.pending == '')"),
                       OLD_DELIMS_SAME[:2]],
               "dec": "length - i"}},
))

# ---------------------------------------------------------------------------------------------- code spans (C08)
# A = first character after the opening backtick string, B = first character of the closing one; R = src[A:B] with
# line endings as spaces.  PAD: R starts and ends with a space and is not all spaces - then one space is removed from
# each side.  (posMax is not an upper bound for the closing string: str.index searches the whole source, as upstream
# does; the link/image rules rely on parseLinkLabel having skipped whole code spans.  So no `pos <= posMax` is claimed.)
SP = lambda i: f"(state.src[{i}] == ' ' or state.src[{i}] == '\\n')"  # noqa: E731
ALLSP = "forall(k, A, B, " + SP("k") + ")"
PAD = f"(B > A and {SP('A')} and {SP('B - 1')} and not {ALLSP})"
OFF = f"(1 if {PAD} else 0)"
add(Contract(
    RI + "backticks.backtick", params={"state": "obj:StateInline", "silent": "bool"}, result="bool", props=["C01", "C08", "C02"],
    ghost={"defs": {"P0": "old(state.pos)", "T": "new_tokens(state)", "L": "len(T[-1].markup)", "A": "(P0 + len(T[-1].markup))", "B": "(state.pos - len(T[-1].markup))"}},
    requires=POSR,
    ensures=[
        ("trigger", "iff(result, state.src[P0] == '`')", ["C01"]),
        ("advance", "implies(result, P0 < state.pos and state.pos <= len(state.src))", ["C01", "C20"]),
        ("fail-pure", "implies(not result, state.pos == P0 and state.pending == old(state.pending) and ntokens(state) == old(ntokens(state)))", ["C01"]),
        ("silent-pure", "implies(silent, state.pending == old(state.pending) and ntokens(state) == old(ntokens(state)))", ["C01"]),
        ("level", "state.level == old(state.level) and state.posMax == old(state.posMax)", ["C01", "C02"]),
        ("token-shape", "implies(ntokens(state) > old(ntokens(state)), T[-1].type == 'code_inline' and T[-1].tag == 'code' and T[-1].nesting == 0 and T[-1].level == old(state.level))", ["C02"]),
        ("markup-is-the-opening-backtick-string", "implies(ntokens(state) > old(ntokens(state)), L >= 1 and T[-1].markup == state.src[P0:P0 + L] and forall(k, P0, P0 + L, state.src[k] == '`') "
                                                  "and (P0 + L == state.posMax or state.src[P0 + L] != '`'))", ["C08"]),
        ("closing-string-same-length", "implies(ntokens(state) > old(ntokens(state)), A <= B and forall(k, B, state.pos, state.src[k] == '`'))", ["C08"]),
        ("content-length", f"implies(ntokens(state) > old(ntokens(state)), len(T[-1].content) == B - A - 2 * {OFF})", ["C08"]),
        ("content-is-the-text-between", f"implies(ntokens(state) > old(ntokens(state)), forall(j, 0, len(T[-1].content), T[-1].content[j] == (' ' if state.src[A + j + {OFF}] == '\\n' else state.src[A + j + {OFF}])))", ["C08"]),
        ("unmatched-string-stays-text", "implies(result and not silent and ntokens(state) == old(ntokens(state)), len(state.pending) == old(len(state.pending)) + (state.pos - P0) "
                                        "and forall(k, P0, state.pos, state.src[k] == '`'))", ["C08", "C02"]),
    ],
    loops={0: {"inv": [("run", "P0 + 1 <= pos and pos <= maximum and maximum == state.posMax and forall(k, P0, pos, state.src[k] == '`')")], "dec": "maximum - pos"},
           1: {"types": {"token": "none", "closerLength": "int"},
               "inv": [("opener", "start == P0 and P0 + 1 <= pos and pos <= maximum and maximum == state.posMax and maximum <= len(state.src) and forall(k, P0, pos, state.src[k] == '`') "
                                  "and (pos == maximum or state.src[pos] != '`') and openerLength == pos - P0 and marker == state.src[P0:pos]"),
                       ("scan", "pos <= matchEnd and matchEnd <= len(state.src)"),
                       ("untouched", "state.pos == P0 and state.pending == old(state.pending) and ntokens(state) == old(ntokens(state)) and state.level == old(state.level) and state.posMax == old(state.posMax)")],
               "dec": "len(state.src) - matchEnd"},
           2: {"inv": [("opener", "start == P0 and P0 + 1 <= pos and pos <= maximum and maximum == state.posMax and maximum <= len(state.src) and forall(k, P0, pos, state.src[k] == '`') "
                                  "and (pos == maximum or state.src[pos] != '`') and openerLength == pos - P0 and marker == state.src[P0:pos]"),
                       ("closer-run", "pos <= matchStart and matchStart < matchEnd and matchEnd <= len(state.src) and forall(k, matchStart, matchEnd, state.src[k] == '`')"),
                       ("untouched", "state.pos == P0 and state.pending == old(state.pending) and ntokens(state) == old(ntokens(state)) and state.level == old(state.level) and state.posMax == old(state.posMax)")],
               "dec": "len(state.src) - matchEnd"}},
))

# ---------------------------------------------------------------------------------------------- text (the fallback rule)
TERM = IL.TERM


add(Contract(RI + "text._terminator_char_regex", params={}, assume_only=True, ghost={"returns_charclass": "_TerminatorChars"},
             notes="compiled class of the terminator characters; that the pattern matches exactly the set literal is an ENUM obligation (complete enumeration of all code points)"))
add(Contract(
    RI + "text.text", params={"state": "obj:StateInline", "silent": "bool"}, result="bool", props=["C01", "C20", "C02"],
    ghost={"defs": {"P0": "old(state.pos)"}},
    # the regex search runs to the end of the source, not to posMax: the rule stays within posMax only because the callers
    # that lower posMax (link and image, to the label end) put it on a terminator character (']')
    requires=POSR + [IL.POSMAX_TERM],
    ensures=GENERIC + [
        ("stops-at-first-terminator", "implies(result, forall(k, P0, state.pos, not " + TERM("state.src[k]") + ") and (state.pos == state.posMax or " + TERM("state.src[state.pos]") + "))", ["C02", "C01"]),
        ("fails-only-on-a-terminator", "implies(not result, " + TERM("state.src[P0]") + ")", ["C01"]),
        ("text-goes-to-pending", "implies(result and not silent, len(state.pending) == old(len(state.pending)) + (state.pos - P0) and "
                                 "forall(k, 0, state.pos - P0, state.pending[old(len(state.pending)) + k] == state.src[P0 + k]))", ["C02", "C19"]),
    ],
))
FUNCS = [RI + "newline.newline", SI + "scanDelims", RI + "emphasis.tokenize", RI + "strikethrough.tokenize", RI + "backticks.backtick", RI + "text.text"]
