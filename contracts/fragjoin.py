"""Contract for rules_inline.fragments_join (C02): after the rule every inline token's level is its depth (the running
sum of nesting, a closer counted before its own level, an opener after) and no two adjacent tokens are text.

The depth law is stated locally - level[k] follows from level[k-1], nesting[k-1] and nesting[k] - which is equivalent
to the prefix-sum formulation and needs no recursive spec function.  The rule is entered with arbitrary levels (emphasis
and strikethrough post-processing retag text tokens as openers/closers without touching levels), so nothing about the
entry levels may be assumed; only that text tokens are neutral (nesting 0), a vocabulary fact checked by C10."""
from vf.core import Contract
from .common import SPECFUNS, make_adder

REGISTRY = {}
add = make_adder(REGISTRY)
Q = "markdown_it.rules_inline.fragments_join.fragments_join"
FUNCS = [Q]


def depth_law(T, hi):
    return (f"forall(k, 0, {hi}, {T}[k].level == (0 if k == 0 else ({T}[k - 1].level + (1 if {T}[k - 1].nesting > 0 else 0))) "
            f"- (1 if {T}[k].nesting < 0 else 0))")


def no_adjacent_text(T, hi):
    return f"forall(k, 0, ({hi}) - 1, not ({T}[k].type == 'text' and {T}[k + 1].type == 'text'))"


T = "state.tokens"
add(Contract(
    Q, params={"state": "obj:StateInlineJ"}, props=["C02"], modifies=["state.tokens"],
    requires=[("text-neutral", f"forall(i, 0, len({T}), implies({T}[i].type == 'text', {T}[i].nesting == 0))")],
    ensures=[
        ("levels-are-depths", depth_law(T, f"len({T})"), ["C02"]),
        ("no-adjacent-text", no_adjacent_text(T, f"len({T})"), ["C02"]),
        ("only-shrinks", f"len({T}) <= old(len({T}))", ["C02"]),
    ],
    loops={0: {"inv": [
        ("range", f"0 <= last and last <= curr and curr <= maximum and maximum == len({T}) and maximum == old(len({T}))"),
        ("tail-text-neutral", f"forall(i, curr, maximum, implies({T}[i].type == 'text', {T}[i].nesting == 0))"),
        ("levels-prefix", depth_law(T, "last")),
        ("level-link", f"level == (0 if last == 0 else ({T}[last - 1].level + (1 if {T}[last - 1].nesting > 0 else 0)))"),
        ("no-adjacent-text-prefix", no_adjacent_text(T, "last")),
        ("kept-text-is-final", f"implies(last > 0 and {T}[last - 1].type == 'text' and curr < maximum, {T}[curr].type != 'text')"),
    ], "dec": "maximum - curr"}},
    notes="record lists have value semantics: `tokens[last] = tokens[curr]` copies fields.  Sound here because after the copy neither "
          "alias is written again (writes go to indices >= curr only) - assumes the entry list holds pairwise distinct token objects.",
))
