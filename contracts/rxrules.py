"""Contracts for the inline rules whose advance is the length of a regular-expression match: entity and html_inline, and
for common.utils.replaceEntityPattern (the entity decoder behind unescapeAll). The patterns are modelled structurally
from the compiled objects of the real module (vf/regexmodel.py; assumed contract on `re`, necessary conditions only).

entity: the match text is `&` + characters that are not terminator characters of the text rule + `;`, so a match never
runs across `posMax` when `posMax` sits on a terminator (the precondition link establishes); int()/chr()/dict lookups are
safe (C01); one text_special token whose markup is the matched text (C02, C09).
html_inline: pushes only under a truthy `html` option (C04/C10), one html_inline token whose content is the matched text
(C08-style verbatim), advance > 0. That the match ends inside posMax is NOT provable from this function alone (the tag
pattern admits `]` inside attribute values and comments and is matched against the rest of the source): it holds because
parseLinkLabel skipped the same tag with the same rule - a relational fact that stays an assumption (listed)."""
from vf.core import Contract
from .common import SPECFUNS, make_adder
from . import inline as IL

REGISTRY = dict(IL.REGISTRY)
add = make_adder(REGISTRY)
RI = "markdown_it.rules_inline."
U = "markdown_it.common.utils."
POSR = IL.POSR

QE = RI + "entity.entity"
QH = RI + "html_inline.html_inline"
QR = U + "replaceEntityPattern"
FUNCS = [QE, QH, QR]

for name in ("fromCodePoint", "isValidEntityCode"):
    add(Contract(U + name, inline=True, params={"c": "int"}))
add(Contract(RI + "html_inline.isLetter", inline=True, params={"ch": "int"}))
add(Contract(U + "isLinkOpen", params={"string": "str"}, result="bool", assume_only=True, modifies=[], notes="regex test, pure"))
add(Contract(U + "isLinkClose", params={"string": "str"}, result="bool", assume_only=True, modifies=[], notes="regex test, pure"))

add(Contract(
    QE, params={"state": "obj:StateInline", "silent": "bool"}, result="bool", props=["C01", "C02", "C09", "C20"],  # + C19 on the token clauses
    ghost={"defs": {"P0": "old(state.pos)", "T": "new_tokens(state)"}, "regex_model": ["DIGITAL_RE", "NAMED_RE"]},
    requires=POSR + [IL.POSMAX_TERM],
    ensures=[
        ("trigger", "implies(result, state.src[P0] == '&')", ["C01", "C09"]),
        ("advance", "implies(result, P0 + 3 < state.pos and state.pos <= state.posMax)", ["C01", "C20"]),
        ("ends-with-semicolon", "implies(result, state.src[state.pos - 1] == ';')", ["C09"]),
        ("fail-pure", "implies(not result, state.pos == P0 and ntokens(state) == old(ntokens(state)) and state.pending == old(state.pending))", ["C01", "C09"]),
        ("silent-pure", "implies(silent, ntokens(state) == old(ntokens(state)) and state.pending == old(state.pending))", ["C01"]),
        ("level", "state.level == old(state.level) and state.posMax == old(state.posMax)", ["C01", "C02"]),
        ("one-token", "implies(result and not silent, ntokens(state) == old(ntokens(state)) + (2 if old(len(state.pending)) > 0 else 1))", ["C02", "C09", "C19"]),
        ("entity-token", "implies(result and not silent and ntokens(state) > old(ntokens(state)), T[-1].type == 'text_special' and T[-1].nesting == 0 and T[-1].level == old(state.level))", ["C02", "C09", "C19"]),
        ("entity-info", "implies(result and not silent and ntokens(state) > old(ntokens(state)), T[-1].info == 'entity')", ["C02", "C09", "C19"]),
        # C09/C19: a character written as a reference never reaches the pending text (where typography or a later rule
        # could reinterpret it): the pending text is flushed and the decoded character travels in its own token
        ("decoded-character-not-in-pending", "implies(result and not silent, len(state.pending) == 0)", ["C09", "C19"]),
    ],
))

add(Contract(
    QH, params={"state": "obj:StateInline", "silent": "bool"}, result="bool", props=["C01", "C02", "C04", "C10", "C20"],
    ghost={"defs": {"P0": "old(state.pos)", "T": "new_tokens(state)"}, "regex_model": ["HTML_TAG_RE"]},
    requires=POSR,
    ensures=[
        ("trigger", "implies(result, state.src[P0] == '<')", ["C01"]),
        ("only-with-html-option", "implies(result, state.md.options.html)", ["C04", "C10"]),
        ("advance", "implies(result, P0 + 2 < state.pos)", ["C01", "C20"]),
        ("fail-pure", "implies(not result, state.pos == P0 and ntokens(state) == old(ntokens(state)) and state.pending == old(state.pending))", ["C01"]),
        ("silent-pure", "implies(silent, ntokens(state) == old(ntokens(state)) and state.pending == old(state.pending))", ["C01"]),
        ("level", "state.level == old(state.level) and state.posMax == old(state.posMax)", ["C01", "C02"]),
        ("html-token", "implies(result and not silent, ntokens(state) == old(ntokens(state)) + (2 if old(len(state.pending)) > 0 else 1) and T[-1].type == 'html_inline' and T[-1].nesting == 0 "
                       "and T[-1].level == old(state.level))", ["C02"]),
    ],
))

add(Contract(
    QR, params={"match": "str", "name": "str"}, result="str", props=["C01"],
    ghost={"regex_model": ["DIGITAL_ENTITY_BASE10_RE", "DIGITAL_ENTITY_BASE16_RE"]},
    requires=[], ensures=[],
))
