"""Contracts for rules_inline.balance_pairs.processDelimiters (C01, C02).

The delimiter list of one nesting level is scanned left to right; every delimiter that can close looks backwards for an
opener, skipping over ranges already matched with the help of the `jumps` list.  Under contract:

  safety       every index into delimiters / jumps / openersBottom rows is in range *and non-negative* (no wrap-around),
               every dict lookup hits, both loops terminate;
  J1           0 <= jumps[k] <= k                      (a jump never leaves the list)
  M1           end[k] == -1  or  k < end[k] < closerIdx (openers point forward at an already processed closer)
  M2           marker[end[k]] == marker[k]              (pairs have the same marker character)
  frame        marker / token / length of every delimiter are unchanged, only end / open / close are written
  NC           matched pairs never cross:  i < j < end[i]  implies  end[j] < end[i]      (see below)
"""
from vf.core import Contract
from .common import SPECFUNS, make_adder

REGISTRY = {}
add = make_adder(REGISTRY)
Q = "markdown_it.rules_inline.balance_pairs.processDelimiters"
FUNCS = [Q]
D = "delimiters"
N = f"len({D})"

# A position is "good" when it is neither a matched opener nor strictly inside a matched pair (a matched closer is fine):
# these are the positions the backward scan may visit, and the `jumps` list exists to keep the scan on them.
#   S2  the scan position is good:                        no pair (i, end[i]) has  i <= openerIdx < end[i]
#   G2  a jump taken at or after a pair's closer never lands on that pair's opener or inside it:
#                                                         end[i] <= p  implies  not (i <= p - jumps[p] - 1 < end[i])
# Both are plain universally quantified facts (no alternation), which keeps the obligations within E-matching's reach.
ENTRY = [("ends-unset", f"forall(k, 0, {N}, {D}[k].end == -1)"),
         ("tokens-nonneg", f"forall(k, 0, {N}, {D}[k].token >= 0)"),
         ("markers-are-code-points", f"forall(k, 0, {N}, 0 <= {D}[k].marker and {D}[k].marker < 1114112)")]
FRAME = ("frame", f"{N} == old({N}) and forall(k, 0, {N}, {D}[k].marker == old({D}[k].marker) and {D}[k].token == old({D}[k].token) and {D}[k].length == old({D}[k].length))")
M1 = lambda hi: ("M1-ends-point-forward", f"forall(k, 0, {N}, {D}[k].end == -1 or (k < {D}[k].end and {D}[k].end < {hi}))")  # noqa: E731
M2 = ("M2-same-marker", f"forall(k, 0, {N}, implies({D}[k].end >= 0, {D}[{D}[k].end].marker == {D}[k].marker))")
J1 = ("J1-jumps-in-range", "forall(k, 0, len(jumps), 0 <= jumps[k] and jumps[k] <= k)")
NC = ("NC-pairs-never-cross", f"forall(i, 0, {N}, forall(j, 0, {N}, implies({D}[i].end >= 0 and {D}[j].end >= 0 and i < j and j < {D}[i].end, {D}[j].end < {D}[i].end)))")
CL = ("CL-matched-closers-cannot-open", f"forall(i, 0, {N}, implies({D}[i].end >= 0, not {D}[{D}[i].end].open))")
CL2 = ("CL2-matched-closers-are-not-openers", f"forall(i, 0, {N}, implies({D}[i].end >= 0, {D}[{D}[i].end].end == -1))")
INJ = ("INJ-one-opener-per-closer", f"forall(i, 0, {N}, forall(j, 0, {N}, implies({D}[i].end >= 0 and {D}[j].end >= 0 and i != j, {D}[i].end != {D}[j].end)))")
G = ("G2-jumps-skip-whole-pairs", f"forall(i, 0, {N}, forall(p, 0, len(jumps), implies({D}[i].end >= 0 and {D}[i].end <= p, not (i <= p - jumps[p] - 1 and p - jumps[p] - 1 < {D}[i].end))))")
H = ("H-header-after-all-pairs", f"lastTokenIdx == -2 or forall(i, 0, {N}, implies({D}[i].end >= 0, {D}[i].end <= headerIdx))")
OB = ("OB-bounds-at-least-minus-one", "forall(m, 0, 1114112, implies(m in openersBottom, " + " and ".join(f"openersBottom[m][{j}] >= -1" for j in range(6)) + "))")

add(Contract(
    Q, params={"state": "obj:StateInlineJ", "delimiters": "reclist:Delimiter"}, props=["C01", "C02"], modifies=["delimiters"],
    ghost={"nowrap": True, "local_types": {"openersBottom": "introws:6"}},
    requires=ENTRY,
    ensures=[(FRAME[0], FRAME[1], ["C02"]), (M1(N)[0], M1(N)[1], ["C02", "C01"]), (M2[0], M2[1], ["C02"]), (NC[0], NC[1], ["C02"]), (CL[0], CL[1], ["C02"]), (CL2[0], CL2[1], ["C02"]), (INJ[0], INJ[1], ["C02"])],
    loops={
        0: {"types": {"openersBottom": "introws:6", "minOpenerIdx": "int", "openerIdx": "int", "newMinOpenerIdx": "int", "isOddMatch": "bool", "lastJump": "int"},
            "inv": [("range", f"0 <= closerIdx and closerIdx <= maximum and maximum == {N} and maximum >= 1 and len(jumps) == closerIdx and 0 <= headerIdx and headerIdx < maximum and headerIdx <= closerIdx"),
                    J1, OB, FRAME, M1("closerIdx"), M2, ENTRY[1], ENTRY[2], NC, CL, CL2, INJ, G, H,
                    ("lastTokenIdx", "lastTokenIdx >= -2")],
            "dec": "maximum - closerIdx"},
        1: {"types": {"isOddMatch": "bool", "lastJump": "int"},
            "inv": [("range", f"0 <= closerIdx and closerIdx < maximum and maximum == {N} and len(jumps) == closerIdx + 1 and 0 <= headerIdx and headerIdx <= closerIdx"),
                    ("opener-range", "-1 <= openerIdx and openerIdx < closerIdx and minOpenerIdx >= -1 and newMinOpenerIdx >= -1 and newMinOpenerIdx < closerIdx"),
                    J1, OB, FRAME, M1("closerIdx"), M2, ENTRY[1], ENTRY[2], NC, CL, CL2, INJ, G,
                    ("S2-scan-on-good-position", f"forall(i, 0, {N}, implies({D}[i].end >= 0, not (i <= openerIdx and openerIdx < {D}[i].end)))"), ("H-inner", f"forall(i, 0, {N}, implies({D}[i].end >= 0, {D}[i].end <= headerIdx))"), ("own-jump-unset", "jumps[closerIdx] == 0"),
                    ("closer-key", "closer.marker in openersBottom"), ("lastTokenIdx", "lastTokenIdx >= -2")],
            "dec": "openerIdx + 2"},
    },
))
