"""Contracts for helpers/parse_link_title.parseLinkTitle (C09, C16)."""
from vf.core import Contract
from .common import SPECFUNS, make_adder

REGISTRY = {}
add = make_adder(REGISTRY)
U = "markdown_it.common.utils."
for name in ("charCodeAt",):
    add(Contract(U + name, inline=True, params={"src": "str", "pos": "int"}))
add(Contract(U + "unescapeAll", params={"string": "str"}, result="str", assume_only=True, notes="one regex pass over escapes and entities (assumed regex semantics)"))

add(Contract("markdown_it.helpers.parse_link_title._Result.__init__", inline=True, params={"self": "obj:_Result"}))
Q = "markdown_it.helpers.parse_link_title.parseLinkTitle"
FUNCS = [Q]
CLOSER = "(string[result.pos - 1])"
add(Contract(
    Q, params={"string": "str", "pos": "int", "maximum": "int"}, props=["C09", "C16", "C01"],
    requires=[("range", "0 <= pos and maximum <= len(string)")],
    ensures=[
        ("fail-shape", "implies(not result.ok, result.pos == 0 and result.lines == 0)", ["C16"]),
        ("ok-range", "implies(result.ok, pos + 2 <= result.pos and result.pos <= maximum)", ["C09", "C16", "C01"]),
        ("opener", "implies(result.ok, string[pos] == '\"' or string[pos] == \"'\" or string[pos] == '(')", ["C09"]),
        ("closer-matches", "implies(result.ok, (string[pos] == '(' and string[result.pos - 1] == ')') or (string[pos] != '(' and string[result.pos - 1] == string[pos]))", ["C09"]),
        ("lines-counted", "implies(result.ok, result.lines == CountCh(string, pos + 1, result.pos - 1, '\\n'))", ["C16", "C03"]),
        ("closer-unescaped", "implies(result.ok, Escaped(string, pos + 1, result.pos - 1) == 0)", ["C09"]),
    ],
    loops={0: {"types": {"code": "optint", "title": "str"},
               "inv": [("pos-range", "start + 1 <= pos and pos <= max(maximum, start + 1) and start == old(pos) and start >= 0 and maximum <= len(string)"),
                       ("marker", "(string[start] == '\"' and marker == 34) or (string[start] == \"'\" and marker == 39) or (string[start] == '(' and marker == 41)"),
                       ("lines", "lines == CountCh(string, start + 1, pos, '\\n')"),
                       ("not-escaped-here", "pos >= maximum or Escaped(string, start + 1, pos) == 0"),
                       ("result-fresh", "not result.ok and result.pos == 0 and result.lines == 0")],
               "dec": "maximum - pos"}},
))
