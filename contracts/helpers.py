"""Contracts for helpers/parse_link_title.parseLinkTitle (C09, C16)."""
from vf.core import Contract
from .common import SPECFUNS, make_adder

REGISTRY = {}
add = make_adder(REGISTRY)
U = "markdown_it.common.utils."
for name in ("charCodeAt",):
    add(Contract(U + name, inline=True, params={"src": "str", "pos": "int"}))
add(Contract(U + "unescapeAll", params={"string": "str"}, result="str", assume_only=True, notes="one regex pass over escapes and entities (assumed regex semantics)"))

add(Contract("markdown_it.helpers.parse_link_title._Result.__init__", inline=True, params={"self": "obj:_Result"}))
Q = "markdown_it.helpers.parse_link_title.parseLinkTitle"
FUNCS = [Q]
CLOSER = "(string[result.pos - 1])"
add(Contract(
    Q, params={"string": "str", "pos": "int", "maximum": "int"}, result="obj:_Result", modifies=[], props=["C09", "C16", "C01"],
    requires=[("range", "0 <= pos and maximum <= len(string)")],
    ensures=[
        ("fail-shape", "implies(not result.ok, result.pos == 0 and result.lines == 0)", ["C16"]),
        ("lines-nonneg", "result.lines >= 0", ["C16", "C03"]),
        ("ok-range", "implies(result.ok, pos + 2 <= result.pos and result.pos <= maximum)", ["C09", "C16", "C01"]),
        ("opener", "implies(result.ok, string[pos] == '\"' or string[pos] == \"'\" or string[pos] == '(')", ["C09"]),
        ("closer-matches", "implies(result.ok, (string[pos] == '(' and string[result.pos - 1] == ')') or (string[pos] != '(' and string[result.pos - 1] == string[pos]))", ["C09"]),
        ("lines-counted", "implies(result.ok, result.lines == CountCh(string, pos + 1, result.pos - 1, '\\n'))", ["C16", "C03"]),
        ("closer-unescaped", "implies(result.ok, Escaped(string, pos + 1, result.pos - 1) == 0)", ["C09"]),
        # the same count, from the start of the string: what a caller that keeps a running line count adds up (no lemma needed there)
        ("lines-counted-from-string-start", "implies(result.ok, result.lines == CountCh(string, 0, result.pos, '\\n') - CountCh(string, 0, pos, '\\n'))", ["C16", "C03"]),
    ],
    loops={0: {"types": {"code": "optint", "title": "str"},
               "inv": [("pos-range", "start + 1 <= pos and pos <= max(maximum, start + 1) and start == old(pos) and start >= 0 and maximum <= len(string)"),
                       ("marker", "(string[start] == '\"' and marker == 34) or (string[start] == \"'\" and marker == 39) or (string[start] == '(' and marker == 41)"),
                       ("lines", "lines == CountCh(string, start + 1, pos, '\\n') and lines >= 0"),
                       ("lines-abs", "lines == CountCh(string, 0, pos, '\\n') - CountCh(string, 0, start, '\\n')"),
                       ("not-escaped-here", "pos >= maximum or Escaped(string, start + 1, pos) == 0"),
                       ("result-fresh", "not result.ok and result.pos == 0 and result.lines == 0")],
               "dec": "maximum - pos"}},
))

# ---------------------------------------------------------------------------------------------- parseLinkDestination
add(Contract("markdown_it.helpers.parse_link_destination._Result.__init__", inline=True, params={"self": "obj:_Result"}))
QD = "markdown_it.helpers.parse_link_destination.parseLinkDestination"
ANGLE = "(pos < len(string) and string[pos] == '<')"
add(Contract(
    QD, params={"string": "str", "pos": "int", "maximum": "int"}, result="obj:_Result", modifies=[], props=["C01", "C05", "C16", "C03"],
    requires=[("range", "0 <= pos and maximum <= len(string)")],
    ensures=[
        ("fail-shape", "implies(not result.ok, result.pos == 0 and result.lines == 0)", ["C16"]),
        ("ok-range", "implies(result.ok, pos < result.pos and result.pos <= maximum)", ["C01", "C16"]),
        # the line accounting of the callers (reference maps, C16/C03) rests on these two: the function reports 0 lines,
        # so nothing it consumes may be a line ending
        ("reports-no-lines", "result.lines == 0", ["C03", "C16"]),
        ("consumes-no-line-ending", "implies(result.ok, forall(k, pos, result.pos, string[k] != '\\n'))", ["C03", "C16"]),
        ("line-count-unchanged-from-string-start", "implies(result.ok, CountCh(string, 0, result.pos, '\\n') == CountCh(string, 0, pos, '\\n'))", ["C03", "C16"]),
        ("angle-form", f"implies(result.ok and {ANGLE}, string[result.pos - 1] == '>' and "
                       "forall(k, pos + 1, result.pos - 1, (string[k] != '<' and string[k] != '>') or string[k - 1] == '\\\\'))", ["C05", "C16"]),
        ("plain-form-has-no-blank", f"implies(result.ok and not {ANGLE}, forall(k, pos, result.pos, string[k] != ' '))", ["C05", "C16"]),
        ("plain-form-control-characters-only-escaped", f"implies(result.ok and not {ANGLE}, forall(k, pos, result.pos, (string[k] >= ' ' and string[k] != '\\x7f') or (k > pos and string[k - 1] == '\\\\')))", ["C05"]),
    ],
    loops={0: {"types": {"code": "optint"},
               "inv": [("pos", "start + 1 <= pos and pos <= max(maximum, start + 1) and start == old(pos) and start >= 0 and maximum <= len(string) and start < len(string) and string[start] == '<'"),
                       ("clean", "forall(k, start + 1, pos, string[k] != '\\n' and ((string[k] != '<' and string[k] != '>') or string[k - 1] == '\\\\'))"),
                       ("count-abs", "CountCh(string, 0, pos, '\\n') == CountCh(string, 0, start, '\\n')"),
                       ("fresh", "not result.ok and result.pos == 0 and result.lines == 0"), ("lines", "lines == 0")],
               "dec": "maximum - pos"},
           1: {"types": {"code": "optint"},
               "inv": [("pos", "start <= pos and pos <= max(maximum, start) and start == old(pos) and start >= 0 and maximum <= len(string) and not (start < len(string) and string[start] == '<')"),
                       ("level", "0 <= level and level <= 32"),
                       ("count-abs", "CountCh(string, 0, pos, '\\n') == CountCh(string, 0, start, '\\n')"),
                       ("clean", "forall(k, start, pos, string[k] != ' ' and string[k] != '\\n' and ((string[k] >= ' ' and string[k] != '\\x7f') or (k > start and string[k - 1] == '\\\\')))"),
                       ("fresh", "not result.ok and result.pos == 0 and result.lines == 0"), ("lines", "lines == 0")],
               "dec": "maximum - pos"}},
))
FUNCS = [Q, QD]

# ---------------------------------------------------------------------------------------------- parseLinkLabel
from . import inline as IL  # noqa: E402

for _q in ("markdown_it.parser_inline.ParserInline.skipToken",):
    REGISTRY[_q] = IL.REGISTRY[_q]
QL = "markdown_it.helpers.parse_link_label.parseLinkLabel"
CACHE_INV = "forall(p, 0, len(state.src) + 1, implies(p in state.cache, state.cache[p] > p))"
add(Contract(
    QL, params={"state": "obj:StateInline", "start": "int", "disableNested": "bool"}, result="int", props=["C01", "C20", "C02"],
    modifies=["state.pos", "state.cache", "state.backticks", "state.backticksScanned", "state.delimiters", "state.linkLevel", "state.pendingLevel"],
    requires=[("start", "0 <= start and start <= state.posMax and state.posMax <= len(state.src)"), ("nest", "state.md.options.maxNesting >= 1"), ("cache-inv", CACHE_INV), IL.POSMAX_TERM],
    ensures=[
        ("pos-restored", "state.pos == old(state.pos)", ["C01", "C02"]),
        ("label-end", "result == -1 or (start < result and result < state.posMax and state.src[result] == ']')", ["C01", "C02"]),
        ("cache-inv", CACHE_INV, ["C20"]),
        IL.CACHE_MONO + (["C20"],),
        ("level", "state.level == old(state.level) and state.posMax == old(state.posMax)", ["C02"]),
    ],
    loops={0: {"types": {"marker": "char", "prevPos": "int"},
               "inv": [("pos", "start + 1 <= state.pos and state.posMax <= len(state.src) and state.posMax == old(state.posMax)"), ("level", "level >= 1 and state.level == old(state.level)"),
                       ("not-found", "not found and labelEnd == -1 and oldPos == old(state.pos)"), ("cache-inv", CACHE_INV), IL.CACHE_MONO],
               "dec": "state.posMax - state.pos"}},
))
FUNCS = [Q, QD, QL]
