"""Contracts for the delimiter post-processing rules (C01, C02): emphasis._postProcess, strikethrough._postProcess.

The token stream is viewed as a record list (type, nesting, tag, markup, content); `delimiters` is the list
processDelimiters has matched.  Entry conditions are the postconditions of the tokenizers and of processDelimiters:
token indices in range and strictly increasing, ends pointing forward, one opener per closer, closers not openers."""
from vf.core import Contract
from .common import SPECFUNS, make_adder

REGISTRY = {}
add = make_adder(REGISTRY)
D = "delimiters"
N = f"len({D})"
T = "state.tokens"

MATCHED = [
    ("tokens-in-range", f"forall(k, 0, {N}, 0 <= {D}[k].token and {D}[k].token < len({T}))"),
    ("tokens-increase", f"forall(k, 0, {N}, forall(l, 0, {N}, implies(k < l, {D}[k].token < {D}[l].token)))"),
    ("M1-ends-point-forward", f"forall(k, 0, {N}, {D}[k].end == -1 or (k < {D}[k].end and {D}[k].end < {N}))"),
    ("INJ-one-opener-per-closer", f"forall(i, 0, {N}, forall(j, 0, {N}, implies({D}[i].end >= 0 and {D}[j].end >= 0 and i != j, {D}[i].end != {D}[j].end)))"),
    ("CL2-matched-closers-are-not-openers", f"forall(i, 0, {N}, implies({D}[i].end >= 0, {D}[{D}[i].end].end == -1))"),
    ("M2-same-marker", f"forall(k, 0, {N}, implies({D}[k].end >= 0, {D}[{D}[k].end].marker == {D}[k].marker))"),
]
DELIMS_SAME = ("delimiters-untouched", f"{N} == old({N}) and forall(k, 0, {N}, {D}[k].end == old({D}[k].end) and {D}[k].token == old({D}[k].token) and {D}[k].marker == old({D}[k].marker))")


def em(k):
    return f"(({D}[{k}].marker == 95 or {D}[{k}].marker == 42) and {D}[{k}].end >= 0)"


def untouched(t):
    return (f"({T}[{t}].type == old({T}[{t}].type) and {T}[{t}].nesting == old({T}[{t}].nesting) and {T}[{t}].tag == old({T}[{t}].tag) "
            f"and {T}[{t}].markup == old({T}[{t}].markup) and {T}[{t}].content == old({T}[{t}].content) and {T}[{t}].level == old({T}[{t}].level))")


def pair_done(k):
    a, b = f"{T}[{D}[{k}].token]", f"{T}[{D}[{D}[{k}].end].token]"
    return (f"(({a}.nesting == 1 and {b}.nesting == -1 and (({a}.type == 'em_open' and {b}.type == 'em_close' and {a}.tag == 'em' and {b}.tag == 'em') "
            f"or ({a}.type == 'strong_open' and {b}.type == 'strong_close' and {a}.tag == 'strong' and {b}.tag == 'strong')) and {a}.markup == {b}.markup and {a}.content == '' and {b}.content == '') "
            f"or ({a}.nesting == old({a}.nesting) and {b}.nesting == old({b}.nesting) and {a}.type == old({a}.type) and {b}.type == old({b}.type) and {a}.content == '' and {b}.content == ''))")


QE = "markdown_it.rules_inline.emphasis._postProcess"
FRAME_E = lambda lo: (f"forall(t, 0, len({T}), implies(forall(k, {lo}, {N}, implies({em('k')}, {D}[k].token != t and {D}[{D}[k].end].token != t)), {untouched('t')}))")  # noqa: E731
add(Contract(
    QE, params={"state": "obj:StateInlineJ", "delimiters": "reclist:Delimiter"}, props=["C01", "C02"], modifies=["state.tokens"],
    ghost={"nowrap": True},
    requires=MATCHED,
    ensures=[
        (DELIMS_SAME[0], DELIMS_SAME[1], ["C02"]),
        ("stream-length-kept", f"len({T}) == old(len({T}))", ["C02"]),
        ("every-emphasis-pair-retagged-consistently", f"forall(k, 0, {N}, implies({em('k')}, {pair_done('k')}))", ["C02"]),
        ("only-matched-emphasis-tokens-change", FRAME_E("0"), ["C02", "C19"]),
    ],
    loops={0: {"types": {"isStrong": "bool", "ch": "char"},
               "inv": [("range", f"-2 <= i and i < {N}"), DELIMS_SAME, ("stream-length-kept", f"len({T}) == old(len({T}))"),
                       ("skipped-outer-is-a-pair", f"implies(i == -2, False)"),
                       ("done-above", f"forall(k, i + 1, {N}, implies({em('k')}, {pair_done('k')}))"),
                       ("frame-above", FRAME_E("i + 1"))],
               "dec": "i + 2"}},
))
FUNCS = [QE]

# ---------------------------------------------------------------------------------------------- strikethrough
QS = "markdown_it.rules_inline.strikethrough._postProcess"


def st(k):
    return f"({D}[{k}].marker == 126 and {D}[{k}].end >= 0)"


def same_record(t):  # level is recomputed by fragments_join afterwards and is not compared
    return (f"({T}[{t}].type == old({T}[{t}].type) and {T}[{t}].nesting == old({T}[{t}].nesting) and {T}[{t}].tag == old({T}[{t}].tag) "
            f"and {T}[{t}].markup == old({T}[{t}].markup) and {T}[{t}].content == old({T}[{t}].content))")


TEXT_NEUTRAL = ("text-neutral", f"forall(t, 0, len({T}), implies({T}[t].type == 'text', {T}[t].nesting == 0))")
DELIM_TOKENS_TEXT = ("delimiter-tokens-are-text", f"forall(k, 0, {N}, {T}[{D}[k].token].type == 'text')")
STRUCT_STAYS = ("structure-present-at-entry-stays-in-place",
                f"forall(t, 0, len({T}), implies(old({T}[t].nesting) != 0 and old({T}[t].type) != 's_close', {same_record('t')}))")
ALLOWED = "({0}.type == 'text' or {0}.type == 's_open' or {0}.type == 's_close')"
CHANGED_KINDS = ("changed-positions-hold-text-or-strike-tags", f"forall(t, 0, len({T}), {same_record('t')} or " + ALLOWED.format(f"{T}[t]") + ")")
LM_RANGE = ("lone-markers-in-range", f"forall(m, 0, len(loneMarkers), 0 <= loneMarkers[m] and loneMarkers[m] < len({T}))")
LM_NOT_STRUCT = ("lone-markers-were-not-structure", f"forall(m, 0, len(loneMarkers), old({T}[loneMarkers[m]].nesting) == 0 or old({T}[loneMarkers[m]].type) == 's_close')")
LM_KINDS = ("lone-markers-hold-text-or-strike-tags", f"forall(m, 0, len(loneMarkers), " + ALLOWED.format(f"{T}[loneMarkers[m]]") + ")")
LEN_KEPT = ("stream-length-kept", f"len({T}) == old(len({T}))")
COMMON = [DELIMS_SAME, LEN_KEPT, STRUCT_STAYS, CHANGED_KINDS]

add(Contract(
    QS, params={"state": "obj:StateInlineJ", "delimiters": "reclist:Delimiter"}, props=["C01", "C02", "C04"], modifies=["state.tokens"],
    ghost={"nowrap": True, "local_types": {"loneMarkers": "intlist"}},
    requires=MATCHED + [TEXT_NEUTRAL, DELIM_TOKENS_TEXT],
    ensures=[(l, e, ["C02", "C04"]) for l, e in COMMON],
    loops={
        0: {"types": {"token": "none"},
            "inv": [("range", f"0 <= i and i <= maximum and maximum == {N}")] + COMMON + [LM_RANGE, LM_NOT_STRUCT, LM_KINDS],
            "dec": "maximum - i"},
        1: {"types": {"token": "none", "i": "int", "j": "int"},
            "inv": COMMON + [LM_RANGE, LM_NOT_STRUCT, LM_KINDS], "dec": "len(loneMarkers)"},
        2: {"inv": COMMON + [LM_RANGE, LM_NOT_STRUCT, LM_KINDS,
                             ("window", f"0 <= i and i < j and j <= len({T}) and forall(t, i + 1, j, {T}[t].type == 's_close')"),
                             ("popped-was-not-structure", f"old({T}[i].nesting) == 0 or old({T}[i].type) == 's_close'"),
                             ("popped-kind", ALLOWED.format(f"{T}[i]"))],
            "dec": f"len({T}) - j"},
    },
))
FUNCS = [QE, QS]
