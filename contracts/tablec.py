"""Contract for rules_block.table (C01 safety/termination, C02 balanced pushes, C03 map/progress, C07 purity/restore)."""
from vf.core import Contract
from .common import SPECFUNS, make_adder, wf, RULE_RANGE
from . import block as BL

REGISTRY = dict(BL.REGISTRY)
add = make_adder(REGISTRY)
T = "markdown_it.rules_block.table."
Q = T + "table"
QE = T + "escapedSplit"
FUNCS = [Q]
U = "markdown_it.common.utils."
add(Contract(U + "charStrAt", inline=True, params={"src": "str", "pos": "int"}))
add(Contract(T + "getLine", inline=True, params={"state": "obj:StateBlock", "line": "int"}))
add(Contract(T + "escapedSplit", params={"string": "str"}, result="strseq", assume_only=True, modifies=[], ensures=[("at-least-one-cell", "len(result) >= 1")],
             notes="splits at unescaped pipes; pure; verified separately for safety/termination and len >= 1"))

QUIET = ("untouched", "state.line == old(state.line) and state.level == old(state.level) and ntokens(state) == old(ntokens(state))")
add(Contract(
    Q, params={"state": "obj:StateBlock", "startLine": "int", "endLine": "int", "silent": "bool"}, result="bool", props=["C01", "C02", "C03", "C07"],
    ghost={"defs": {"T": "new_tokens(state)"}},
    requires=wf() + RULE_RANGE,
    ensures=[
        ("silent-pure", "implies(silent, ntokens(state) == old(ntokens(state)) and state.line == old(state.line) and state.parentType == old(state.parentType))", ["C07", "C01"]),
        ("fail-pure", "implies(not result, ntokens(state) == old(ntokens(state)) and state.line == old(state.line) and state.parentType == old(state.parentType))", ["C07", "C01"]),
        ("level", "state.level == old(state.level)", ["C02", "C07"]),
        ("progress", "implies(result and not silent, startLine + 2 <= state.line and state.line <= endLine)", ["C03", "C01"]),
        ("parentType-restored", "implies(result and not silent, state.parentType == old(state.parentType))", ["C07"]),
        ("open-close", "implies(result and not silent, T[0].type == 'table_open' and T[0].nesting == 1 and T[0].level == old(state.level) and T[-1].type == 'table_close' and T[-1].nesting == -1 and T[-1].level == old(state.level))", ["C02"]),
    ],
    loops={
        0: {"types": {"ch": "char"}, "inv": [("pos", "state.bMarks[nextLine] + state.tShift[nextLine] + 2 <= pos and nextLine == startLine + 1 and startLine + 2 <= endLine"), QUIET, ("pt", "state.parentType == old(state.parentType)")],
            "dec": "state.eMarks[nextLine] - pos"},
        1: {"types": {"t": "str", "aligns": "atomlist"}, "inv": [("it", "_it1 <= len(columns) and len(aligns) <= _it1"), QUIET, ("pt", "state.parentType == old(state.parentType)"), ("lines", "nextLine == startLine + 1 and startLine + 2 <= endLine")],
            "dec": "len(columns) - _it1"},
        2: {"types": {"token": "obj:Token"},
            "inv": [("it", "_it2 <= len(columns)"), ("cols", "columnCount == len(columns) and columnCount == len(aligns) and columnCount >= 1"), ("level", "state.level == old(state.level) + 3"),
                    ("ctx", "not silent and state.line == old(state.line) and state.parentType == 'table' and oldParentType == old(state.parentType) and startLine + 2 <= endLine"),
                    ("first-token", "ntokens(state) >= old(ntokens(state)) + 3 and T[0].type == 'table_open' and T[0].nesting == 1 and T[0].level == old(state.level)")],
            "dec": "len(columns) - _it2"},
        3: {"modular": True, "types": {"token": "obj:Token", "tbodyLines": "optlist", "terminate": "bool", "lineText": "str", "columns": "strseq"},
            "inv": [("next", "startLine + 2 <= nextLine and nextLine <= endLine"), ("cols", "columnCount == len(aligns) and columnCount >= 1"), ("tableLines", "len(tableLines) == 2"),
                    ("level", "state.level == old(state.level) + (1 if nextLine == startLine + 2 else 2)"), ("tbody", "iff(not tbodyLines, nextLine == startLine + 2)"),
                    ("ctx", "not silent and state.line == old(state.line) and oldParentType == old(state.parentType)"),
                    ("first-token", "ntokens(state) >= old(ntokens(state)) + 3 and T[0].type == 'table_open' and T[0].nesting == 1 and T[0].level == old(state.level)")],
            "dec": "endLine - nextLine"},
        4: {"inv": [("next", "startLine + 2 <= nextLine and nextLine < endLine"), ("cols", "columnCount == len(aligns) and columnCount >= 1"), ("not-terminate", "not terminate"),
                    ("level", "state.level == old(state.level) + (1 if nextLine == startLine + 2 else 2)"), ("tbody", "iff(not tbodyLines, nextLine == startLine + 2)"),
                    ("ctx", "not silent and state.line == old(state.line) and oldParentType == old(state.parentType)"),
                    ("first-token", "ntokens(state) >= old(ntokens(state)) + 3 and T[0].type == 'table_open' and T[0].nesting == 1 and T[0].level == old(state.level)")],
            "dec": "len(terminatorRules) - _it4"},
        5: {"types": {"token": "obj:Token"},
            "inv": [("it", "_it5 <= columnCount"), ("next", "startLine + 2 <= nextLine and nextLine < endLine"), ("cols", "columnCount == len(aligns) and columnCount >= 1"),
                    ("level", "state.level == old(state.level) + 3"), ("tbody", "tbodyLines"),
                    ("ctx", "not silent and state.line == old(state.line) and oldParentType == old(state.parentType)"),
                    ("first-token", "ntokens(state) >= old(ntokens(state)) + 3 and T[0].type == 'table_open' and T[0].nesting == 1 and T[0].level == old(state.level)")],
            "dec": "columnCount - _it5"},
    },
))

# escapedSplit verified on its own (the table contract uses only `at least one cell`): safe, terminating, never returns an
# empty list, and the number of cells is one more than the number of unescaped pipes it passed
REG2 = dict(REGISTRY)
add2 = make_adder(REG2)
add2(Contract(
    QE, params={"string": "str"}, result="strseq", props=["C01", "C02"], ghost={"local_types": {"result": "strseq"}},
    ensures=[("at-least-one-cell", "len(result) >= 1", ["C01", "C02"])],
    loops={0: {"types": {"ch": "optchar", "current": "str"}, "inv": [("pos", "0 <= pos and pos <= max and max == len(string)"), ("last", "0 <= lastPos and lastPos <= pos + 1"), ("cells", "len(result) >= 0")], "dec": "max - pos"}},
))
