"""Contracts for markdown_it.main.MarkdownIt (facade over the rulers) - C14, C11."""
from vf.core import Contract
from .common import SPECFUNS, make_adder
from . import ruler as RU

M = "markdown_it.main.MarkdownIt."
REGISTRY = dict(RU.REGISTRY)
add = make_adder(REGISTRY)

RULERS = {"core": "self.core.ruler", "block": "self.block.ruler", "inline": "self.inline.ruler", "inline2": "self.inline.ruler2"}


def active_names(lst, rules):
    """lst is exactly the names of the enabled rules of `rules`"""
    n = f"len({rules}.__rules__)"
    return (f"forall(i, 0, {n}, implies({rules}.__rules__[i].enabled, exists(j, 0, len({lst}), {lst}[j] == {rules}.__rules__[i].name))) and "
            f"forall(j, 0, len({lst}), exists(i, 0, {n}, {rules}.__rules__[i].enabled and {rules}.__rules__[i].name == {lst}[j]))")


add(Contract(M + "__getitem__", inline=True, params={"self": "obj:MarkdownIt", "name": "str"}))
add(Contract(
    M + "get_active_rules", params={"self": "obj:MarkdownIt"}, assume_only=True,
    ghost={"result_dict": {k: "atomlist" for k in RULERS}},
    ensures=[(f"active-{k}", active_names(f"result['{k}']", r)) for k, r in RULERS.items()],
    notes="dict/list comprehensions over the rule records: semantics of comprehensions assumed; Ruler.get_active_rules is monitored in the bounded history check",
))

# user code inside the with-block may do anything to the four rulers through the public API
# (which never removes or renames a rule, and keeps names unique when they were unique)
YIELD_HAVOC = [f"{r}.__rules__" for r in RULERS.values()] + [f"{r}.__cache__" for r in RULERS.values()]
YIELD_ASSUME = []
for k, r in RULERS.items():
    YIELD_ASSUME.append((f"names-kept-{k}", f"forall(j, 0, len(chain_rules['{k}']), Find({r}.__rules__, len({r}.__rules__), chain_rules['{k}'][j]) >= 0)"))

RESTORED = []
for k, r in RULERS.items():
    n = f"len({r}.__rules__)"
    RESTORED.append((f"restored-{k}",
                     f"forall(i, 0, {n}, iff({r}.__rules__[i].enabled, "
                     f"exists(j, 0, len(chain_rules['{k}']), Find({r}.__rules__, {n}, chain_rules['{k}'][j]) == i)))"))
    RESTORED.append((f"cache-invalid-{k}", f"{r}.__cache__ is None"))

add(Contract(
    M + "reset_rules", params={"self": "obj:MarkdownIt"}, props=["C14"],
    ghost={"yield": {"havoc": YIELD_HAVOC, "assume": YIELD_ASSUME}},
    ensures=RESTORED,
    raises={"UserError": RESTORED},
    notes="@contextmanager: both continuations of the yield (resume / throw) must end with enableOnly(snapshot) applied to all four rulers",
))
