"""Contract for rules_block.list.markTightParagraphs under the record-list view of state.tokens (C02, C07): the function
only sets `hidden` flags, and only on paragraph_open tokens two levels below the list (and the token two places after
each, its paragraph_close); no index is out of range.  list_block's contract uses the summary "touches nothing but hidden
flags" at its call site."""
from vf.core import Contract
from .common import SPECFUNS, make_adder

REGISTRY = {}
add = make_adder(REGISTRY)
Q = "markdown_it.rules_block.list.markTightParagraphs"
FUNCS = [Q]
T = "state.tokens"
SAME = (f"forall(t, 0, len({T}), {T}[t].type == old({T}[t].type) and {T}[t].nesting == old({T}[t].nesting) and {T}[t].level == old({T}[t].level) "
        f"and {T}[t].content == old({T}[t].content) and {T}[t].tag == old({T}[t].tag) and {T}[t].markup == old({T}[t].markup) and {T}[t].info == old({T}[t].info))")
ONLY_HIDES = (f"forall(t, 0, len({T}), implies({T}[t].hidden != old({T}[t].hidden), {T}[t].hidden and t >= idx + 2 and "
              f"(({T}[t].type == 'paragraph_open' and {T}[t].level == state.level + 2) or (t >= 2 and {T}[t - 2].type == 'paragraph_open' and {T}[t - 2].level == state.level + 2))))")
add(Contract(
    Q, params={"state": "obj:StateBlockJ", "idx": "int"}, props=["C02", "C07", "C01"], modifies=["state.tokens"], ghost={"nowrap": True},
    requires=[("idx", "idx >= -2")],
    ensures=[("stream-length-kept", f"len({T}) == old(len({T}))", ["C02"]), ("nothing-but-hidden-flags", SAME, ["C02", "C07"]), ("only-tight-paragraphs-hidden", ONLY_HIDES, ["C02"])],
    loops={0: {"inv": [("i", "i >= idx + 2 and length == len(state.tokens) - 2 and level == state.level + 2"), ("stream-length-kept", f"len({T}) == old(len({T}))"),
                       ("nothing-but-hidden-flags", SAME), ("only-tight-paragraphs-hidden", ONLY_HIDES)], "dec": "length - i"}},
))
