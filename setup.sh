#!/bin/bash
# Builds /verif/.venv offline: z3-solver, cvc5, crosshair-tool, jsonschema from the local
# wheelhouse, plus a .pth that adds /venv's site-packages (editable markdown_it from /repo,
# mdurl, pytest).  Idempotent.
set -e
cd "$(dirname "$0")"
V=.venv
if [ ! -x $V/bin/python ] || ! $V/bin/python -c "import z3, cvc5, jsonschema, markdown_it" 2>/dev/null; then
  rm -rf $V
  /venv/bin/python -m venv $V
  PIP_NO_INDEX=1 $V/bin/pip install -q --no-index --find-links /opt/veriftools/wheels z3-solver cvc5 crosshair-tool jsonschema
  echo "import site; site.addsitedir('/venv/lib/python3.12/site-packages')" > $V/lib/python3.12/site-packages/_overlay.pth
fi
$V/bin/python -c "import z3, cvc5, jsonschema, markdown_it; print('setup ok: z3', z3.get_version_string())"
